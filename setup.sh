#!/bin/bash
# Build the verification harness offline from files on disk only, and self-test the oracles.
set -e
cd /verif/harness
export CARGO_NET_OFFLINE=true
mkdir -p /verif/work /verif/evidence /verif/replays
cargo build --offline --release -p h_uplc -p h_lang -p h_proj
/verif/target/release/h_uplc selftest
