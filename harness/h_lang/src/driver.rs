//! Thin driver over aiken-lang's public API: parse + type-check a module source, then
//! generate programs for its functions / tests / validators (the same calls
//! aiken-project's own test helper makes).

use aiken_lang::{
    ast::{DataTypeKey, Definition, FunctionAccessKey, ModuleKind, Tracing, TypedDataType, TypedFunction, TypedModule},
    builtins,
    expr::TypedExpr,
    gen_uplc::CodeGenerator,
    line_numbers::LineNumbers,
    parser,
    plutus_version::PlutusVersion,
    tipo::TypeInfo,
    IdGenerator,
};
use indexmap::IndexMap;
use std::collections::HashMap;

pub const MODULE_NAME: &str = "test_module";

#[derive(Clone)]
pub struct Proj {
    pub id_gen: IdGenerator,
    pub functions: IndexMap<FunctionAccessKey, TypedFunction>,
    pub constants: IndexMap<FunctionAccessKey, TypedExpr>,
    pub data_types: IndexMap<DataTypeKey, TypedDataType>,
    pub module_types: HashMap<String, TypeInfo>,
    pub module_sources: HashMap<String, (String, LineNumbers)>,
    pub plutus_version: PlutusVersion,
}

#[derive(Debug)]
pub enum CheckError {
    Parse(String),
    Type(String),
}

impl Proj {
    pub fn new() -> Self {
        let id_gen = IdGenerator::new();
        let mut module_types = HashMap::new();
        module_types.insert("aiken".to_string(), builtins::prelude(&id_gen));
        module_types.insert("aiken/builtin".to_string(), builtins::plutus(&id_gen));
        let functions = builtins::prelude_functions(&id_gen, &module_types);
        let data_types = builtins::prelude_data_types(&id_gen);
        Proj {
            id_gen,
            functions,
            constants: IndexMap::new(),
            data_types,
            module_types,
            module_sources: HashMap::new(),
            plutus_version: PlutusVersion::default(),
        }
    }

    /// Parse and type-check `src` as module `name`, registering its definitions.
    pub fn check_named(&mut self, name: &str, kind: ModuleKind, src: &str, tracing: Tracing) -> Result<TypedModule, CheckError> {
        let (mut ast, _extra) = parser::module(src, kind).map_err(|errs| {
            CheckError::Parse(errs.iter().map(|e| format!("{:?}", e.kind)).collect::<Vec<_>>().join("; "))
        })?;
        ast.name = name.to_string();
        let mut warnings = vec![];
        let typed = ast
            .infer(&self.id_gen, kind, "test/project", &self.module_types, tracing, &mut warnings, None)
            .map_err(|e| CheckError::Type(short_type_error(&e)))?;
        typed.register_definitions(&mut self.functions, &mut self.constants, &mut self.data_types);
        self.module_sources.insert(name.to_string(), (src.to_string(), LineNumbers::new(src)));
        self.module_types.insert(name.to_string(), typed.type_info.clone());
        Ok(typed)
    }

    pub fn check(&mut self, src: &str, tracing: Tracing) -> Result<TypedModule, CheckError> {
        self.check_named(MODULE_NAME, ModuleKind::Validator, src, tracing)
    }

    pub fn generator(&self, tracing: Tracing) -> CodeGenerator<'_> {
        CodeGenerator::new(
            self.plutus_version,
            self.functions.iter().collect(),
            self.constants.iter().collect(),
            self.data_types.iter().collect(),
            self.module_types.iter().map(|(k, v)| (k.as_str(), v)).collect(),
            self.module_sources.iter().map(|(k, v)| (k.as_str(), v)).collect(),
            tracing,
        )
    }
}

pub fn short_type_error(e: &aiken_lang::tipo::error::Error) -> String {
    let s = format!("{:?}", e);
    let head: String = s.chars().take_while(|c| c.is_alphanumeric() || *c == '_').collect();
    head
}

pub fn functions_of(m: &TypedModule) -> Vec<&TypedFunction> {
    m.definitions()
        .filter_map(|d| match d {
            Definition::Fn(f) => Some(f),
            _ => None,
        })
        .collect()
}
