//! C06, second family: programs that are *not* produced by a typed enumerator.
//!
//! The strata of `engine.rs` only contain programs the harness itself considers well typed,
//! so a type checker that starts accepting too much is invisible to them.  Here expressions
//! are enumerated from an *untyped* grammar (every form over every sub-expression, whatever
//! its type: casts to and expects at every type, constructor applications, field and tuple
//! accesses, operators, pattern bindings including alternative patterns, record updates,
//! calls of generic and Data-taking helpers).  The real type checker is the only judge of
//! which candidates are programs; every accepted candidate is compiled and run on the
//! product of valid encodings of the parameters it mentions; a structural machine error is
//! a violation.  Level 2 builds on the *accepted* level-1 expressions.

use crate::driver::{Proj, MODULE_NAME};
use crate::engine::{run_program_with, silent, Ran};
use aiken_lang::ast::ModuleKind;
use serde_json::json;
use std::collections::BTreeMap;
use std::sync::Mutex;
use std::time::Duration;
use uplc::machine::cost_model::ExBudget;
use vcore::evid::{guarded, Run, Tier, Violation};
use vcore::par::par_indices;
use vcore::rterm::RData;

pub const PRELUDE: &str = r#"use aiken/builtin

pub type T {
  A(Data)
  B(Int)
  C(ByteArray)
  D { x: Int, y: Bool }
}

pub type R {
  n: Int,
  d: Data,
}

fn id(x: a) -> a {
  x
}

fn as_data(x: Data) -> Data {
  x
}

fn un_int(x: Data) -> Int {
  expect i: Int = x
  i
}

fn inc(x: Int) -> Int {
  x + 1
}

fn len(xs: List<a>) -> Int {
  when xs is {
    [] -> 0
    [_, ..rest] -> 1 + len(rest)
  }
}

fn heads(xs: List<Data>) -> Data {
  when xs is {
    [] -> builtin.i_data(0)
    [h, ..] -> h
  }
}
"#;

fn int(i: i64) -> RData {
    RData::I(i.into())
}
fn con(t: u64, fs: Vec<RData>) -> RData {
    RData::Constr(t, fs)
}

/// (name, annotation, valid encodings)
pub fn params() -> Vec<(&'static str, &'static str, Vec<RData>)> {
    let t = || con(1, vec![]);
    vec![
        ("i", "Int", vec![int(0), int(1)]),
        ("b", "Bool", vec![con(0, vec![]), t()]),
        ("bs", "ByteArray", vec![RData::B(vec![]), RData::B(vec![0])]),
        ("d", "Data", vec![int(1), RData::B(vec![0]), con(0, vec![]), RData::List(vec![int(1)]), RData::Map(vec![]), con(1, vec![int(2)])]),
        ("xs", "List<Int>", vec![RData::List(vec![]), RData::List(vec![int(1)])]),
        ("o", "Option<Int>", vec![con(1, vec![]), con(0, vec![int(1)])]),
        ("p", "(Int, Bool)", vec![RData::List(vec![int(1), t()])]),
        ("q", "Pair<Int, Bool>", vec![RData::List(vec![int(1), t()])]),
        (
            "t",
            "T",
            vec![con(0, vec![int(5)]), con(0, vec![RData::B(vec![])]), con(1, vec![int(3)]), con(2, vec![RData::B(vec![1])]), con(3, vec![int(1), t()])],
        ),
        ("ds", "List<Data>", vec![RData::List(vec![]), RData::List(vec![int(1), RData::B(vec![])])]),
        ("r", "R", vec![con(0, vec![int(1), int(2)]), con(0, vec![int(0), con(0, vec![])])]),
        ("od", "Option<Data>", vec![con(1, vec![]), con(0, vec![int(1)]), con(0, vec![RData::B(vec![])])]),
        ("m", "Pairs<Int, Bool>", vec![RData::Map(vec![]), RData::Map(vec![(int(1), t())])]),
    ]
}

const ATOMS: [&str; 20] = ["i", "b", "bs", "d", "xs", "o", "p", "q", "t", "ds", "r", "od", "m", "0", "True", "#\"00\"", "None", "[]", G1_LIT, G2_LIT];

/// the generators of the two BLS12-381 groups, as literals (operands of their own types)
const G1_LIT: &str = "#<Bls12_381, G1>\"97f1d3a73197d7942695638c4fa9ac0fc3688c4f9774b905a14e3a3f171bac586c55e83ff97a1aeffb3af00adb22c6bb\"";
const G2_LIT: &str = "#<Bls12_381, G2>\"93e02b6052719f607dacd3a088274f65596bd0d09920b61ab5da61bbdc7f5049334cf11213945d57e5ac7d055d042b7e024aa2b2f08f0a91260805272dc51051c6e47ad4fa403b02b4510b647ae3d1770bac0326a805bbefd48056c8c121bdb8\"";

const CAST_TYPES: [&str; 13] = [
    "Data",
    "Int",
    "ByteArray",
    "Bool",
    "List<Int>",
    "List<Data>",
    "Option<Int>",
    "Option<Data>",
    "T",
    "R",
    "(Int, Bool)",
    "Pair<Int, Bool>",
    "Pairs<Int, Bool>",
];

/// patterns binding `v`
const BIND_PATS: [&str; 18] = [
    "Some(v)",
    "A(v)",
    "B(v)",
    "C(v)",
    "A(v) | B(v)",
    "B(v) | A(v)",
    "A(v) | C(v)",
    "C(v) | A(v)",
    "B(v) | D { x: v, .. }",
    "D { x: v, .. }",
    "R { d: v, .. }",
    "R { n: v, .. }",
    "[v, ..]",
    "[_, v, ..]",
    "(v, _)",
    "(_, v)",
    "Pair(v, _)",
    "Pair(_, v)",
];

/// uses of the bound variable
const USES: [&str; 7] = ["v", "un_int(v)", "inc(v)", "as_data(v)", "v == d", "v == i", "!v"];

/// `@` is the hole
pub fn unary_forms(reduced: bool) -> Vec<(String, &'static str)> {
    let mut out: Vec<(String, &'static str)> = vec![];
    for f in ["un_int(@)", "inc(@)", "as_data(@)", "len(@)", "heads(@)", "id(@)"] {
        out.push((f.to_string(), "call"));
    }
    for t in CAST_TYPES {
        out.push((format!("{{\n    let v: {t} = @\n    v\n  }}"), "let-annotation"));
        out.push((format!("{{\n    expect v: {t} = @\n    v\n  }}"), "expect-annotation"));
    }
    for p in BIND_PATS {
        for u in USES {
            if reduced && !matches!(u, "un_int(v)" | "inc(v)" | "v == d") {
                continue;
            }
            out.push((format!("when @ is {{\n    {p} -> {u}\n    _ -> fail\n  }}"), if p.contains('|') { "when-alternative-pattern" } else { "when-pattern" }));
            if !p.contains('|') {
                out.push((format!("{{\n    expect {p} = @\n    {u}\n  }}"), "expect-pattern"));
            }
            if matches!(p, "R { d: v, .. }" | "R { n: v, .. }" | "(v, _)" | "(_, v)" | "Pair(v, _)" | "Pair(_, v)") {
                out.push((format!("{{\n    let {p} = @\n    {u}\n  }}"), "let-pattern"));
            }
        }
    }
    if !reduced {
        for f in [
            "!@",
            "-@",
            "Some(@)",
            "A(@)",
            "B(@)",
            "C(@)",
            "[@]",
            "@.1st",
            "@.2nd",
            "@.n",
            "@.d",
            "@.x",
            "@.y",
            "builtin.un_i_data(@)",
            "builtin.i_data(@)",
            "builtin.head_list(@)",
            "builtin.fst_pair(@)",
        ] {
            out.push((f.to_string(), "constructor-or-accessor"));
        }
    }
    out
}

pub fn binary_forms() -> Vec<(&'static str, &'static str)> {
    vec![
        ("@1 + @2", "operator"),
        ("@1 == @2", "operator"),
        ("@1 != @2", "operator"),
        ("@1 < @2", "operator"),
        ("@1 && @2", "operator"),
        ("[@1, @2]", "constructor"),
        ("[@1, ..@2]", "constructor"),
        ("(@1, @2)", "constructor"),
        ("Pair(@1, @2)", "constructor"),
        ("D { x: @1, y: @2 }", "constructor"),
        ("R { n: @1, d: @2 }", "constructor"),
        ("R { ..@1, d: @2 }", "record-update"),
        ("R { ..@1, n: @2 }", "record-update"),
        ("if b {\n    @1\n  } else {\n    @2\n  }", "branches"),
        ("when o is {\n    Some(_) -> @1\n    None -> @2\n  }", "branches"),
        ("@1 |> fn(z) { z == @2 }", "lambda"),
    ]
}

#[derive(Clone)]
pub struct Cand {
    pub body: String,
    pub form: &'static str,
}

fn fill1(form: &str, e: &str) -> String {
    form.replace('@', &paren(e))
}

fn paren(e: &str) -> String {
    if e.chars().all(|c| c.is_alphanumeric() || c == '_' || c == '#' || c == '"') || e == "[]" || e.starts_with('{') {
        e.to_string()
    } else if e.contains('\n') {
        // block expressions are wrapped in braces so they can stand in operand position
        format!("{{\n  {e}\n  }}")
    } else {
        format!("({e})")
    }
}

pub fn level1() -> Vec<Cand> {
    let mut out = vec![];
    for a in ATOMS {
        out.push(Cand { body: a.to_string(), form: "atom" });
    }
    for (f, k) in unary_forms(false) {
        for a in ATOMS {
            out.push(Cand { body: fill1(&f, a), form: k });
        }
    }
    for (f, k) in binary_forms() {
        for a in ATOMS {
            for b in ATOMS {
                out.push(Cand {
                    body: f.replace("@1", a).replace("@2", b),
                    form: k,
                });
            }
        }
    }
    out
}

pub fn source_of(body: &str) -> String {
    let ps = params().iter().map(|(n, t, _)| format!("{n}: {t}")).collect::<Vec<_>>().join(", ");
    format!("{PRELUDE}\npub fn f0({ps}) {{\n  {body}\n}}\n")
}

/// parameters whose name occurs as an identifier in the body
fn mentioned(body: &str) -> Vec<usize> {
    let toks: Vec<&str> = body.split(|c: char| !(c.is_alphanumeric() || c == '_')).collect();
    params().iter().enumerate().filter(|(_, (n, _, _))| toks.contains(n)).map(|(i, _)| i).collect()
}

#[derive(Default)]
pub struct Local {
    pub candidates: u64,
    pub accepted: u64,
    pub accepted_by_form: BTreeMap<&'static str, u64>,
    pub rejected: BTreeMap<String, u64>,
    pub evaluations: u64,
    pub outcomes: BTreeMap<String, u64>,
    pub violations: Vec<Violation>,
    pub accepted_bodies: Vec<Cand>,
}

/// For C02: the compiler's output for an accepted candidate, after and before optimisation
/// (hook H1); None when the checker rejects the candidate or anything panics (C06 reports that).
pub fn compile_both(c: &Cand, base: &Proj) -> Option<(uplc::ast::Program<uplc::ast::Name>, uplc::ast::Program<uplc::ast::Name>)> {
    let src = source_of(&c.body);
    guarded(|| {
        let (mut ast, _) = aiken_lang::parser::module(&src, ModuleKind::Lib).ok()?;
        ast.name = MODULE_NAME.to_string();
        let mut warnings = vec![];
        let mut p = base.clone();
        let typed = ast.infer(&p.id_gen, ModuleKind::Lib, "test/project", &p.module_types, silent(), &mut warnings, None).ok()?;
        typed.register_definitions(&mut p.functions, &mut p.constants, &mut p.data_types);
        p.module_types.insert(MODULE_NAME.to_string(), typed.type_info.clone());
        let f = crate::driver::functions_of(&typed).into_iter().find(|f| f.name == "f0").cloned()?;
        let _ = aiken_lang::verif_hooks::drain_pre_optimisation();
        let mut g = p.generator(silent());
        let fin = g.generate_raw(&f.body, &f.arguments, MODULE_NAME);
        let s0 = aiken_lang::verif_hooks::drain_pre_optimisation().pop()?;
        Some((fin, s0))
    })
    .ok()
    .flatten()
}

/// the product of the valid encodings of the parameters the body mentions (defaults elsewhere)
pub fn arg_product(body: &str) -> Vec<Vec<RData>> {
    let ps = params();
    let used = mentioned(body);
    let mut idx = vec![0usize; ps.len()];
    let mut out = vec![];
    loop {
        out.push(ps.iter().enumerate().map(|(k, (_, _, vs))| vs[idx[k]].clone()).collect());
        let mut k = 0;
        loop {
            if k == used.len() {
                return out;
            }
            let p = used[k];
            idx[p] += 1;
            if idx[p] < ps[p].2.len() {
                break;
            }
            idx[p] = 0;
            k += 1;
        }
    }
}

pub fn budget() -> ExBudget {
    ExBudget { mem: 100_000_000, cpu: 100_000_000_000 }
}

pub fn check_candidate(c: &Cand, base: &Proj, l: &mut Local, keep: bool) {
    l.candidates += 1;
    let src = source_of(&c.body);
    let case = json!({"engine":"c06-untyped","form":c.form,"body":c.body,"source":src});
    let r = guarded(|| {
        let (mut ast, _) = aiken_lang::parser::module(&src, ModuleKind::Lib).map_err(|e| format!("parse: {:?}", e.first().map(|x| &x.kind)))?;
        ast.name = MODULE_NAME.to_string();
        let mut warnings = vec![];
        let mut p = base.clone();
        match ast.infer(&p.id_gen, ModuleKind::Lib, "test/project", &p.module_types, silent(), &mut warnings, None) {
            Ok(typed) => {
                typed.register_definitions(&mut p.functions, &mut p.constants, &mut p.data_types);
                p.module_types.insert(MODULE_NAME.to_string(), typed.type_info.clone());
                Ok(Ok((p, typed)))
            }
            Err(e) => Ok::<_, String>(Err(crate::driver::short_type_error(&e))),
        }
    });
    let (proj, typed) = match r {
        Err(p) => {
            l.violations.push(Violation {
                signature: format!("panic|type-checker|{}", vcore::evid::panic_site_file(&p)),
                what: format!("type-checking this function panicked: {p}\n{}", c.body),
                case,
            });
            return;
        }
        Ok(Err(e)) => {
            *l.rejected.entry(e.chars().take(30).collect()).or_default() += 1;
            return;
        }
        Ok(Ok(Err(e))) => {
            *l.rejected.entry(e).or_default() += 1;
            return;
        }
        Ok(Ok(Ok(x))) => x,
    };
    l.accepted += 1;
    *l.accepted_by_form.entry(c.form).or_default() += 1;
    if keep {
        l.accepted_bodies.push(c.clone());
    }
    let Some(f) = crate::driver::functions_of(&typed).into_iter().find(|f| f.name == "f0").cloned() else { return };
    let compiled = guarded(|| {
        let mut g = proj.generator(silent());
        let p = g.generate_raw(&f.body, &f.arguments, MODULE_NAME);
        let _ = aiken_lang::verif_hooks::drain_pre_optimisation();
        p
    });
    let program = match compiled {
        Ok(p) => p,
        Err(pn) => {
            l.violations.push(Violation {
                signature: format!("panic|compiler|{}|{}", vcore::evid::panic_site_file(&pn), c.form),
                what: format!("compiling this accepted function panicked: {pn}\n{}", c.body),
                case,
            });
            return;
        }
    };
    let ps = params();
    let used = mentioned(&c.body);
    let mut idx = vec![0usize; ps.len()];
    loop {
        let args: Vec<RData> = ps.iter().enumerate().map(|(k, (_, _, vs))| vs[idx[k]].clone()).collect();
        l.evaluations += 1;
        let got = run_program_with(&program, &args, budget());
        let show_args = || used.iter().map(|k| format!("{} = {}", ps[*k].0, vcore::rterm::show_data(&args[*k]))).collect::<Vec<_>>().join(", ");
        match &got {
            Ran::Value(_) => *l.outcomes.entry("value".into()).or_default() += 1,
            Ran::Panic(p) => {
                l.violations.push(Violation {
                    signature: format!("panic|evaluation|{}|{}", vcore::evid::panic_site_file(p), c.form),
                    what: format!("evaluating this accepted function panicked: {p}\n{}\nwith {}", c.body, show_args()),
                    case: case.clone(),
                });
                return;
            }
            Ran::Error(k) => {
                *l.outcomes.entry(k.clone()).or_default() += 1;
                let kind = k.split(':').next().unwrap_or("");
                if crate::c01::STRUCTURAL.contains(&kind) || k.ends_with(":non-data-operand") {
                    l.violations.push(Violation {
                        signature: format!("structural-error|{kind}|untyped-family:{}", c.form),
                        what: format!("the type checker accepts this function, yet it fails with the structural machine error {k}:\n  {}\nwith {}", c.body, show_args()),
                        case: case.clone(),
                    });
                    return;
                }
            }
        }
        // next combination of the mentioned parameters
        let mut k = 0;
        loop {
            if k == used.len() {
                return;
            }
            let p = used[k];
            idx[p] += 1;
            if idx[p] < ps[p].2.len() {
                break;
            }
            idx[p] = 0;
            k += 1;
        }
    }
}

pub fn part(run: &mut Run, tier: Tier) {
    let l1 = level1();
    let n1 = l1.len();
    let kept: Mutex<Vec<Cand>> = Mutex::new(vec![]);
    let out = par_indices(
        n1 as u64,
        16,
        None,
        |_| (Proj::new(), Local::default()),
        |(base, l), i| check_candidate(&l1[i as usize], base, l, true),
        |(_, mut l)| {
            kept.lock().unwrap().append(&mut l.accepted_bodies);
            l
        },
    );
    let mut t = Local::default();
    let merge = |t: &mut Local, l: Local| {
        t.candidates += l.candidates;
        t.accepted += l.accepted;
        t.evaluations += l.evaluations;
        for (k, v) in l.accepted_by_form {
            *t.accepted_by_form.entry(k).or_default() += v;
        }
        for (k, v) in l.rejected {
            *t.rejected.entry(k).or_default() += v;
        }
        for (k, v) in l.outcomes {
            *t.outcomes.entry(k).or_default() += v;
        }
        t.violations.extend(l.violations);
    };
    for l in out.results {
        merge(&mut t, l);
    }
    let mut kept = kept.into_inner().unwrap();
    kept.sort_by(|a, b| (a.body.len(), &a.body).cmp(&(b.body.len(), &b.body)));
    kept.retain(|c| c.form != "atom");
    run.set("untyped_level1_candidates", n1 as u64);
    run.set("untyped_level1_accepted", t.accepted);
    // level 2: forms over accepted level-1 expressions.  Quick tier: the helper calls and the
    // let/expect annotations at every type, over the level-1 expressions that are themselves
    // calls, annotations or accessors; thorough tier: every unary form over every accepted
    // level-1 expression, and every binary form pairing one with an atom.
    let reduced = tier == Tier::Quick;
    let uforms: Vec<(String, &'static str)> = if reduced { unary_forms(true).into_iter().filter(|(_, k)| matches!(*k, "call" | "let-annotation" | "expect-annotation")).collect() } else { unary_forms(false) };
    let mut l2: Vec<Cand> = vec![];
    for e in &kept {
        if reduced && !matches!(e.form, "call" | "let-annotation" | "expect-annotation" | "constructor-or-accessor" | "record-update") {
            continue;
        }
        for (f, k) in &uforms {
            l2.push(Cand { body: fill1(f, &e.body), form: k });
        }
    }
    if !reduced {
        for e in &kept {
            for (f, k) in binary_forms() {
                for a in ATOMS {
                    l2.push(Cand { body: f.replace("@1", &paren(&e.body)).replace("@2", a), form: k });
                    l2.push(Cand { body: f.replace("@1", a).replace("@2", &paren(&e.body)), form: k });
                }
            }
        }
    }
    let n2 = l2.len();
    let cap = Some(Duration::from_secs(if tier == Tier::Quick { 40 } else { 1500 }));
    let out2 = par_indices(n2 as u64, 16, cap, |_| (Proj::new(), Local::default()), |(base, l), i| check_candidate(&l2[i as usize], base, l, false), |(_, l)| l);
    let acc1 = t.accepted;
    for l in out2.results {
        merge(&mut t, l);
    }
    if out2.capped {
        run.cap_hit(&format!("untyped family, level 2: wall cap after {} of {} candidates", out2.done, n2));
    }
    run.set("untyped_level2_candidates", n2 as u64);
    run.set("untyped_level2_accepted", t.accepted - acc1);
    run.set("untyped_accepted_by_form", json!(t.accepted_by_form));
    run.set("untyped_rejections", json!(t.rejected.iter().map(|(k, v)| (k.clone(), *v)).collect::<BTreeMap<_, _>>()));
    run.set("untyped_evaluations", t.evaluations);
    run.set("untyped_outcomes", json!(t.outcomes));
    run.add("states", t.candidates);
    run.add("transitions", t.evaluations);
    run.add("evaluations", t.evaluations);
    if t.accepted < 200 || t.outcomes.len() < 3 {
        run.machinery_error(format!("untyped family is vacuous: {} accepted, outcomes {:?}", t.accepted, t.outcomes.keys().collect::<Vec<_>>()));
    }
    // at most a handful per signature
    let mut per: BTreeMap<String, u32> = BTreeMap::new();
    for v in t.violations {
        let n = per.entry(v.signature.clone()).or_default();
        *n += 1;
        if *n <= 3 {
            run.violation(v);
        }
    }
}

pub fn replay(body: &str) -> Option<Vec<Violation>> {
    let base = Proj::new();
    let mut l = Local::default();
    check_candidate(&Cand { body: body.to_string(), form: "replay" }, &base, &mut l, false);
    Some(l.violations)
}
