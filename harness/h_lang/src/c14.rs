//! C14 – trace settings never change what a program decides.
//!
//! Every function of the strata is type-checked and compiled under each of the nine
//! `Tracing` values (3 scopes x 3 levels) and run on the full argument product; success /
//! failure and the result constant must be identical across the nine builds (traces, size
//! and cost are ignored).

use crate::ak::*;
use crate::c01::BATCH;
use crate::engine::*;
use aiken_lang::ast::{TraceLevel, Tracing};
use serde_json::json;
use std::collections::{BTreeMap, HashSet};
use std::time::Duration;
use uplc::ast::{Name, Program};
use vcore::evid::{guarded, Run, Tier, Violation};
use vcore::par::par_indices;
use vcore::rterm::RData;

pub fn tracings() -> Vec<(&'static str, Tracing)> {
    use TraceLevel::*;
    vec![
        ("all-silent", Tracing::All(Silent)),
        ("all-compact", Tracing::All(Compact)),
        ("all-verbose", Tracing::All(Verbose)),
        ("user-silent", Tracing::UserDefined(Silent)),
        ("user-compact", Tracing::UserDefined(Compact)),
        ("user-verbose", Tracing::UserDefined(Verbose)),
        ("compiler-silent", Tracing::CompilerGenerated(Silent)),
        ("compiler-compact", Tracing::CompilerGenerated(Compact)),
        ("compiler-verbose", Tracing::CompilerGenerated(Verbose)),
    ]
}

#[derive(Default)]
struct Local {
    functions: u64,
    builds: u64,
    evaluations: u64,
    compared: u64,
    code_differs: u64,
    outcomes: HashSet<String>,
    per_stratum: BTreeMap<String, u64>,
    per_signature: BTreeMap<String, u64>,
    violations: Vec<Violation>,
    machinery: Vec<String>,
    samples: Vec<String>,
}

fn outcome(program: &Program<Name>, data: &[RData]) -> String {
    match run_program(program, data) {
        Ran::Value(t) => match &t {
            uplc::ast::Term::Constant(c) => format!("value:{:?}", c),
            _ => "value:<non-constant>".into(),
        },
        Ran::Error(k) if k == "OutOfExError" => "budget".into(),
        Ran::Error(_) => "fail".into(),
        Ran::Panic(p) => format!("panic:{p}"),
    }
}

/// does the body contain a `trace` whose message has an operand that can abort (division,
/// modulo, or a call)?  That is the input class of D12.
fn trace_operand_can_abort(e: &Expr) -> bool {
    fn can_abort(e: &Expr) -> bool {
        match e {
            Expr::Bin(Op::Div | Op::Mod, ..) | Expr::Call(..) | Expr::Fail | Expr::Todo | Expr::Expect(..) | Expr::ExpectTy(..) => true,
            Expr::Bin(_, a, b) => can_abort(a) || can_abort(b),
            Expr::Neg(a) | Expr::Not(a) => can_abort(a),
            Expr::If(c, t, f) => can_abort(c) || can_abort(t) || can_abort(f),
            Expr::TraceArg(a, b) => can_abort(a) || can_abort(b),
            Expr::Trace(_, b) => can_abort(b),
            Expr::Let(_, v, b) => can_abort(v) || can_abort(b),
            _ => false,
        }
    }
    match e {
        Expr::TraceArg(a, b) => can_abort(a) || trace_operand_can_abort(b),
        Expr::Bin(_, a, b) => trace_operand_can_abort(a) || trace_operand_can_abort(b),
        Expr::Not(a) | Expr::Neg(a) | Expr::Trace(_, a) | Expr::TraceIfFalse(a) => trace_operand_can_abort(a),
        Expr::If(c, t, f) => trace_operand_can_abort(c) || trace_operand_can_abort(t) || trace_operand_can_abort(f),
        Expr::Let(_, v, b) => trace_operand_can_abort(v) || trace_operand_can_abort(b),
        _ => false,
    }
}

fn c14_strata(tier: Tier) -> Vec<Stratum> {
    // Nine builds per function make this check nine times as expensive as C01 per function.
    // Quick tier: the stratum built for this property (`trace-operands`) at its full bound,
    // the strata that contain trace / ? / expect / fail / todo / casts one size smaller, the
    // others (whose code depends on the tracing mode only through compiler-inserted traces)
    // two sizes smaller.  The thorough tier uses the quick tier's C01 bounds for all strata.
    let mut v: Vec<Stratum> = strata(Tier::Quick)
        .into_iter()
        .map(|mut s| {
            let traced = s.prods.traces || s.prods.trace_args || s.prods.aborts || s.prods.expect || s.prods.casts;
            if tier == Tier::Quick {
                if s.name == "trace-operands" {
                } else if traced {
                    s.max_size = s.max_size.saturating_sub(1);
                } else {
                    s.max_size = s.max_size.saturating_sub(2);
                }
            }
            s
        })
        .collect();
    // traced strata first: a wall cap, if hit, cuts the least relevant strata
    v.sort_by_key(|s| !(s.prods.traces || s.prods.trace_args || s.prods.aborts || s.prods.expect || s.prods.casts));
    v
}

pub fn run(tier: Tier, replay: Option<String>) -> i32 {
    if let Some(p) = replay {
        return replay_case(&p);
    }
    let mut run = Run::new("C14", tier);
    let trs = tracings();
    let counts: Vec<usize> = {
        let sts = c14_strata(tier);
        let mut w = Worker::new();
        sts.iter().enumerate().map(|(i, st)| w.bodies(i, st).len()).collect()
    };
    let mut offsets = vec![];
    let mut total_batches = 0u64;
    for c in &counts {
        offsets.push(total_batches);
        total_batches += c.div_ceil(BATCH) as u64;
    }
    let cap = Some(Duration::from_secs(if tier == Tier::Quick { 50 } else { 1700 }));
    let out = par_indices(
        total_batches,
        1,
        cap,
        |_| (Worker::new(), c14_strata(tier), Local::default()),
        |(w, sts, l), bidx| {
            let si = match offsets.binary_search(&bidx) {
                Ok(mut i) => {
                    while i + 1 < offsets.len() && offsets[i + 1] == bidx {
                        i += 1;
                    }
                    i
                }
                Err(i) => i - 1,
            };
            let st = &sts[si];
            let bodies = w.bodies(si, st);
            let start = (bidx - offsets[si]) as usize * BATCH;
            let end = (start + BATCH).min(bodies.len());
            if start >= end {
                return;
            }
            let srcs: Vec<String> = (start..end).map(|i| function_source(&format!("f{}", i - start), st, &bodies[i])).collect();
            // programs[t][k]
            let mut programs: Vec<Vec<Option<Program<Name>>>> = vec![];
            // the same builds before optimisation (hook H1), to tell which differences the optimiser introduces
            let mut pre: Vec<Vec<Option<Program<Name>>>> = vec![];
            for (tname, t) in &trs {
                let t = *t;
                let built = guarded(|| {
                    let (proj, fns) = w.check_batch(&srcs, t).map_err(|e| format!("{:?}", e))?;
                    let mut out = vec![];
                    for f in &fns {
                        let p = guarded(|| {
                            let mut g = proj.generator(t);
                            let _ = aiken_lang::verif_hooks::drain_pre_optimisation();
                            let p = g.generate_raw(&f.body, &f.arguments, crate::driver::MODULE_NAME);
                            let s0 = aiken_lang::verif_hooks::drain_pre_optimisation().pop();
                            (p, s0)
                        });
                        out.push(p);
                    }
                    Ok::<_, String>(out)
                });
                match built {
                    Ok(Ok(v)) if v.len() == end - start => {
                        let mut row = vec![];
                        let mut row0 = vec![];
                        for (k, p) in v.into_iter().enumerate() {
                            match p {
                                Ok((p, s0)) => {
                                    row.push(Some(p));
                                    row0.push(s0);
                                }
                                Err(pn) => {
                                    l.violations.push(Violation {
                                        signature: format!("panic|compiler|{}|{tname}", vcore::evid::panic_site_file(&pn)),
                                        what: format!("compiling under tracing {tname} panicked: {pn}\n{}", srcs[k]),
                                        case: json!({"engine":"c14","source":srcs[k],"tracing":tname}),
                                    });
                                    row.push(None);
                                    row0.push(None);
                                }
                            }
                        }
                        programs.push(row);
                        pre.push(row0);
                    }
                    Ok(Ok(_)) => {
                        l.machinery.push("batch returned a different number of functions".into());
                        return;
                    }
                    Ok(Err(e)) => {
                        // C01 reports what the type checker rejects; a batch accepted under one tracing
                        // mode and rejected under another would be a C14 matter:
                        if *tname != "all-silent" {
                            l.violations.push(Violation {
                                signature: format!("type-check-depends-on-tracing|{tname}"),
                                what: format!("a batch accepted under all-silent is rejected under {tname}: {e}"),
                                case: json!({"engine":"c14","stratum":st.name,"batch_start":start,"tracing":tname}),
                            });
                        }
                        return;
                    }
                    Err(p) => {
                        l.violations.push(Violation { signature: format!("panic|type-checker|{tname}"), what: format!("type-checking under {tname} panicked: {p}"), case: json!({"engine":"c14","stratum":st.name,"batch_start":start}) });
                        return;
                    }
                }
                l.builds += (end - start) as u64;
            }
            let tuples = arg_tuples(st);
            let datas: Vec<Vec<RData>> = tuples.iter().map(|args| st.params.iter().zip(args).map(|((_, t), v)| to_data(v, t)).collect()).collect();
            for k in 0..end - start {
                let body = &bodies[start + k];
                l.functions += 1;
                *l.per_stratum.entry(st.name.to_string()).or_default() += 1;
                let Some(base) = &programs[0][k] else { continue };
                if let Some(verbose) = &programs[2][k] {
                    if verbose.to_pretty() != base.to_pretty() {
                        l.code_differs += 1;
                    }
                }
                let src = function_source("f", st, body);
                'tuples: for (ai, data) in datas.iter().enumerate() {
                    let want = outcome(base, data);
                    l.evaluations += 1;
                    l.outcomes.insert(want.chars().take(40).collect());
                    for (ti, (tname, _)) in trs.iter().enumerate().skip(1) {
                        let Some(p) = &programs[ti][k] else { continue };
                        let got = outcome(p, data);
                        l.evaluations += 1;
                        l.compared += 1;
                        if got != want {
                            // a difference that one build's optimiser run introduced (its own
                            // pre-optimisation program behaves like the other build) carries the
                            // signature C02 gives that defect: one identity in C01, C02 and C14
                            let by_optimiser = [0usize, ti].iter().find_map(|b| match (&pre[*b][k], &programs[*b][k]) {
                                (Some(s0), Some(fin)) => crate::c02::attribute_to_optimiser(&src, body, s0, fin, data),
                                _ => None,
                            });
                            let class = match &by_optimiser {
                                Some(sig) => format!("introduced-by-the-optimiser|{sig}"),
                                None if trace_operand_can_abort(body) => "trace operand aborts".to_string(),
                                None => "other".to_string(),
                            };
                            let kind = if want == "fail" { "succeeds-only-when-traced-differently" } else if got == "fail" { "fails-only-when-traced-differently" } else { "value-differs" };
                            let signature = format!("verdict-depends-on-tracing|{kind}|{class}");
                            let n = l.per_signature.entry(signature.clone()).or_default();
                            *n += 1;
                            if *n <= 20 {
                                l.violations.push(Violation {
                                    signature,
                                    what: format!("the all-silent build gives {want} but the {tname} build gives {got}:\n{src}args: {}", tuples[ai].iter().map(show_val).collect::<Vec<_>>().join(", ")),
                                    case: json!({"engine":"c14","source":src,"tracing":tname,"args":tuples[ai].iter().map(show_val).collect::<Vec<_>>()}),
                                });
                            }
                            break 'tuples;
                        }
                    }
                }
                if l.samples.len() < 2 && (start + k) % 997 == 11 {
                    l.samples.push(src);
                }
            }
        },
        |(_, _, l)| l,
    );
    let mut t = Local::default();
    for l in out.results {
        t.functions += l.functions;
        t.builds += l.builds;
        t.evaluations += l.evaluations;
        t.compared += l.compared;
        t.code_differs += l.code_differs;
        t.outcomes.extend(l.outcomes);
        for (k, v) in l.per_stratum {
            *t.per_stratum.entry(k).or_default() += v;
        }
        for (k, v) in l.per_signature {
            *t.per_signature.entry(k).or_default() += v;
        }
        run.violations_extend(l.violations);
        for m in l.machinery.into_iter().take(2) {
            run.machinery_error(m);
        }
        for s in l.samples {
            run.sample(s);
        }
    }
    if out.capped {
        run.cap_hit(&format!("wall cap: {} of {} batches of {} functions", out.done, total_batches, BATCH));
    }
    run.set("functions", t.functions);
    run.set("functions_in_space", counts.iter().sum::<usize>() as u64);
    run.set("builds", t.builds);
    run.set("tracing_values", trs.len() as u64);
    run.set("evaluations", t.evaluations);
    run.set("states", t.builds);
    run.set("transitions", t.evaluations);
    run.set("traces_validated_against_impl", t.compared);
    run.set("functions_whose_verbose_code_differs_from_silent", t.code_differs);
    run.set("functions_with_a_difference_per_signature", json!(t.per_signature));
    run.set("per_stratum_functions", json!(t.per_stratum));
    run.set("distinct_nontrivial", t.outcomes.len() as u64);
    decoder_part(&mut run, tier);
    run.set("rule", "(a) every function body of the strata (those containing trace, trace with an operand, ?, expect, fail, todo, Data casts at the full size bound) type-checked and compiled under each of the 9 Tracing values and evaluated on the full argument product; results (failure / constant) must coincide with the all-silent build; distinct_nontrivial = distinct observable outcomes; (b) decoder family: 37 types covering Bool/Void/nested pairs in every position of pairs, map entries, tuples, lists, options, records and enums x 3-5 decoding forms (`expect _: T`, `expect v: T` + use, `if d is T`, destructuring patterns) x 9 tracings, run on the Data universe plus the mutation ball of every sample value: all nine builds must agree");
    run.assume("traces, program size and cost are ignored (the property is about what the program decides)");
    if t.functions == 0 {
        run.machinery_error("vacuous: nothing compiled");
    }
    if t.code_differs * 10 < t.functions {
        run.machinery_error("vacuous: fewer than 10% of the functions compile to different code under verbose tracing");
    }
    run.finish()
}

fn replay_case(path: &str) -> i32 {
    let doc: serde_json::Value = serde_json::from_str(&std::fs::read_to_string(path).expect("read")).expect("json");
    let case = &doc["case"];
    if case["engine"] == "c14-decoders" {
        // the family is small: run it again and report what concerns the recorded type
        let mut run = Run::new("C14", Tier::Quick);
        decoder_part(&mut run, Tier::Quick);
        let vs = run.take_violations();
        let hits: Vec<_> = vs.iter().filter(|v| v.case["type"] == case["type"]).collect();
        for v in &hits {
            println!("VIOLATION property=C14 replay={path}\n  {}", v.what);
        }
        if hits.is_empty() {
            println!("no violation on replay");
        }
        return if hits.is_empty() { 0 } else { 1 };
    }
    let Some(src) = case["source"].as_str() else {
        println!("no source in the replay file");
        return 2;
    };
    let w = Worker::new();
    let src0 = src.replacen("pub fn f(", "pub fn f0(", 1);
    let mut st_found = None;
    for tier in [Tier::Quick, Tier::Thorough] {
        for st in strata(tier) {
            if src.lines().next() == function_source("f", &st, &Expr::Void).lines().next() {
                st_found = Some(st);
                break;
            }
        }
        if st_found.is_some() {
            break;
        }
    }
    let Some(st) = st_found else {
        println!("stratum of the replay file not found");
        return 2;
    };
    let tuples = arg_tuples(&st);
    let mut results: Vec<Vec<String>> = vec![];
    for (_, t) in tracings() {
        let (proj, fns) = w.check_batch(&[src0.clone()], t).expect("type check");
        let mut g = proj.generator(t);
        let p = g.generate_raw(&fns[0].body, &fns[0].arguments, crate::driver::MODULE_NAME);
        results.push(tuples.iter().map(|args| outcome(&p, &st.params.iter().zip(args).map(|((_, t), v)| to_data(v, t)).collect::<Vec<_>>())).collect());
    }
    let mut bad = false;
    for (ti, (tname, _)) in tracings().iter().enumerate() {
        for (ai, r) in results[ti].iter().enumerate() {
            if *r != results[0][ai] {
                println!("VIOLATION property=C14 replay={path}\n  all-silent gives {} but {tname} gives {r} on args {}", results[0][ai], tuples[ai].iter().map(show_val).collect::<Vec<_>>().join(", "));
                bad = true;
                break;
            }
        }
    }
    if bad { 1 } else {
        println!("no violation on replay");
        0
    }
}

// ---------------------------------------------------------------------------------------
// Decoder family.  Whether a piece of Data is accepted by `expect` / `if .. is` is the most
// common verdict a validator takes, and the code that decides it is generated along two
// different paths: with a traced failure handler (compiler traces on) and without.  Every
// type of a list that covers each kind of component (Bool / Void / nested pair in first and
// second position of pairs and map entries, tuples, lists, options, records, enums) gets a
// set of decoding functions; each is compiled under the nine tracings and run on the Data
// universe plus the mutation ball of the type's sample values; all nine builds must agree.

const DECODER_TYPES: &str = r#"pub type Proposal {
  id: Int,
  votes: Pairs<ByteArray, Bool>,
}

pub type Wrap {
  flag: Bool,
  unit: Void,
  p: Pair<Int, Bool>,
}

pub type E {
  X(Bool)
  Y(Void, Int)
  Z
}
"#;

/// (annotation, sample literals, extra decoding forms with `@` for the annotation)
fn decoder_types() -> Vec<(&'static str, Vec<&'static str>, Vec<&'static str>)> {
    let pair = "expect Pair(a, b): @ = d\n  if a == a && b == b {\n    1\n  } else {\n    0\n  }";
    vec![
        ("Int", vec!["1"], vec![]),
        ("ByteArray", vec!["#\"00\""], vec![]),
        ("Bool", vec!["True", "False"], vec!["expect True: @ = d\n  1"]),
        ("Void", vec!["Void"], vec!["expect Void: @ = d\n  1"]),
        ("Data", vec![], vec![]),
        ("List<Int>", vec!["[1, 2]"], vec!["expect [h, ..]: @ = d\n  h"]),
        ("List<Data>", vec![], vec![]),
        ("List<Bool>", vec!["[True, False]"], vec!["expect [h, ..]: @ = d\n  if h {\n    1\n  } else {\n    0\n  }"]),
        ("List<Void>", vec!["[Void]"], vec![]),
        ("List<List<Bool>>", vec!["[[True], []]"], vec![]),
        ("List<(Int, Bool)>", vec!["[(1, True)]"], vec![]),
        ("Option<Bool>", vec!["Some(True)", "None"], vec!["expect Some(x): @ = d\n  if x {\n    1\n  } else {\n    0\n  }", "expect None: @ = d\n  1"]),
        ("Option<Void>", vec!["Some(Void)"], vec![]),
        ("Option<Option<Bool>>", vec!["Some(Some(False))", "Some(None)"], vec![]),
        ("Option<Pair<Int, Bool>>", vec!["Some(Pair(1, True))"], vec![]),
        ("(Int, Bool)", vec!["(1, True)"], vec!["expect (a, b): @ = d\n  if b {\n    a\n  } else {\n    0 - a\n  }"]),
        ("(Bool, Void, Int)", vec!["(False, Void, 2)"], vec![]),
        ("(Int, (Bool, Int))", vec!["(1, (True, 2))"], vec![]),
        ("Pair<Int, Bool>", vec!["Pair(7, True)", "Pair(0, False)"], vec![pair, "expect Pair(n, enabled): @ = d\n  if enabled {\n    n\n  } else {\n    0 - n\n  }"]),
        ("Pair<Bool, Int>", vec!["Pair(False, 2)"], vec![pair]),
        ("Pair<Int, Void>", vec!["Pair(1, Void)"], vec![pair]),
        ("Pair<Void, Bool>", vec!["Pair(Void, True)"], vec![pair]),
        ("Pair<Int, Pair<Int, Bool>>", vec!["Pair(1, Pair(2, True))"], vec![pair]),
        ("Pair<Pair<Bool, Int>, Int>", vec!["Pair(Pair(True, 2), 3)"], vec![pair]),
        ("Pair<Int, List<Bool>>", vec!["Pair(1, [True])"], vec![pair]),
        ("Pair<Int, Option<Bool>>", vec!["Pair(1, Some(True))"], vec![pair]),
        ("Pairs<ByteArray, Bool>", vec!["[Pair(#\"00\", True), Pair(#\"01\", False)]"], vec!["expect [Pair(_, v), ..]: @ = d\n  if v {\n    1\n  } else {\n    0\n  }"]),
        ("Pairs<Bool, Bool>", vec!["[Pair(True, False)]"], vec![]),
        ("Pairs<Int, Void>", vec!["[Pair(1, Void)]"], vec![]),
        ("Pairs<Int, Pair<Int, Bool>>", vec!["[Pair(1, Pair(2, True))]"], vec![]),
        ("Pairs<Int, (Int, Bool)>", vec!["[Pair(1, (2, True))]"], vec![]),
        ("List<Pairs<Int, Bool>>", vec!["[[Pair(1, True)], []]"], vec![]),
        ("Proposal", vec!["Proposal { id: 1, votes: [Pair(#\"aa\", True)] }"], vec!["expect Proposal { votes, .. }: @ = d\n  when votes is {\n    [Pair(_, v), ..] ->\n      if v {\n        1\n      } else {\n        0\n      }\n    [] -> 2\n  }"]),
        ("Wrap", vec!["Wrap { flag: True, unit: Void, p: Pair(1, False) }"], vec!["expect Wrap { p, .. }: @ = d\n  p.1st"]),
        ("E", vec!["X(True)", "Y(Void, 1)", "Z"], vec!["expect X(b): @ = d\n  if b {\n    1\n  } else {\n    0\n  }", "expect Z: @ = d\n  1", "expect Y(_, n): @ = d\n  n", "expect Y(..): @ = d\n  1"]),
        ("List<E>", vec!["[X(False), Z]"], vec![]),
        ("Option<Wrap>", vec!["Some(Wrap { flag: False, unit: Void, p: Pair(0, True) })"], vec![]),
    ]
}

fn decoder_source() -> (String, Vec<(usize, String, String)>, Vec<(usize, String)>) {
    let mut src = String::from(DECODER_TYPES);
    let mut fns = vec![];
    let mut samples = vec![];
    for (k, (t, lits, extra)) in decoder_types().iter().enumerate() {
        let mut forms: Vec<String> = vec![
            "expect _v: @ = d\n  1".to_string(),
            "expect v: @ = d\n  if v == v {\n    1\n  } else {\n    0\n  }".to_string(),
            "if d is @ {\n    if d == d {\n      1\n    } else {\n      0\n    }\n  } else {\n    2\n  }".to_string(),
        ];
        forms.extend(extra.iter().map(|s| s.to_string()));
        for (j, f) in forms.iter().enumerate() {
            let name = format!("g_{k}_{j}");
            let body = f.replace('@', t);
            src.push_str(&format!("\npub fn {name}(d: Data) -> Int {{\n  {body}\n}}\n"));
            fns.push((k, name, body));
        }
        for (i, lit) in lits.iter().enumerate() {
            let name = format!("s_{k}_{i}");
            src.push_str(&format!("\npub fn {name}() -> Data {{\n  let v: {t} = {lit}\n  let d: Data = v\n  d\n}}\n"));
            samples.push((k, name));
        }
    }
    (src, fns, samples)
}

pub fn decoder_part(run: &mut Run, tier: Tier) {
    let (src, fns, samples) = decoder_source();
    let types = decoder_types();
    let trs = tracings();
    // programs[t][f], built on the main thread (41 types x <=5 forms x 9 tracings)
    let mut programs: Vec<Vec<Program<Name>>> = vec![];
    let mut sample_values: Vec<(usize, RData)> = vec![];
    for (ti, (tname, t)) in trs.iter().enumerate() {
        let built = guarded(|| {
            let mut proj = crate::driver::Proj::new();
            let typed = proj.check(&src, *t).map_err(|e| format!("{:?}", e))?;
            let all = crate::driver::functions_of(&typed);
            let mut row = vec![];
            for (_, name, _) in &fns {
                let f = all.iter().find(|f| &f.name == name).ok_or(format!("function {name} missing"))?;
                let mut g = proj.generator(*t);
                row.push(g.generate_raw(&f.body, &f.arguments, crate::driver::MODULE_NAME));
                let _ = aiken_lang::verif_hooks::drain_pre_optimisation();
            }
            let mut vals = vec![];
            if ti == 0 {
                for (k, name) in &samples {
                    let f = all.iter().find(|f| &f.name == name).ok_or(format!("function {name} missing"))?;
                    let mut g = proj.generator(*t);
                    let p = g.generate_raw(&f.body, &f.arguments, crate::driver::MODULE_NAME);
                    let _ = aiken_lang::verif_hooks::drain_pre_optimisation();
                    match run_program(&p, &[]) {
                        Ran::Value(uplc::ast::Term::Constant(c)) => match c.as_ref() {
                            uplc::ast::Constant::Data(d) => vals.push((*k, vcore::rterm::from_impl_data(d))),
                            other => return Err(format!("sample {name} is not Data: {:?}", other)),
                        },
                        _ => return Err(format!("sample {name} does not evaluate")),
                    }
                }
            }
            Ok::<_, String>((row, vals))
        });
        match built {
            Ok(Ok((row, vals))) => {
                programs.push(row);
                if ti == 0 {
                    sample_values = vals;
                }
            }
            Ok(Err(e)) => {
                if ti == 0 {
                    run.machinery_error(format!("decoder family does not build under {tname}: {e}"));
                } else {
                    run.violation(Violation { signature: format!("type-check-depends-on-tracing|{tname}"), what: format!("the decoder module builds under all-silent but not under {tname}: {e}"), case: json!({"engine":"c14-decoders","tracing":tname}) });
                }
                return;
            }
            Err(p) => {
                run.violation(Violation { signature: format!("panic|compiler|{}|{tname}", vcore::evid::panic_site_file(&p)), what: format!("building the decoder module under {tname} panicked: {p}"), case: json!({"engine":"c14-decoders","tracing":tname}) });
                return;
            }
        }
    }
    let universe = match tier {
        Tier::Quick => vcore::datau::depth2_reduced(),
        Tier::Thorough => vcore::datau::depth2_full(),
    };
    // per type: universe + samples + their mutation balls
    let mut cands: Vec<Vec<RData>> = vec![vec![]; types.len()];
    for (k, c) in cands.iter_mut().enumerate() {
        let mut v = universe.clone();
        for (sk, d) in &sample_values {
            if *sk == k {
                v.push(d.clone());
                v.extend(vcore::datau::mutation_ball(d).into_iter().map(|(_, m)| m));
            }
        }
        *c = vcore::datau::dedup(v);
    }
    // programs hold Rc: evaluation is sharded by re-serialising through flat in each worker
    let flats: Vec<Vec<Vec<u8>>> = programs
        .iter()
        .map(|row| {
            row.iter()
                .map(|p| {
                    let d: Program<uplc::ast::DeBruijn> = p.clone().try_into().expect("closed program");
                    d.to_flat().expect("flat")
                })
                .collect()
        })
        .collect();
    drop(programs);
    #[derive(Default)]
    struct L {
        evaluations: u64,
        compared: u64,
        accepted: u64,
        rejected: u64,
        violations: Vec<Violation>,
    }
    let out = par_indices(
        fns.len() as u64,
        1,
        None,
        |_| L::default(),
        |l, fi| {
            let (k, _, body) = &fns[fi as usize];
            let progs: Vec<Program<Name>> = flats
                .iter()
                .map(|row| {
                    let d = Program::<uplc::ast::DeBruijn>::from_flat(&row[fi as usize]).expect("unflat");
                    let n: Program<uplc::ast::NamedDeBruijn> = d.into();
                    n.try_into().expect("names")
                })
                .collect();
            let mut flagged = false;
            for d in &cands[*k] {
                let want = outcome(&progs[0], std::slice::from_ref(d));
                l.evaluations += 1;
                if want == "fail" {
                    l.rejected += 1;
                } else {
                    l.accepted += 1;
                }
                for (ti, (tname, _)) in trs.iter().enumerate().skip(1) {
                    let got = outcome(&progs[ti], std::slice::from_ref(d));
                    l.evaluations += 1;
                    l.compared += 1;
                    if got != want && !flagged {
                        flagged = true;
                        let kind = if want == "fail" { "succeeds-only-when-traced-differently" } else if got == "fail" { "fails-only-when-traced-differently" } else { "value-differs" };
                        l.violations.push(Violation {
                            signature: format!("verdict-depends-on-tracing|{kind}|decoder:{}", types[*k].0),
                            what: format!("decoding {} as {}: the all-silent build gives {want} but the {tname} build gives {got}:\n  {body}", vcore::rterm::show_data(d), types[*k].0),
                            case: json!({"engine":"c14-decoders","type":types[*k].0,"body":body,"tracing":tname,"data":vcore::rterm::show_data(d)}),
                        });
                    }
                }
            }
        },
        |l| l,
    );
    let (mut ev, mut cmp, mut acc, mut rej) = (0u64, 0u64, 0u64, 0u64);
    for l in out.results {
        ev += l.evaluations;
        cmp += l.compared;
        acc += l.accepted;
        rej += l.rejected;
        run.violations_extend(l.violations);
    }
    run.set("decoder_types", types.len() as u64);
    run.set("decoder_functions", fns.len() as u64);
    run.set("decoder_builds", (fns.len() * trs.len()) as u64);
    run.set("decoder_evaluations", ev);
    run.set("decoder_inputs_accepted_by_the_silent_build", acc);
    run.set("decoder_inputs_rejected_by_the_silent_build", rej);
    run.add("evaluations", ev);
    run.add("transitions", ev);
    run.add("traces_validated_against_impl", cmp);
    if acc == 0 || rej == 0 || sample_values.is_empty() {
        run.machinery_error("decoder family is vacuous");
    }
}
