//! Shared engine for the checks that enumerate Aiken functions: strata, batching into
//! modules, compilation through the real pipeline, evaluation, decoding of results.

use crate::ak::*;
use crate::driver::*;
use crate::egen::*;
use crate::prelude;
use aiken_lang::ast::{TraceLevel, Tracing, TypedFunction};
use std::collections::HashMap;
use std::rc::Rc;
use uplc::ast::{Constant, DeBruijn, Name, NamedDeBruijn, Program, Term};
use uplc::machine::cost_model::ExBudget;
use vcore::evid::{guarded, Tier};
use vcore::rterm::{self, RData};

pub struct Stratum {
    pub name: &'static str,
    pub params: Vec<(String, Ty)>,
    pub ret: Ty,
    pub prods: Prods,
    pub max_size: usize,
    /// a family written out by hand instead of enumerated from `prods`
    pub custom: Option<fn() -> Vec<Expr>>,
}

fn ps(v: &[(&str, Ty)]) -> Vec<(String, Ty)> {
    v.iter().map(|(n, t)| (n.to_string(), t.clone())).collect()
}

/// The strata of C01 (each closed under typing). `bump` adds to every size bound.
pub fn strata(tier: Tier) -> Vec<Stratum> {
    let b = match tier {
        Tier::Quick => 0,
        Tier::Thorough => 1,
    };
    let eq_basic = vec![Ty::Bool, Ty::Bytes];
    vec![
        // (first: small, and a wall cap must never cut it)
        Stratum { name: "repeated-operators", params: ps(&[("a", Ty::Int), ("b", Ty::Int), ("c", Ty::Int)]), ret: Ty::Int, prods: Default::default(), max_size: 0, custom: Some(repeated_operator_bodies) },
        Stratum { name: "partial-bindings", params: ps(&[("a", Ty::Int), ("b", Ty::Int), ("p", Ty::Bool), ("o", t_opt_int())]), ret: Ty::Int, prods: Default::default(), max_size: 0, custom: Some(partial_binding_bodies) },
        Stratum {
            name: "arith-compare-if-let",
            params: ps(&[("a", Ty::Int), ("b", Ty::Int)]),
            ret: Ty::Int,
            prods: Prods { arith: true, compare: true, if_: true, let_: true, ..Default::default() },
            max_size: 6 + b,
            custom: None,
        },
        Stratum {
            name: "bool-connectives-abort-trace",
            params: ps(&[("a", Ty::Int), ("p", Ty::Bool)]),
            ret: Ty::Bool,
            prods: Prods { compare: true, connectives: true, if_: true, aborts: true, traces: true, arith: true, eq_types: eq_basic.clone(), ..Default::default() },
            max_size: 5 + b,
            custom: None,
        },
        Stratum {
            name: "when-ctors-fields(shape)",
            params: ps(&[("s", Ty::Adt("Shape")), ("a", Ty::Int)]),
            ret: Ty::Int,
            prods: Prods { arith: true, when: true, ctors: true, if_: true, compare: true, ..Default::default() },
            max_size: 6 + b,
            custom: None,
        },
        Stratum {
            name: "when-ctors-fields(rec,tuple)",
            params: ps(&[("r", Ty::Adt("Rec")), ("t", t_tuple_ib())]),
            ret: Ty::Adt("Rec"),
            prods: Prods { arith: true, when: true, ctors: true, fields: true, compare: true, connectives: true, ..Default::default() },
            max_size: 6 + b,
            custom: None,
        },
        Stratum {
            name: "when-option-color-tree",
            params: ps(&[("o", t_opt_int()), ("c", Ty::Adt("Color")), ("t", Ty::Adt("Tree"))]),
            ret: t_opt_int(),
            prods: Prods { arith: true, when: true, ctors: true, helpers: true, ..Default::default() },
            max_size: 6 + b,
            custom: None,
        },
        Stratum {
            name: "lists-recursion-helpers",
            params: ps(&[("xs", t_list_int()), ("a", Ty::Int)]),
            ret: Ty::Int,
            prods: Prods { arith: true, when: true, lists: true, helpers: true, ..Default::default() },
            max_size: 5 + b,
            custom: None,
        },
        Stratum {
            name: "lists-build",
            params: ps(&[("xs", t_list_int()), ("a", Ty::Int)]),
            ret: t_list_int(),
            prods: Prods { arith: true, when: true, lists: true, helpers: true, lambdas: true, ..Default::default() },
            max_size: 6 + b,
            custom: None,
        },
        Stratum {
            name: "expect-option-list-shape",
            params: ps(&[("o", t_opt_int()), ("xs", t_list_int()), ("s", Ty::Adt("Shape"))]),
            ret: Ty::Int,
            prods: Prods { arith: true, expect: true, if_: true, compare: true, ..Default::default() },
            max_size: 6 + b,
            custom: None,
        },
        Stratum {
            name: "data-casts",
            params: ps(&[("d", Ty::Data), ("a", Ty::Int)]),
            ret: Ty::Bool,
            prods: Prods { casts: true, compare: true, ctors: true, lists: true, when: true, eq_types: vec![Ty::Data, t_opt_int(), Ty::Adt("Shape")], ..Default::default() },
            max_size: 6 + b,
            custom: None,
        },
        Stratum {
            name: "data-upcast",
            params: ps(&[("s", Ty::Adt("Shape")), ("t", t_tuple_ib()), ("xs", t_list_int())]),
            ret: Ty::Data,
            prods: Prods { casts: true, ctors: true, lists: true, arith: true, ..Default::default() },
            max_size: 5 + b,
            custom: None,
        },
        Stratum {
            name: "lambdas-hofs-strictness",
            params: ps(&[("a", Ty::Int), ("p", Ty::Bool)]),
            ret: Ty::Int,
            prods: Prods { arith: true, lambdas: true, helpers: true, aborts: true, if_: true, compare: true, ..Default::default() },
            max_size: 5 + b,
            custom: None,
        },
        Stratum {
            name: "equality-structural",
            params: ps(&[("s", Ty::Adt("Shape")), ("o", t_opt_int()), ("xs", t_list_int())]),
            ret: Ty::Bool,
            prods: Prods { compare: true, ctors: true, lists: true, connectives: true, eq_types: vec![Ty::Adt("Shape"), t_opt_int(), t_list_int(), t_tuple_ib(), Ty::Adt("Tree")], ..Default::default() },
            max_size: 5 + b,
            custom: None,
        },
        Stratum {
            name: "trace-operands",
            params: ps(&[("a", Ty::Int), ("p", Ty::Bool)]),
            ret: Ty::Bool,
            prods: Prods { compare: true, arith: true, traces: true, trace_args: true, if_: true, ..Default::default() },
            max_size: 5 + b,
            custom: None,
        },
        Stratum {
            name: "pairs-boxes",
            params: ps(&[("bx", Ty::Adt("BoxInt")), ("a", Ty::Int)]),
            ret: Ty::Int,
            prods: Prods { arith: true, when: true, ctors: true, let_: true, ..Default::default() },
            max_size: 6 + b,
            custom: None,
        },
        // Pair values take their own route through the code generator (builtin pairs, not Data)
        Stratum {
            name: "pair-consume",
            params: ps(&[("q", t_pair_ii()), ("a", Ty::Int)]),
            ret: Ty::Int,
            prods: Prods { arith: true, when: true, fields: true, let_: true, if_: true, compare: true, expect: true, ..Default::default() },
            max_size: 5 + b,
            custom: None,
        },
        Stratum {
            name: "pair-build",
            params: ps(&[("a", Ty::Int), ("p", Ty::Bool), ("q", t_pair_ii())]),
            ret: t_pair_ii(),
            prods: Prods { arith: true, ctors: true, if_: true, fields: true, when: true, eq_types: vec![t_pair_ii()], ..Default::default() },
            max_size: 5 + b,
            custom: None,
        },
    ]
}

/// A binding whose initialiser can abort (division, modulo, a failing `expect`), used by the
/// continuation on some paths only or on every path: `let v = a / b  if p { v } else { 0 }`.
/// The enumerated strata reach the shape only for `expect` casts (size).
pub fn partial_binding_bodies() -> Vec<Expr> {
    let v = |x: &str| Expr::Var(x.into());
    let int = |i: i64| Expr::Int(num_bigint::BigInt::from(i));
    let bin = |op: Op, a: Expr, b: Expr| Expr::Bin(op, Rc::new(a), Rc::new(b));
    let rc = |e: Expr| Rc::new(e);
    let partials = vec![bin(Op::Div, v("a"), v("b")), bin(Op::Mod, v("a"), v("b")), bin(Op::Div, int(1000), v("b")), bin(Op::Add, bin(Op::Div, v("a"), v("b")), int(1))];
    let uses: Vec<Box<dyn Fn(Expr) -> Expr>> = vec![
        Box::new(|x| Expr::If(Rc::new(Expr::Var("p".into())), Rc::new(x), Rc::new(Expr::Int(0.into())))),
        Box::new(|x| Expr::If(Rc::new(Expr::Var("p".into())), Rc::new(Expr::Int(0.into())), Rc::new(x))),
        Box::new(|x| Expr::If(Rc::new(Expr::Var("p".into())), Rc::new(x.clone()), Rc::new(Expr::Bin(Op::Add, Rc::new(x), Rc::new(Expr::Int(1.into())))))),
        Box::new(|x| Expr::When(Rc::new(Expr::Var("a".into())), vec![(Pat::Int(0), Expr::Int(7.into())), (Pat::Discard, x)])),
        Box::new(|x| Expr::When(Rc::new(Expr::Var("a".into())), vec![(Pat::Int(0), x), (Pat::Discard, Expr::Int(7.into()))])),
        Box::new(|x| Expr::If(Rc::new(Expr::Bin(Op::And, Rc::new(Expr::Var("p".into())), Rc::new(Expr::Bin(Op::Gt, Rc::new(x), Rc::new(Expr::Int(0.into())))))), Rc::new(Expr::Int(1.into())), Rc::new(Expr::Int(2.into())))),
        Box::new(|x| Expr::Bin(Op::Add, Rc::new(x), Rc::new(Expr::Int(1.into())))),
        // captured by a closure that is called on some paths only
        Box::new(|x| {
            let call = || Expr::Call(Rc::new(Expr::Var("f".into())), vec![]);
            Expr::Let(Pat::Var("f".into()), Rc::new(Expr::Lam(vec![], Rc::new(x))), Rc::new(Expr::If(Rc::new(Expr::Var("p".into())), Rc::new(call()), Rc::new(Expr::Int(0.into())))))
        }),
        Box::new(|x| {
            let call = || Expr::Call(Rc::new(Expr::Var("f".into())), vec![]);
            Expr::Let(
                Pat::Var("f".into()),
                Rc::new(Expr::Lam(vec![], Rc::new(x))),
                Rc::new(Expr::If(Rc::new(Expr::Bin(Op::Gt, Rc::new(Expr::Var("a".into())), Rc::new(Expr::Int(0.into())))), Rc::new(Expr::Bin(Op::Mul, Rc::new(call()), Rc::new(Expr::Var("a".into())))), Rc::new(Expr::If(Rc::new(Expr::Var("p".into())), Rc::new(Expr::Bin(Op::Sub, Rc::new(call()), Rc::new(Expr::Int(1.into())))), Rc::new(Expr::Int(0.into())))))),
            )
        }),
        // the same behind a guard whose failing branch is a bare `fail`
        Box::new(|x| {
            let call = || Expr::Call(Rc::new(Expr::Var("f".into())), vec![]);
            Expr::If(
                Rc::new(Expr::Bin(Op::Ge, Rc::new(Expr::Var("a".into())), Rc::new(Expr::Int(0.into())))),
                Rc::new(Expr::Let(Pat::Var("f".into()), Rc::new(Expr::Lam(vec![], Rc::new(x))), Rc::new(Expr::If(Rc::new(Expr::Var("p".into())), Rc::new(Expr::Bin(Op::Add, Rc::new(call()), Rc::new(call()))), Rc::new(Expr::Int(0.into())))))),
                Rc::new(Expr::Fail),
            )
        }),
    ];
    let mut out = vec![];
    for pexp in &partials {
        for u in &uses {
            out.push(Expr::Let(Pat::Var("v".into()), rc(pexp.clone()), rc(u(v("v")))));
        }
    }
    // the same with a failing pattern `expect`: expect Some(x) = o
    for u in &uses {
        out.push(Expr::Expect(Pat::Ctor(t_opt_int(), 0, vec![Pat::Var("x".into())], false), rc(v("o")), rc(u(v("x")))));
    }
    out
}

/// Bodies in which one operator is applied 1-4 times to the *same constant* on the same side
/// and different non-constant operands.  The size bounds of the enumerated strata never reach
/// three occurrences of `x < 10`, which is exactly where the optimiser starts sharing the
/// partial application `[builtin 10]` between call sites (builtin_curry_reducer).
pub fn repeated_operator_bodies() -> Vec<Expr> {
    let v = |x: &str| Expr::Var(x.into());
    let int = |i: i64| Expr::Int(num_bigint::BigInt::from(i));
    let bin = |op: Op, a: Expr, b: Expr| Expr::Bin(op, Rc::new(a), Rc::new(b));
    let operands = [v("a"), v("b"), v("c"), bin(Op::Add, v("a"), v("b"))];
    let mut out = vec![];
    for op in [Op::Lt, Op::Le, Op::Gt, Op::Ge, Op::Eq, Op::Ne, Op::Add, Op::Sub, Op::Mul, Op::Div, Op::Mod] {
        let boolean = matches!(op, Op::Lt | Op::Le | Op::Gt | Op::Ge | Op::Eq | Op::Ne);
        for k in [10i64, 1, 0, -3] {
            for const_right in [true, false] {
                for n in 1..=4usize {
                    let mut body: Option<Expr> = None;
                    for (j, x) in operands.iter().take(n).enumerate() {
                        let app = if const_right { bin(op, x.clone(), int(k)) } else { bin(op, int(k), x.clone()) };
                        let weight = int(if boolean { 1 << j } else { 1000i64.pow(j as u32) });
                        let term = if boolean { Expr::If(Rc::new(app), Rc::new(weight), Rc::new(int(0))) } else { bin(Op::Mul, app, weight) };
                        body = Some(match body {
                            None => term,
                            Some(acc) => bin(Op::Add, acc, term),
                        });
                    }
                    out.push(body.unwrap());
                }
            }
        }
    }
    out
}

pub fn function_source(name: &str, st: &Stratum, body: &Expr) -> String {
    format!(
        "pub fn {}({}) -> {} {{\n{}\n}}\n",
        name,
        st.params.iter().map(|(n, t)| format!("{}: {}", n, show_ty(t))).collect::<Vec<_>>().join(", "),
        show_ty(&st.ret),
        show(body)
    )
}

/// full cartesian product of the parameters' universes
pub fn arg_tuples(st: &Stratum) -> Vec<Vec<Val>> {
    let mut out: Vec<Vec<Val>> = vec![vec![]];
    for (_, t) in &st.params {
        let u = universe(t);
        let mut next = vec![];
        for pre in &out {
            for x in &u {
                let mut p = pre.clone();
                p.push(x.clone());
                next.push(p);
            }
        }
        out = next;
    }
    out
}

pub fn huge() -> ExBudget {
    ExBudget { mem: 1_000_000_000_000, cpu: 1_000_000_000_000_000 }
}

#[derive(Debug, Clone, PartialEq)]
pub enum Ran {
    Value(Term<NamedDeBruijn>),
    Error(String),
    Panic(String),
}

/// Apply a compiled function to Data-encoded arguments and evaluate (PlutusV3 defaults, as
/// `aiken check` does).
pub fn run_program(program: &Program<Name>, args: &[RData]) -> Ran {
    run_program_with(program, args, huge())
}

pub fn run_program_with(program: &Program<Name>, args: &[RData], budget: ExBudget) -> Ran {
    let mut p = program.clone();
    for a in args {
        p = p.apply_data(rterm::to_impl_data(a));
    }
    match guarded(move || {
        let d: Program<DeBruijn> = p.to_debruijn().map_err(|e| format!("free variable in compiler output: {e}"))?;
        let r = d.eval(budget);
        Ok::<_, String>(r.result.map_err(|e| {
            let k = h_uplc::common::error_kind(&e);
            // this machine reports `unIData 42` (a non-Data constant) as a deserialisation
            // error; for a compiled well-typed program that is a structural failure
            match &e {
                uplc::machine::Error::DeserialisationError(_, uplc::machine::value::Value::Con(c)) if !matches!(c.as_ref(), Constant::Data(_)) => format!("{k}:non-data-operand"),
                _ => k,
            }
        }))
    }) {
        Ok(Ok(Ok(t))) => Ran::Value(t),
        Ok(Ok(Err(k))) => Ran::Error(k),
        Ok(Err(e)) => Ran::Error(format!("FreeUnique:{e}")),
        Err(p) => Ran::Panic(p),
    }
}

/// Type-directed decoding of a result term.
pub fn decode(t: &Term<NamedDeBruijn>, ty: &Ty) -> Option<Val> {
    let Term::Constant(c) = t else { return None };
    decode_const(c, ty)
}

fn decode_const(c: &Constant, ty: &Ty) -> Option<Val> {
    match (c, ty) {
        (Constant::Integer(i), Ty::Int) => Some(Val::Int(i.clone())),
        (Constant::Bool(b), Ty::Bool) => Some(Val::Bool(*b)),
        (Constant::ByteString(b), Ty::Bytes) => Some(Val::Bytes(b.clone())),
        (Constant::Unit, Ty::Void) => Some(Val::Void),
        (Constant::Data(d), t) => from_data(&rterm::from_impl_data(d), t),
        (Constant::ProtoList(_, items), Ty::List(e)) => items.iter().map(|i| decode_const(i, e)).collect::<Option<Vec<_>>>().map(Val::List),
        (Constant::ProtoList(_, items), Ty::Tuple(ts)) if items.len() == ts.len() => items.iter().zip(ts).map(|(i, t)| decode_const(i, t)).collect::<Option<Vec<_>>>().map(Val::Tuple),
        (Constant::ProtoPair(_, _, a, b), Ty::Pair(ta, tb)) => Some(Val::Pair(Box::new(decode_const(a, ta)?), Box::new(decode_const(b, tb)?))),
        _ => None,
    }
}

pub fn show_val(v: &Val) -> String {
    match v {
        Val::Int(i) => format!("{i}"),
        Val::Bool(b) => format!("{b}"),
        Val::Bytes(b) => format!("#{}", hex::encode(b)),
        Val::Void => "Void".into(),
        Val::List(xs) => format!("[{}]", xs.iter().map(show_val).collect::<Vec<_>>().join(", ")),
        Val::Tuple(xs) => format!("({})", xs.iter().map(show_val).collect::<Vec<_>>().join(", ")),
        Val::Pair(a, b) => format!("Pair({}, {})", show_val(a), show_val(b)),
        Val::Ctor(i, fs) => format!("#{}({})", i, fs.iter().map(show_val).collect::<Vec<_>>().join(", ")),
        Val::Data(d) => rterm::show_data(d),
        Val::Closure(_) => "<fn>".into(),
    }
}

/// Worker-local state: the type-checked prelude, and lazily generated strata bodies.
pub struct Worker {
    pub base: Proj,
    pub prelude_src: String,
    pub globals: HashMap<String, Rc<FnDef>>,
    pub bodies: HashMap<usize, Rc<Vec<Rc<Expr>>>>,
}

impl Worker {
    pub fn new() -> Self {
        Worker { base: Proj::new(), prelude_src: prelude::prelude_source(), globals: prelude::globals(), bodies: HashMap::new() }
    }

    pub fn bodies(&mut self, idx: usize, st: &Stratum) -> Rc<Vec<Rc<Expr>>> {
        if let Some(b) = self.bodies.get(&idx) {
            return b.clone();
        }
        let v = match st.custom {
            Some(f) => Rc::new(f().into_iter().map(Rc::new).collect::<Vec<_>>()),
            None => {
                let mut g = Gen::new(st.prods.clone());
                Rc::new(g.all_upto(&st.ret, st.max_size, &st.params))
            }
        };
        self.bodies.insert(idx, v.clone());
        v
    }

    /// Type-check `prelude + functions`; Ok gives the project state and the typed functions
    /// named f0..fk in order.
    pub fn check_batch(&self, fn_sources: &[String], infer_tracing: Tracing) -> Result<(Proj, Vec<TypedFunction>), CheckError> {
        let mut src = self.prelude_src.clone();
        for f in fn_sources {
            src.push_str(f);
            src.push('\n');
        }
        let mut p = self.base.clone();
        let m = p.check(&src, infer_tracing)?;
        let fns: Vec<TypedFunction> = functions_of(&m).into_iter().filter(|f| f.name.starts_with('f') && f.name[1..].chars().all(|c| c.is_ascii_digit())).cloned().collect();
        Ok((p, fns))
    }
}

pub fn silent() -> Tracing {
    Tracing::All(TraceLevel::Silent)
}

pub fn count_strata_bodies(tier: Tier) -> Vec<(String, usize)> {
    strata(tier)
        .iter()
        .map(|st| {
            let mut g = Gen::new(st.prods.clone());
            (st.name.to_string(), g.count_upto(&st.ret, st.max_size, &st.params))
        })
        .collect()
}
