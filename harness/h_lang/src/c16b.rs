//! C16 (b) – the real property-test loop on compiled Aiken fuzzers.
//!
//! Fuzzers (a 40-line library over the prelude's PRNG: byte, map, and_then, list_of, both)
//! and properties are compiled from source; every (property x expectation x seed) is run
//! through the real `PropertyTest::run` / `run_n_times`.  Oracle: an independent replay of the
//! loop from public pieces (`Prng::from_seed`, `Prng::sample`, `PropertyTest::eval`) gives the
//! first iteration whose input must be kept; then
//!   - two runs are identical;
//!   - the iteration count and the success verdict equal the oracle's;
//!   - the reported counterexample is real: re-applying the property to it gives the outcome
//!     the expectation calls a counterexample (the property FAILS on it for a plain or
//!     `fail once` test, SUCCEEDS on it for a `fail` test);
//!   - `Prng::from_choices(choices).sample` regenerates exactly the reported value;
//!   - the reported choices are not larger (shortlex) than those of the first kept input.

use crate::driver::Proj;
use aiken_lang::ast::{Definition, ModuleKind, OnTestFailure};
use aiken_lang::plutus_version::PlutusVersion;
use aiken_lang::test_framework::{Prng, PropertyTest, Test, TestResult};
use serde_json::{json, Value as J};
use std::collections::{BTreeMap, HashSet};
use vcore::evid::{guarded, Run, Tier, Violation};

pub const FUZZ_LIB: &str = r#"use aiken/builtin

pub fn byte() -> Fuzzer<Int> {
  fn(prng: PRNG) -> Option<(PRNG, Int)> {
    when prng is {
      Seeded { seed, choices } -> {
        let choice = builtin.index_bytearray(seed, 0)
        Some(
          (
            Seeded {
              seed: builtin.blake2b_256(seed),
              choices: builtin.cons_bytearray(choice, choices),
            },
            choice,
          ),
        )
      }
      Replayed { cursor, choices } ->
        if cursor >= 1 {
          let cursor = cursor - 1
          Some((Replayed { cursor, choices }, builtin.index_bytearray(choices, cursor)))
        } else {
          None
        }
    }
  }
}

pub fn constant(a: a) -> Fuzzer<a> {
  fn(prng) { Some((prng, a)) }
}

pub fn map(fuzz_a: Fuzzer<a>, f: fn(a) -> b) -> Fuzzer<b> {
  fn(prng) {
    when fuzz_a(prng) is {
      Some((prng2, a)) -> Some((prng2, f(a)))
      None -> None
    }
  }
}

pub fn and_then(fuzz_a: Fuzzer<a>, f: fn(a) -> Fuzzer<b>) -> Fuzzer<b> {
  fn(prng) {
    when fuzz_a(prng) is {
      Some((prng2, a)) -> f(a)(prng2)
      None -> None
    }
  }
}

pub fn both(fuzz_a: Fuzzer<a>, fuzz_b: Fuzzer<b>) -> Fuzzer<(a, b)> {
  and_then(fuzz_a, fn(a) { map(fuzz_b, fn(b) { (a, b) }) })
}

pub fn list_of_n(n: Int, fuzz_a: Fuzzer<a>) -> Fuzzer<List<a>> {
  if n <= 0 {
    constant([])
  } else {
    and_then(fuzz_a, fn(x) { map(list_of_n(n - 1, fuzz_a), fn(xs) { [x, ..xs] }) })
  }
}

pub fn list_of(fuzz_a: Fuzzer<a>) -> Fuzzer<List<a>> {
  and_then(byte(), fn(n) { list_of_n(n % 4, fuzz_a) })
}

/// total on replay: an exhausted replay yields 0 instead of None (as some libraries pad), so
/// the empty choice sequence is a valid input
pub fn padded() -> Fuzzer<Int> {
  fn(prng: PRNG) -> Option<(PRNG, Int)> {
    when prng is {
      Seeded { seed, choices } -> {
        let choice = builtin.index_bytearray(seed, 0)
        Some(
          (
            Seeded {
              seed: builtin.blake2b_256(seed),
              choices: builtin.cons_bytearray(choice, choices),
            },
            choice,
          ),
        )
      }
      Replayed { cursor, choices } ->
        if cursor >= 1 {
          let cursor = cursor - 1
          Some((Replayed { cursor, choices }, builtin.index_bytearray(choices, cursor)))
        } else {
          Some((Replayed { cursor, choices }, 0))
        }
    }
  }
}

/// a partial fuzzer: aborts on about one draw in eleven
pub fn crashy() -> Fuzzer<Int> {
  and_then(
    byte(),
    fn(n) {
      if n % 11 == 0 {
        fail
      } else {
        constant(n)
      }
    },
  )
}
"#;

/// (name, fuzzer expression, argument pattern, body)
const PROPS: [(&str, &str, &str, &str); 10] = [
    // a fuzzer for which the empty choice sequence is valid (and falsifies / satisfies)
    ("padded_odd", "padded()", "n", "n % 2 == 1"),
    ("padded_big", "both(padded(), padded())", "(a, b)", "a + b > 600"),
    // partial fuzzer: the run ends with a fuzzer error unless an input is kept first
    ("crashy_never", "crashy()", "n", "n >= 0"),
    ("crashy_even", "crashy()", "n", "n % 2 == 0"),
    ("even", "byte()", "n", "n % 2 == 0"),
    ("small", "byte()", "n", "n < 200"),
    ("short", "list_of(byte())", "xs", "length(xs) < 2"),
    ("sum", "list_of(byte())", "xs", "sum(xs) < 300"),
    ("always", "byte()", "n", "n >= 0"),
    ("ordered", "both(byte(), byte())", "(a, b)", "a <= b"),
];

const MODES: [(&str, &str); 3] = [("plain", ""), ("fail", " fail"), ("once", " fail once")];

pub fn test_module() -> String {
    let mut s = String::from("use fuzz.{both, byte, crashy, list_of, padded}\n\nfn length(xs: List<a>) -> Int {\n  when xs is {\n    [] -> 0\n    [_, ..rest] -> 1 + length(rest)\n  }\n}\n\nfn sum(xs: List<Int>) -> Int {\n  when xs is {\n    [] -> 0\n    [x, ..rest] -> x + sum(rest)\n  }\n}\n");
    for (name, fz, pat, body) in PROPS {
        for (mname, kw) in MODES {
            s.push_str(&format!("\ntest p_{name}_{mname}({pat} via {fz}){kw} {{\n  {body}\n}}\n"));
        }
    }
    s
}

#[derive(Default)]
pub struct RealLoop {
    pub runs: u64,
    pub iterations: u64,
    pub distinct: u64,
    pub summary: J,
}

fn shortlex_le(a: &[u8], b: &[u8]) -> bool {
    a.len() < b.len() || (a.len() == b.len() && a <= b)
}

pub fn build_tests() -> Result<(Proj, Vec<PropertyTest>), String> {
    let mut proj = Proj::new();
    let tracing = crate::engine::silent();
    proj.check_named("fuzz", ModuleKind::Lib, FUZZ_LIB, tracing).map_err(|e| format!("fuzz library: {:?}", e))?;
    let typed = proj.check_named("props", ModuleKind::Lib, &test_module(), tracing).map_err(|e| format!("property module: {:?}", e))?;
    let mut tests = vec![];
    {
        let mut g = proj.generator(tracing);
        for def in typed.definitions() {
            if let Definition::Test(t) = def {
                match Test::from_function_definition(&mut g, t.clone(), "props".to_string(), std::path::PathBuf::from("props.ak"), aiken_lang::test_framework::RunnableKind::Test) {
                    Test::PropertyTest(p) => tests.push(p),
                    _ => return Err(format!("{} is not a property test", t.name)),
                }
            }
        }
        let _ = aiken_lang::verif_hooks::drain_pre_optimisation();
    }
    Ok((proj, tests))
}

/// does the property fail on `value`?
fn fails_on(pt: &PropertyTest, value: &uplc::PlutusData, pv: &PlutusVersion) -> bool {
    pt.eval(value, pv).failed(true, &pv.into())
}

fn is_kept(mode: &OnTestFailure, failure: bool) -> bool {
    match mode {
        OnTestFailure::FailImmediately | OnTestFailure::SucceedImmediately => failure,
        OnTestFailure::SucceedEventually => !failure,
    }
}

pub fn check_one(pt: &PropertyTest, seed: u32, n: usize, violations: &mut Vec<Violation>, outcomes: &mut HashSet<String>) -> (u64, u64) {
    let pv = PlutusVersion::default();
    let name = pt.name.clone();
    let mode = format!("{:?}", pt.on_test_failure);
    let case = json!({"engine":"c16b","test":name,"seed":seed,"max_success":n});
    // ---- oracle: replay the loop from public pieces
    let mut prng = Prng::from_seed(seed);
    let mut first_kept: Option<(usize, Vec<u8>, uplc::PlutusData)> = None;
    let mut iters = 0u64;
    // iteration at which the fuzzer itself aborts before any input had to be kept
    let mut crashed: Option<usize> = None;
    for i in 1..=n {
        let (next, value) = match prng.sample(&pt.fuzzer.program) {
            Ok(Some(x)) => x,
            Err(_) if name.contains("crashy") => {
                crashed = Some(i);
                break;
            }
            _ => {
                violations.push(Violation { signature: format!("fuzzer-fails|{name}"), what: format!("{name}: the compiled fuzzer does not produce a value from a seeded PRNG (seed {seed}, iteration {i})"), case: case.clone() });
                return (0, 0);
            }
        };
        iters += 1;
        let failure = fails_on(pt, &value, &pv);
        if is_kept(&pt.on_test_failure, failure) {
            first_kept = Some((i, next.choices(), value));
            break;
        }
        prng = next;
    }
    // ---- the implementation, twice
    let run_impl = || {
        let mut labels = BTreeMap::new();
        let mut remaining = n;
        let r = pt.run_n_times(&mut remaining, Prng::from_seed(seed), &mut labels, &pv);
        match r {
            Ok(Some(ce)) => Ok((n - remaining, Some((ce.choices.clone(), ce.value.clone())), labels)),
            Ok(None) => Ok((n - remaining, None, labels)),
            Err(e) => Err(format!("{}", e)),
        }
    };
    let a = guarded(run_impl);
    let b = guarded(run_impl);
    let (a, b) = match (a, b) {
        (Ok(a), Ok(b)) => (a, b),
        (Err(p), _) | (_, Err(p)) => {
            violations.push(Violation { signature: format!("panic|property-test-loop|{}", vcore::evid::panic_site_file(&p)), what: format!("{name} (seed {seed}): running the property test panicked: {p}"), case });
            return (1, iters);
        }
    };
    if format!("{:?}", a) != format!("{:?}", b) {
        violations.push(Violation { signature: format!("not-reproducible|{mode}"), what: format!("{name}: two runs with seed {seed} differ: {:?} vs {:?}", a, b), case: case.clone() });
    }
    if let Some(i) = crashed {
        // the fuzzer aborts at iteration i: the run must end with a fuzzer error, and such a
        // run is not a success under any expectation
        outcomes.insert(format!("{name}:crash:{i}"));
        if let Ok((iterations, ce, _)) = &a {
            violations.push(Violation { signature: format!("fuzzer-crash-ignored|{mode}"), what: format!("{name} (seed {seed}): the fuzzer aborts at iteration {i} but the run reports {iterations} iterations and {:?}", ce), case: case.clone() });
        }
        if let Ok(r) = guarded(|| pt.clone().run(seed, n, &pv)) {
            if TestResult::<(), uplc::PlutusData>::PropertyTestResult(r).is_success() {
                violations.push(Violation { signature: format!("verdict|crashed-fuzzer-counts-as-success|{mode}"), what: format!("{name} (seed {seed}, {mode}): the fuzzer aborts at iteration {i} before any input had to be kept, yet is_success() = true"), case });
            }
        }
        return (1, iters);
    }
    let Ok((iterations, ce, _labels)) = a else {
        violations.push(Violation { signature: format!("fuzzer-error|{name}"), what: format!("{name} (seed {seed}): {:?}", a.err()), case });
        return (1, iters);
    };
    outcomes.insert(format!("{name}:{}:{:?}", iterations, ce.as_ref().map(|c| c.0.clone())));
    match (&first_kept, &ce) {
        (None, None) => {
            if iterations != n {
                violations.push(Violation { signature: format!("iteration-count|{mode}"), what: format!("{name} (seed {seed}): no input had to be kept in {n} iterations, but the run reports {iterations} iterations"), case: case.clone() });
            }
        }
        (Some((i, c0, v0)), None) => violations.push(Violation {
            signature: format!("counterexample-missed|{mode}"),
            what: format!("{name} (seed {seed}): iteration {i} generates {:?} (choices {:?}) which must be kept under {mode}, but the run reports none", v0, c0),
            case: case.clone(),
        }),
        (None, Some((c, v))) => violations.push(Violation {
            signature: format!("spurious-counterexample|{mode}"),
            what: format!("{name} (seed {seed}): none of the {n} generated inputs has to be kept under {mode}, but the run reports {:?} (choices {:?})", v, c),
            case: case.clone(),
        }),
        (Some((i, c0, _)), Some((c, v))) => {
            if iterations != *i {
                violations.push(Violation { signature: format!("iteration-count|{mode}"), what: format!("{name} (seed {seed}): the first input to keep is generated at iteration {i}, the run reports {iterations}"), case: case.clone() });
            }
            // the counterexample is real
            let failure = fails_on(pt, v, &pv);
            if !is_kept(&pt.on_test_failure, failure) {
                violations.push(Violation {
                    signature: format!("reported-counterexample-is-not-one|{mode}"),
                    what: format!("{name} (seed {seed}, {mode}): the reported counterexample {:?} (choices {:?}) is not one: the property {} on it", v, c, if failure { "fails" } else { "passes" }),
                    case: case.clone(),
                });
            }
            // it is regenerated by its choices
            match Prng::from_choices(c).sample(&pt.fuzzer.program) {
                Ok(Some((_, v2))) if v2 == *v => {}
                other => violations.push(Violation {
                    signature: format!("choices-do-not-regenerate-the-counterexample|{mode}"),
                    what: format!("{name} (seed {seed}): replaying the reported choices {:?} gives {:?}, not the reported value {:?}", c, other.map(|o| o.map(|x| x.1)), v),
                    case: case.clone(),
                }),
            }
            if !shortlex_le(c, c0) {
                violations.push(Violation { signature: format!("shrunk-is-larger|{mode}"), what: format!("{name} (seed {seed}): reported choices {:?} are larger than those of the first kept input {:?}", c, c0), case: case.clone() });
            }
        }
    }
    // the verdict, through the public TestResult
    let res = guarded(|| pt.clone().run(seed, n, &pv));
    if let Ok(r) = res {
        let verdict = TestResult::<(), uplc::PlutusData>::PropertyTestResult(r).is_success();
        let want = match pt.on_test_failure {
            OnTestFailure::FailImmediately | OnTestFailure::SucceedEventually => first_kept.is_none(),
            OnTestFailure::SucceedImmediately => first_kept.is_some(),
        };
        if verdict != want {
            violations.push(Violation { signature: format!("verdict|{mode}"), what: format!("{name} (seed {seed}, {mode}): is_success() = {verdict} but the replayed loop says {want}"), case });
        }
    }
    (1, iters)
}

pub fn run_real_loop(run: &mut Run, tier: Tier) -> RealLoop {
    let (_proj, tests) = match build_tests() {
        Ok(x) => x,
        Err(e) => {
            run.machinery_error(format!("C16(b): {e}"));
            return RealLoop { summary: json!("not run"), ..Default::default() };
        }
    };
    let seeds: u32 = if tier == Tier::Quick { 64 } else { 1024 };
    let n = 30;
    let mut violations = vec![];
    let mut outcomes = HashSet::new();
    let (mut runs, mut iterations) = (0u64, 0u64);
    let start = std::time::Instant::now();
    let cap = if tier == Tier::Quick { 30 } else { 1200 };
    let mut capped = false;
    'outer: for seed in 0..seeds {
        for pt in &tests {
            if start.elapsed().as_secs() > cap {
                capped = true;
                break 'outer;
            }
            let (r, i) = check_one(pt, seed, n, &mut violations, &mut outcomes);
            runs += r;
            iterations += i;
        }
    }
    if capped {
        run.cap_hit(&format!("C16(b): wall cap after {runs} (test, seed) runs"));
    }
    // at most 20 per signature
    let mut per: BTreeMap<String, u64> = BTreeMap::new();
    for v in violations {
        let c = per.entry(v.signature.clone()).or_default();
        *c += 1;
        if *c <= 20 {
            run.violation(v);
        }
    }
    run.sample(json!({"engine":"c16b","test":"p_even_once","seed":0}));
    if runs > 0 && outcomes.len() < 10 {
        run.machinery_error("C16(b) vacuous: fewer than 10 distinct (test, outcome) pairs");
    }
    RealLoop { runs, iterations, distinct: outcomes.len() as u64, summary: json!({"property_tests": tests.len(), "seeds": seeds, "max_success": n, "runs": runs, "oracle_iterations": iterations, "distinct_outcomes": outcomes.len()}) }
}

pub fn replay(case: &J, path: &str) -> i32 {
    let (_proj, tests) = match build_tests() {
        Ok(x) => x,
        Err(e) => {
            println!("{e}");
            return 2;
        }
    };
    let name = case["test"].as_str().unwrap_or("");
    let seed = case["seed"].as_u64().unwrap_or(0) as u32;
    let n = case["max_success"].as_u64().unwrap_or(30) as usize;
    let Some(pt) = tests.iter().find(|t| t.name == name) else {
        println!("test {name} not found");
        return 2;
    };
    let mut vs = vec![];
    let mut o = HashSet::new();
    check_one(pt, seed, n, &mut vs, &mut o);
    for v in &vs {
        println!("VIOLATION property=C16 replay={path}\n  {}", v.what);
    }
    if vs.is_empty() {
        println!("no violation on replay");
        0
    } else {
        1
    }
}
