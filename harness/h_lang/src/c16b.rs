//! C16 (b) – the real property-test loop on compiled Aiken fuzzers (placeholder until built).
use serde_json::{json, Value as J};
use vcore::evid::{Run, Tier};

#[derive(Default)]
pub struct RealLoop {
    pub runs: u64,
    pub iterations: u64,
    pub distinct: u64,
    pub summary: J,
}

pub fn run_real_loop(_run: &mut Run, _tier: Tier) -> RealLoop {
    RealLoop { summary: json!("not built yet"), ..Default::default() }
}

pub fn replay(_case: &J, _path: &str) -> i32 {
    2
}
