//! C16 – property tests are reproducible and counterexamples are real.
//!
//! (a) The shrinker as a transition system (exhaustive).  `Counterexample{value,choices,
//!     cache}`, `Cache::new(run)` and `simplify` are public, so the harness supplies `run` as
//!     a pure function from choice sequences to `Status` (an abstract fuzzer + property,
//!     prefix-consuming like every real fuzzer) and calls the real `simplify` from every
//!     start state; invariants of the final state are re-checked by calling `run` afresh,
//!     without the cache.
//! (c) The cache as a transition system: every sequence of `get` queries up to a bound is
//!     replayed on a real `Cache` and every answer compared with the uncached `run`.
//! (b) (the real `PropertyTest::run` loop on compiled Aiken fuzzers) lives in c16b.rs.

use aiken_lang::test_framework::{Cache, Counterexample, Status};
use serde_json::json;
use std::cell::Cell;
use std::collections::{BTreeMap, HashSet};
use std::time::Duration;
use uplc::PlutusData;
use vcore::evid::{guarded, Run, Tier, Violation};
use vcore::par::par_indices;
use vcore::rterm::{to_impl_data, RData};

#[derive(Clone, Copy, Debug, PartialEq, Eq)]
pub enum Fz {
    /// consumes exactly k bytes
    Fixed(usize),
    /// first byte n mod 6, then n elements
    List,
    /// first byte even: one more byte; odd: two more bytes
    Branch,
    /// consumes nothing
    Constant,
    /// like Fixed(2), but a consumed byte equal to 3 makes the generation invalid
    InvalidOn3,
    /// nested: a list (length byte mod 3) of pairs (2 bytes each)
    ListOfPairs,
}

#[derive(Clone, Copy, Debug, PartialEq, Eq)]
pub enum Prop {
    SumGt(u32),
    Contains(u8),
    LenGe(usize),
    Unsorted,
    AlwaysFails,
    NeverFails,
}

pub const FUZZERS: [Fz; 8] = [Fz::Fixed(1), Fz::Fixed(3), Fz::Fixed(5), Fz::List, Fz::Branch, Fz::Constant, Fz::InvalidOn3, Fz::ListOfPairs];
pub const PROPS: [Prop; 6] = [Prop::SumGt(3), Prop::Contains(2), Prop::LenGe(2), Prop::Unsorted, Prop::AlwaysFails, Prop::NeverFails];

/// generated value (list of bytes) and number of choices consumed; None = invalid
pub fn generate(f: Fz, c: &[u8]) -> Option<(Vec<u8>, usize)> {
    match f {
        Fz::Fixed(k) => (c.len() >= k).then(|| (c[..k].to_vec(), k)),
        Fz::List => {
            let n = (*c.first()? % 6) as usize;
            (c.len() > n).then(|| (c[1..=n].to_vec(), n + 1))
        }
        Fz::Branch => {
            let b = *c.first()?;
            let n = if b % 2 == 0 { 1 } else { 2 };
            (c.len() > n).then(|| (c[1..=n].to_vec(), n + 1))
        }
        Fz::Constant => Some((vec![], 0)),
        Fz::InvalidOn3 => {
            if c.len() < 2 || c[..2].contains(&3) {
                None
            } else {
                Some((c[..2].to_vec(), 2))
            }
        }
        Fz::ListOfPairs => {
            let n = (*c.first()? % 3) as usize;
            (c.len() > 2 * n).then(|| (c[1..=2 * n].to_vec(), 2 * n + 1))
        }
    }
}

/// true when the property FAILS on the value (i.e. the value is a counterexample)
pub fn falsifies(p: Prop, v: &[u8]) -> bool {
    match p {
        Prop::SumGt(t) => v.iter().map(|x| *x as u32).sum::<u32>() > t,
        Prop::Contains(b) => v.contains(&b),
        Prop::LenGe(n) => v.len() >= n,
        Prop::Unsorted => v.windows(2).any(|w| w[0] > w[1]),
        Prop::AlwaysFails => true,
        Prop::NeverFails => false,
    }
}

fn value_data(v: &[u8]) -> PlutusData {
    to_impl_data(&RData::List(v.iter().map(|x| RData::I((*x as i64).into())).collect()))
}

pub fn run_abstract(f: Fz, p: Prop, c: &[u8]) -> Status<PlutusData> {
    match generate(f, c) {
        None => Status::Invalid,
        Some((v, _)) if falsifies(p, &v) => Status::Keep(value_data(&v)),
        Some(_) => Status::Ignore,
    }
}

pub fn shortlex_le(a: &[u8], b: &[u8]) -> bool {
    a.len() < b.len() || (a.len() == b.len() && a <= b)
}

const ALPHABET: [u8; 5] = [0, 1, 2, 3, 255];

fn sequences(len: usize) -> Vec<Vec<u8>> {
    let mut out: Vec<Vec<u8>> = vec![vec![]];
    for _ in 0..len {
        out = out.into_iter().flat_map(|s| ALPHABET.iter().map(move |a| [s.as_slice(), &[*a]].concat())).collect();
    }
    out
}

#[derive(Default)]
struct Local {
    starts: u64,
    run_calls: u64,
    finals: HashSet<Vec<u8>>,
    improved: u64,
    violations: Vec<Violation>,
    samples: Vec<String>,
}

const HORIZON: u64 = 2_000_000;

/// simplify from one start state and check the invariants
fn check_start(f: Fz, p: Prop, start: &[u8], l: &mut Local) {
    let calls = Cell::new(0u64);
    let case = json!({"engine":"c16a","fuzzer":format!("{:?}", f),"property":format!("{:?}", p),"start":start});
    let Status::Keep(v0) = run_abstract(f, p, start) else { return };
    l.starts += 1;
    let result = guarded(|| {
        let mut ce = Counterexample {
            value: v0.clone(),
            choices: start.to_vec(),
            cache: Cache::new(|c: &[u8]| {
                calls.set(calls.get() + 1);
                if calls.get() > HORIZON {
                    panic!("HORIZON");
                }
                run_abstract(f, p, c)
            }),
        };
        ce.simplify();
        (ce.choices.clone(), ce.value.clone())
    });
    l.run_calls += calls.get();
    let name = format!("{:?}/{:?}", f, p);
    let (choices, value) = match result {
        Ok(x) => x,
        Err(pn) => {
            let kind = if pn.contains("HORIZON") { "does-not-terminate" } else { "panic" };
            l.violations.push(Violation { signature: format!("shrinker-{kind}|{name}"), what: format!("simplify from choices {:?} ({name}): {pn}", start), case });
            return;
        }
    };
    // I1: the final choices are a counterexample and the final value is what they generate
    match run_abstract(f, p, &choices) {
        Status::Keep(v) if v == value => {}
        Status::Keep(v) => l.violations.push(Violation {
            signature: format!("shrunk-value-is-not-what-the-choices-generate|{name}"),
            what: format!("simplify from {:?} ({name}) ends with choices {:?} and value {:?}, but those choices generate {:?}", start, choices, value, v),
            case: case.clone(),
        }),
        other => l.violations.push(Violation {
            signature: format!("shrunk-counterexample-is-not-a-counterexample|{name}"),
            what: format!("simplify from {:?} ({name}) ends with choices {:?} on which the property does not fail (uncached run: {:?})", start, choices, other),
            case: case.clone(),
        }),
    }
    // I2: never larger than the start, in shortlex order
    if !shortlex_le(&choices, start) {
        l.violations.push(Violation {
            signature: format!("shrunk-is-larger|{name}"),
            what: format!("simplify from {:?} ({name}) ends with the larger choices {:?}", start, choices),
            case: case.clone(),
        });
    }
    if choices != start {
        l.improved += 1;
    }
    // I3: a fixpoint: simplifying again with a fresh cache changes nothing
    let again = guarded(|| {
        let mut ce = Counterexample { value: value.clone(), choices: choices.clone(), cache: Cache::new(|c: &[u8]| run_abstract(f, p, c)) };
        ce.simplify();
        ce.choices.clone()
    });
    match again {
        Ok(c2) if c2 == choices => {}
        Ok(c2) => l.violations.push(Violation {
            signature: format!("not-a-fixpoint|{name}"),
            what: format!("simplify from {:?} ({name}) stops at {:?}, but simplifying that again (fresh cache) reaches {:?}: the first run stopped early because of what its cache answered", start, choices, c2),
            case: case.clone(),
        }),
        Err(pn) => l.violations.push(Violation { signature: format!("shrinker-panic|{name}"), what: format!("second simplify from {:?}: {pn}", choices), case: case.clone() }),
    }
    l.finals.insert(choices.clone());
    if l.samples.len() < 2 && start.len() >= 3 && choices != start {
        l.samples.push(format!("{name}: {:?} -> {:?}", start, choices));
    }
}

/// (c) every sequence of <= depth cache queries over strings of length <= 3 over {0,1,3}
fn cache_histories(run: &mut Run, tier: Tier) -> (u64, u64) {
    let depth = if tier == Tier::Quick { 3 } else { 4 };
    let mut keys: Vec<Vec<u8>> = vec![vec![]];
    for len in 1..=3usize {
        let mut cur: Vec<Vec<u8>> = vec![vec![]];
        for _ in 0..len {
            cur = cur.into_iter().flat_map(|s| [0u8, 1, 3].iter().map(move |a| [s.as_slice(), &[*a]].concat())).collect();
        }
        keys.extend(cur);
    }
    let nk = keys.len() as u64; // 40
    let mut histories = 0u64;
    let mut queries = 0u64;
    for f in [Fz::List, Fz::Branch, Fz::InvalidOn3, Fz::Fixed(1)] {
        for p in [Prop::SumGt(0), Prop::AlwaysFails, Prop::Contains(1)] {
            let total = nk.pow(depth);
            for h in 0..total {
                let mut cache = Cache::new(|c: &[u8]| run_abstract(f, p, c));
                let mut x = h;
                let mut hist = vec![];
                for _ in 0..depth {
                    let k = &keys[(x % nk) as usize];
                    x /= nk;
                    hist.push(k.clone());
                    let got = cache.get(k);
                    let want = run_abstract(f, p, k);
                    queries += 1;
                    if got != want {
                        run.violation(Violation {
                            signature: format!("cache-answer-differs-from-run|{:?}/{:?}", f, p),
                            what: format!("after the queries {:?} the cache answers {:?} for {:?} but the (deterministic) run gives {:?}", &hist[..hist.len() - 1], got, k, want),
                            case: json!({"engine":"c16c","fuzzer":format!("{:?}", f),"property":format!("{:?}", p),"history":hist}),
                        });
                        break;
                    }
                }
                histories += 1;
            }
        }
    }
    (histories, queries)
}

pub fn run(tier: Tier, replay: Option<String>) -> i32 {
    if let Some(p) = replay {
        return replay_case(&p);
    }
    let mut run = Run::new("C16", tier);
    let max_len = if tier == Tier::Quick { 6 } else { 8 };
    // work items: (fuzzer, property, start) for every sequence fully consumed by the fuzzer
    let mut items: Vec<(Fz, Prop, Vec<u8>)> = vec![];
    let seqs: Vec<Vec<Vec<u8>>> = (0..=max_len).map(sequences).collect();
    for f in FUZZERS {
        for p in PROPS {
            for by_len in &seqs {
                for s in by_len {
                    if let Some((v, used)) = generate(f, s) {
                        if used == s.len() && falsifies(p, &v) {
                            items.push((f, p, s.clone()));
                        }
                    }
                }
            }
        }
    }
    let cap = Some(Duration::from_secs(if tier == Tier::Quick { 40 } else { 1500 }));
    let out = par_indices(items.len() as u64, 16, cap, |_| Local::default(), |l, i| {
        let (f, p, s) = &items[i as usize];
        check_start(*f, *p, s, l);
    }, |l| l);
    let mut starts = 0;
    let mut calls = 0;
    let mut improved = 0;
    let mut finals: HashSet<Vec<u8>> = HashSet::new();
    for l in out.results {
        starts += l.starts;
        calls += l.run_calls;
        improved += l.improved;
        finals.extend(l.finals);
        run.violations_extend(l.violations);
        for s in l.samples {
            run.sample(s);
        }
    }
    if out.capped {
        run.cap_hit(&format!("wall cap: {} of {} start states", out.done, items.len()));
    }
    let (hist, queries) = cache_histories(&mut run, tier);
    let b = crate::c16b::run_real_loop(&mut run, tier);
    let mut per: BTreeMap<String, u64> = BTreeMap::new();
    for (f, p, _) in &items {
        *per.entry(format!("{:?}/{:?}", f, p)).or_default() += 1;
    }
    run.set("start_states", starts);
    run.set("start_states_per_fuzzer_property", json!(per));
    run.set("max_start_length", max_len as u64);
    run.set("run_calls_by_the_real_shrinker", calls);
    run.set("starts_that_were_shrunk", improved);
    run.set("distinct_local_minima", finals.len() as u64);
    run.set("cache_histories", hist);
    run.set("cache_queries_compared", queries);
    run.set("real_loop", b.summary);
    run.set("states", starts + hist + b.runs);
    run.set("transitions", calls + queries + b.iterations);
    run.set("traces_validated_against_impl", starts + queries + b.runs);
    run.set("evaluations", starts + hist + b.runs);
    run.set("distinct_nontrivial", finals.len() as u64 + b.distinct);
    run.set("rule", "(a) every start state = choice sequence of length <= max over {0,1,2,3,255} that an abstract prefix-consuming fuzzer consumes entirely and on which the property fails, for 8 fuzzer shapes x 6 properties; the real simplify runs from each; invariants re-checked with uncached runs. (c) every sequence of cache queries up to the depth bound over 40 keys vs the uncached run. (b) compiled Aiken fuzzers x properties x every seed through the real PropertyTest::run vs an independent replay of the loop. distinct_nontrivial = distinct local minima + distinct (test, seed) outcomes");
    run.assume("abstract fuzzers are prefix-consuming and deterministic, like every fuzzer built from the PRNG primitives (the cache relies on exactly that)");
    if starts < 1000 || improved == 0 || finals.len() < 5 {
        run.machinery_error("vacuous: too few start states / nothing was shrunk / fewer than 5 distinct minima");
    }
    run.finish()
}

fn parse_fz(s: &str) -> Option<Fz> {
    FUZZERS.iter().copied().find(|f| format!("{:?}", f) == s).or_else(|| [Fz::List, Fz::Branch, Fz::InvalidOn3, Fz::Fixed(1)].into_iter().find(|f| format!("{:?}", f) == s))
}
fn parse_prop(s: &str) -> Option<Prop> {
    [Prop::SumGt(3), Prop::SumGt(0), Prop::Contains(2), Prop::Contains(1), Prop::LenGe(2), Prop::Unsorted, Prop::AlwaysFails, Prop::NeverFails].into_iter().find(|p| format!("{:?}", p) == s)
}

fn replay_case(path: &str) -> i32 {
    let doc: serde_json::Value = serde_json::from_str(&std::fs::read_to_string(path).expect("read")).expect("json");
    let case = &doc["case"];
    match case["engine"].as_str() {
        Some("c16a") => {
            let (Some(f), Some(p)) = (parse_fz(case["fuzzer"].as_str().unwrap_or("")), parse_prop(case["property"].as_str().unwrap_or(""))) else {
                println!("unknown fuzzer/property in replay file");
                return 2;
            };
            let start: Vec<u8> = case["start"].as_array().unwrap().iter().map(|x| x.as_u64().unwrap() as u8).collect();
            let mut l = Local::default();
            check_start(f, p, &start, &mut l);
            if l.violations.is_empty() {
                println!("no violation on replay");
                return 0;
            }
            for v in &l.violations {
                println!("VIOLATION property=C16 replay={path}\n  {}", v.what);
            }
            1
        }
        Some("c16c") => {
            let (Some(f), Some(p)) = (parse_fz(case["fuzzer"].as_str().unwrap_or("")), parse_prop(case["property"].as_str().unwrap_or(""))) else {
                return 2;
            };
            let mut cache = Cache::new(|c: &[u8]| run_abstract(f, p, c));
            for k in case["history"].as_array().unwrap() {
                let k: Vec<u8> = k.as_array().unwrap().iter().map(|x| x.as_u64().unwrap() as u8).collect();
                let got = cache.get(&k);
                let want = run_abstract(f, p, &k);
                if got != want {
                    println!("VIOLATION property=C16 replay={path}\n  cache answers {:?} for {:?}, run gives {:?}", got, k, want);
                    return 1;
                }
            }
            println!("no violation on replay");
            0
        }
        Some("c16b") => crate::c16b::replay(case, path),
        _ => 2,
    }
}
