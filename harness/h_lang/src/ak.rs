//! E-AIKEN: a harness AST for a fragment of Aiken, a printer that emits fully bracketed
//! source, and the reference big-step interpreter `ak_ref` (strict, first-match `when`,
//! floor division / modulo, short-circuit connectives, structural equality, Data casts).

use num_bigint::BigInt;
use num_integer::Integer;
use num_traits::Zero;
use std::collections::HashMap;
use std::rc::Rc;
use vcore::rterm::RData;

// ---------------------------------------------------------------------------------------
// types

#[derive(Clone, Debug, PartialEq, Eq, Hash)]
pub enum Ty {
    Int,
    Bool,
    Bytes,
    Void,
    Data,
    List(Rc<Ty>),
    Tuple(Vec<Ty>),
    Pair(Rc<Ty>, Rc<Ty>),
    Opt(Rc<Ty>),
    Adt(&'static str),
    Fn(Vec<Ty>, Rc<Ty>),
}

pub struct CtorDef {
    pub name: &'static str,
    /// (label, type) – label None for positional constructors
    pub fields: Vec<(Option<&'static str>, Ty)>,
}

pub struct AdtDef {
    pub name: &'static str,
    pub ctors: Vec<CtorDef>,
    /// the source declaration
    pub decl: &'static str,
    /// how the type is written in annotations
    pub annot: &'static str,
}

pub fn adts() -> Vec<AdtDef> {
    vec![
        AdtDef {
            name: "Color",
            annot: "Color",
            decl: "pub type Color {\n  Red\n  Green\n  Blue\n}\n",
            ctors: vec![
                CtorDef { name: "Red", fields: vec![] },
                CtorDef { name: "Green", fields: vec![] },
                CtorDef { name: "Blue", fields: vec![] },
            ],
        },
        AdtDef {
            name: "Shape",
            annot: "Shape",
            decl: "pub type Shape {\n  Dot\n  Circle(Int)\n  Rect { w: Int, h: Int }\n}\n",
            ctors: vec![
                CtorDef { name: "Dot", fields: vec![] },
                CtorDef { name: "Circle", fields: vec![(None, Ty::Int)] },
                CtorDef { name: "Rect", fields: vec![(Some("w"), Ty::Int), (Some("h"), Ty::Int)] },
            ],
        },
        AdtDef {
            name: "Rec",
            annot: "Rec",
            decl: "pub type Rec {\n  a: Int,\n  b: Bool,\n  c: ByteArray,\n}\n",
            ctors: vec![CtorDef { name: "Rec", fields: vec![(Some("a"), Ty::Int), (Some("b"), Ty::Bool), (Some("c"), Ty::Bytes)] }],
        },
        AdtDef {
            name: "BoxInt",
            annot: "Box<Int>",
            decl: "pub type Box<a> {\n  Box(a)\n}\n",
            ctors: vec![CtorDef { name: "Box", fields: vec![(None, Ty::Int)] }],
        },
        AdtDef {
            name: "Tree",
            annot: "Tree",
            decl: "pub type Tree {\n  Leaf\n  Node(Tree, Int, Tree)\n}\n",
            ctors: vec![
                CtorDef { name: "Leaf", fields: vec![] },
                CtorDef { name: "Node", fields: vec![(None, Ty::Adt("Tree")), (None, Ty::Int), (None, Ty::Adt("Tree"))] },
            ],
        },
    ]
}

thread_local! {
    static ADTS: Vec<AdtDef> = adts();
}

pub fn with_adt<R>(name: &str, f: impl FnOnce(&AdtDef) -> R) -> R {
    ADTS.with(|a| f(a.iter().find(|d| d.name == name).unwrap_or_else(|| panic!("adt {name}"))))
}

pub fn ctor_fields(ty: &Ty, ctor: usize) -> Vec<(Option<&'static str>, Ty)> {
    match ty {
        Ty::Opt(t) => {
            if ctor == 0 {
                vec![(None, (**t).clone())]
            } else {
                vec![]
            }
        }
        Ty::Bool => vec![],
        Ty::Adt(n) => with_adt(n, |d| d.ctors[ctor].fields.clone()),
        _ => panic!("ctor_fields of {:?}", ty),
    }
}

pub fn ctor_name(ty: &Ty, ctor: usize) -> String {
    match ty {
        Ty::Opt(_) => ["Some", "None"][ctor].to_string(),
        Ty::Bool => ["False", "True"][ctor].to_string(),
        Ty::Adt(n) => with_adt(n, |d| d.ctors[ctor].name.to_string()),
        _ => panic!("ctor_name"),
    }
}

pub fn ctor_count(ty: &Ty) -> usize {
    match ty {
        Ty::Opt(_) | Ty::Bool => 2,
        Ty::Adt(n) => with_adt(n, |d| d.ctors.len()),
        _ => panic!("ctor_count"),
    }
}

pub fn show_ty(t: &Ty) -> String {
    match t {
        Ty::Int => "Int".into(),
        Ty::Bool => "Bool".into(),
        Ty::Bytes => "ByteArray".into(),
        Ty::Void => "Void".into(),
        Ty::Data => "Data".into(),
        Ty::List(e) => format!("List<{}>", show_ty(e)),
        Ty::Tuple(ts) => format!("({})", ts.iter().map(show_ty).collect::<Vec<_>>().join(", ")),
        Ty::Pair(a, b) => format!("Pair<{}, {}>", show_ty(a), show_ty(b)),
        Ty::Opt(e) => format!("Option<{}>", show_ty(e)),
        Ty::Adt(n) => with_adt(n, |d| d.annot.to_string()),
        Ty::Fn(args, ret) => format!("fn({}) -> {}", args.iter().map(show_ty).collect::<Vec<_>>().join(", "), show_ty(ret)),
    }
}

// ---------------------------------------------------------------------------------------
// values

#[derive(Clone, Debug, PartialEq)]
pub enum Val {
    Int(BigInt),
    Bool(bool),
    Bytes(Vec<u8>),
    Void,
    List(Vec<Val>),
    Tuple(Vec<Val>),
    Pair(Box<Val>, Box<Val>),
    /// constructor index in declaration order + fields (Option: Some = 0, None = 1)
    Ctor(usize, Vec<Val>),
    Data(RData),
    Closure(Rc<Closure>),
}

#[derive(Debug)]
pub struct Closure {
    pub params: Vec<String>,
    pub body: Rc<Expr>,
    pub env: Env,
    /// for recursive top-level functions: looked up in the global table at call time
    pub global: Option<String>,
}

impl PartialEq for Closure {
    fn eq(&self, _: &Closure) -> bool {
        false
    }
}

pub type Env = Option<Rc<EnvNode>>;
#[derive(Debug)]
pub struct EnvNode {
    name: String,
    val: Val,
    next: Env,
}

pub fn env_push(env: &Env, name: &str, val: Val) -> Env {
    Some(Rc::new(EnvNode { name: name.to_string(), val, next: env.clone() }))
}
fn env_get(env: &Env, name: &str) -> Option<Val> {
    let mut cur = env;
    while let Some(n) = cur {
        if n.name == name {
            return Some(n.val.clone());
        }
        cur = &n.next;
    }
    None
}

/// Aiken's documented Data encoding of values.
pub fn to_data(v: &Val, ty: &Ty) -> RData {
    match (v, ty) {
        (Val::Data(d), _) => d.clone(),
        (Val::Int(i), _) => RData::I(i.clone()),
        (Val::Bytes(b), _) => RData::B(b.clone()),
        (Val::Bool(b), _) => RData::Constr(if *b { 1 } else { 0 }, vec![]),
        (Val::Void, _) => RData::Constr(0, vec![]),
        (Val::List(xs), Ty::List(e)) => {
            if let Ty::Pair(a, b) = e.as_ref() {
                RData::Map(
                    xs.iter()
                        .map(|x| match x {
                            Val::Pair(k, v) => (to_data(k, a), to_data(v, b)),
                            _ => panic!("list of pairs"),
                        })
                        .collect(),
                )
            } else {
                RData::List(xs.iter().map(|x| to_data(x, e)).collect())
            }
        }
        (Val::Tuple(xs), Ty::Tuple(ts)) => RData::List(xs.iter().zip(ts).map(|(x, t)| to_data(x, t)).collect()),
        (Val::Pair(a, b), Ty::Pair(ta, tb)) => RData::List(vec![to_data(a, ta), to_data(b, tb)]),
        (Val::Ctor(i, fs), t) => {
            let fts = ctor_fields(t, *i);
            RData::Constr(*i as u64, fs.iter().zip(fts.iter()).map(|(f, (_, ft))| to_data(f, ft)).collect())
        }
        (v, t) => panic!("to_data {:?} : {:?}", v, t),
    }
}

/// The checked conversion `expect x: T = data` performs.
pub fn from_data(d: &RData, ty: &Ty) -> Option<Val> {
    match ty {
        Ty::Data => Some(Val::Data(d.clone())),
        Ty::Int => match d {
            RData::I(i) => Some(Val::Int(i.clone())),
            _ => None,
        },
        Ty::Bytes => match d {
            RData::B(b) => Some(Val::Bytes(b.clone())),
            _ => None,
        },
        Ty::Bool => match d {
            RData::Constr(0, fs) if fs.is_empty() => Some(Val::Bool(false)),
            RData::Constr(1, fs) if fs.is_empty() => Some(Val::Bool(true)),
            _ => None,
        },
        Ty::Void => match d {
            RData::Constr(0, fs) if fs.is_empty() => Some(Val::Void),
            _ => None,
        },
        Ty::List(e) => {
            if let Ty::Pair(a, b) = e.as_ref() {
                match d {
                    RData::Map(kvs) => kvs
                        .iter()
                        .map(|(k, v)| Some(Val::Pair(Box::new(from_data(k, a)?), Box::new(from_data(v, b)?))))
                        .collect::<Option<Vec<_>>>()
                        .map(Val::List),
                    _ => None,
                }
            } else {
                match d {
                    RData::List(xs) => xs.iter().map(|x| from_data(x, e)).collect::<Option<Vec<_>>>().map(Val::List),
                    _ => None,
                }
            }
        }
        Ty::Tuple(ts) => match d {
            RData::List(xs) if xs.len() == ts.len() => xs.iter().zip(ts).map(|(x, t)| from_data(x, t)).collect::<Option<Vec<_>>>().map(Val::Tuple),
            _ => None,
        },
        Ty::Pair(a, b) => match d {
            RData::List(xs) if xs.len() == 2 => Some(Val::Pair(Box::new(from_data(&xs[0], a)?), Box::new(from_data(&xs[1], b)?))),
            _ => None,
        },
        Ty::Opt(_) | Ty::Adt(_) => match d {
            RData::Constr(tag, fs) => {
                let n = ctor_count(ty);
                if (*tag as usize) >= n {
                    return None;
                }
                let fts = ctor_fields(ty, *tag as usize);
                if fts.len() != fs.len() {
                    return None;
                }
                let vals = fs.iter().zip(fts.iter()).map(|(f, (_, ft))| from_data(f, ft)).collect::<Option<Vec<_>>>()?;
                Some(Val::Ctor(*tag as usize, vals))
            }
            _ => None,
        },
        Ty::Fn(..) => None,
    }
}

// ---------------------------------------------------------------------------------------
// expressions

#[derive(Clone, Copy, Debug, PartialEq, Eq, Hash)]
pub enum Op {
    Add,
    Sub,
    Mul,
    Div,
    Mod,
    Lt,
    Le,
    Gt,
    Ge,
    Eq,
    Ne,
    And,
    Or,
}

impl Op {
    pub fn sym(&self) -> &'static str {
        match self {
            Op::Add => "+",
            Op::Sub => "-",
            Op::Mul => "*",
            Op::Div => "/",
            Op::Mod => "%",
            Op::Lt => "<",
            Op::Le => "<=",
            Op::Gt => ">",
            Op::Ge => ">=",
            Op::Eq => "==",
            Op::Ne => "!=",
            Op::And => "&&",
            Op::Or => "||",
        }
    }
}

#[derive(Clone, Debug, PartialEq)]
pub enum Pat {
    Var(String),
    Discard,
    Int(i64),
    Bytes(Vec<u8>),
    /// type, constructor index, sub-patterns (one per field unless `spread`), spread `..`
    Ctor(Ty, usize, Vec<Pat>, bool),
    Tuple(Vec<Pat>),
    Pair(Box<Pat>, Box<Pat>),
    /// elements, tail: None = exact length, Some(None) = `..`, Some(Some(x)) = `..x`
    List(Vec<Pat>, Option<Option<String>>),
    As(Box<Pat>, String),
}

#[derive(Clone, Debug, PartialEq)]
pub enum Expr {
    Int(BigInt),
    Bool(bool),
    Bytes(Vec<u8>),
    Void,
    Var(String),
    Bin(Op, Rc<Expr>, Rc<Expr>),
    Not(Rc<Expr>),
    Neg(Rc<Expr>),
    If(Rc<Expr>, Rc<Expr>, Rc<Expr>),
    When(Rc<Expr>, Vec<(Pat, Expr)>),
    Let(Pat, Rc<Expr>, Rc<Expr>),
    Expect(Pat, Rc<Expr>, Rc<Expr>),
    /// `expect x: T = e` where e : Data
    ExpectTy(String, Ty, Rc<Expr>, Rc<Expr>),
    /// `{ let d: Data = e  d }` where e : T
    ToData(Rc<Expr>, Ty),
    /// type, constructor index, arguments, use labels
    Ctor(Ty, usize, Vec<Expr>, bool),
    Field(Rc<Expr>, Ty, usize, usize),
    /// `Ctor { ..base, label: e }`
    Update(Ty, usize, Rc<Expr>, Vec<(usize, Expr)>),
    TupleIdx(Rc<Expr>, usize),
    Tuple(Vec<Expr>),
    MkPair(Rc<Expr>, Rc<Expr>),
    List(Vec<Expr>, Option<Rc<Expr>>),
    Lam(Vec<(String, Ty)>, Rc<Expr>),
    Call(Rc<Expr>, Vec<Expr>),
    /// `a |> f(rest)` == f(a, rest)
    Pipe(Rc<Expr>, Rc<Expr>, Vec<Expr>),
    /// `f(_, rest)` == fn(x) { f(x, rest) }
    Capture(Rc<Expr>, Vec<Expr>),
    Fail,
    Todo,
    Trace(String, Rc<Expr>),
    /// `trace @"msg": operand` followed by the continuation; the operand (an Int expression)
    /// is part of the message and is evaluated only in builds that keep the trace
    TraceArg(Rc<Expr>, Rc<Expr>),
    TraceIfFalse(Rc<Expr>),
    AndBlock(Vec<Expr>),
    OrBlock(Vec<Expr>),
}

pub struct FnDef {
    pub name: String,
    pub params: Vec<(String, Ty)>,
    pub ret: Ty,
    pub body: Rc<Expr>,
    /// generic helpers are printed from `src` verbatim and interpreted from `body`
    pub src: Option<String>,
}

// ---------------------------------------------------------------------------------------
// printer: fully bracketed, one expression per line where blocks are needed

fn ord(i: usize) -> &'static str {
    ["1st", "2nd", "3rd", "4th"][i]
}

pub fn show_pat(p: &Pat) -> String {
    match p {
        Pat::Var(x) => x.clone(),
        Pat::Discard => "_".into(),
        Pat::Int(i) => format!("{i}"),
        Pat::Bytes(b) => format!("#\"{}\"", hex::encode(b)),
        Pat::Ctor(ty, c, ps, spread) => {
            let name = ctor_name(ty, *c);
            let fields = ctor_fields(ty, *c);
            if ps.is_empty() && !*spread {
                return name;
            }
            let labelled = fields.first().map(|f| f.0.is_some()).unwrap_or(false);
            let mut parts: Vec<String> = ps
                .iter()
                .enumerate()
                .map(|(i, p)| if labelled { format!("{}: {}", fields[i].0.unwrap(), show_pat(p)) } else { show_pat(p) })
                .collect();
            if *spread {
                parts.push("..".into());
            }
            if labelled {
                format!("{} {{ {} }}", name, parts.join(", "))
            } else {
                format!("{}({})", name, parts.join(", "))
            }
        }
        Pat::Tuple(ps) => format!("({})", ps.iter().map(show_pat).collect::<Vec<_>>().join(", ")),
        Pat::Pair(a, b) => format!("Pair({}, {})", show_pat(a), show_pat(b)),
        Pat::List(ps, tail) => {
            let mut parts: Vec<String> = ps.iter().map(show_pat).collect();
            match tail {
                None => {}
                Some(None) => parts.push("..".into()),
                Some(Some(x)) => parts.push(format!("..{x}")),
            }
            format!("[{}]", parts.join(", "))
        }
        Pat::As(p, x) => format!("{} as {}", show_pat(p), x),
    }
}

/// An expression in a position where any expression is allowed (block body, argument).
pub fn show(e: &Expr) -> String {
    match e {
        Expr::Int(i) => {
            if *i < BigInt::zero() {
                format!("({})", i)
            } else {
                format!("{i}")
            }
        }
        Expr::Bool(b) => if *b { "True".into() } else { "False".into() },
        Expr::Bytes(b) => format!("#\"{}\"", hex::encode(b)),
        Expr::Void => "Void".into(),
        Expr::Var(x) => x.clone(),
        Expr::Bin(op, a, b) => format!("({} {} {})", show(a), op.sym(), show(b)),
        Expr::Not(a) => format!("(!{})", show(a)),
        Expr::Neg(a) => format!("(-{})", show(a)),
        Expr::If(c, t, f) => format!("(if {} {{\n{}\n}} else {{\n{}\n}})", show(c), show(t), show(f)),
        Expr::When(s, clauses) => {
            let body: String = clauses.iter().map(|(p, e)| format!("{} -> {{\n{}\n}}\n", show_pat(p), show(e))).collect();
            format!("(when {} is {{\n{}}})", show(s), body)
        }
        Expr::Let(p, v, b) => format!("{{\nlet {} = {}\n{}\n}}", show_pat(p), show(v), show(b)),
        Expr::Expect(p, v, b) => format!("{{\nexpect {} = {}\n{}\n}}", show_pat(p), show(v), show(b)),
        Expr::ExpectTy(x, t, v, b) => format!("{{\nexpect {}: {} = {}\n{}\n}}", x, show_ty(t), show(v), show(b)),
        Expr::ToData(v, _) => format!("{{\nlet upcast__: Data = {}\nupcast__\n}}", show(v)),
        Expr::Ctor(ty, c, args, labelled) => {
            let name = ctor_name(ty, *c);
            if args.is_empty() {
                return name;
            }
            let fields = ctor_fields(ty, *c);
            if *labelled && fields[0].0.is_some() {
                format!("{} {{ {} }}", name, args.iter().enumerate().map(|(i, a)| format!("{}: {}", fields[i].0.unwrap(), show(a))).collect::<Vec<_>>().join(", "))
            } else {
                format!("{}({})", name, args.iter().map(show).collect::<Vec<_>>().join(", "))
            }
        }
        Expr::Field(v, ty, c, i) => format!("{}.{}", show_atom(v), ctor_fields(ty, *c)[*i].0.unwrap()),
        Expr::Update(ty, c, base, ups) => {
            let fields = ctor_fields(ty, *c);
            format!(
                "{} {{ ..{}, {} }}",
                ctor_name(ty, *c),
                show_atom(base),
                ups.iter().map(|(i, e)| format!("{}: {}", fields[*i].0.unwrap(), show(e))).collect::<Vec<_>>().join(", ")
            )
        }
        Expr::TupleIdx(v, i) => format!("{}.{}", show_atom(v), ord(*i)),
        Expr::Tuple(xs) => format!("({})", xs.iter().map(show).collect::<Vec<_>>().join(", ")),
        Expr::MkPair(a, b) => format!("Pair({}, {})", show(a), show(b)),
        Expr::List(xs, tail) => {
            let mut parts: Vec<String> = xs.iter().map(show).collect();
            if let Some(t) = tail {
                parts.push(format!("..{}", show_atom(t)));
            }
            format!("[{}]", parts.join(", "))
        }
        Expr::Lam(ps, b) => format!("fn({}) {{\n{}\n}}", ps.iter().map(|(n, t)| format!("{}: {}", n, show_ty(t))).collect::<Vec<_>>().join(", "), show(b)),
        Expr::Call(f, args) => format!("{}({})", show_atom(f), args.iter().map(show).collect::<Vec<_>>().join(", ")),
        Expr::Pipe(a, f, rest) => format!("({} |> {}({}))", show(a), show_atom(f), rest.iter().map(show).collect::<Vec<_>>().join(", ")),
        Expr::Capture(f, rest) => {
            let mut parts = vec!["_".to_string()];
            parts.extend(rest.iter().map(show));
            format!("{}({})", show_atom(f), parts.join(", "))
        }
        // always as a block: a bare `fail` swallows what follows as its message
        Expr::Fail => "{\nfail\n}".into(),
        Expr::Todo => "{\ntodo\n}".into(),
        Expr::Trace(m, b) => format!("{{\ntrace @\"{}\"\n{}\n}}", m, show(b)),
        Expr::TraceArg(a, b) => format!("{{\ntrace @\"msg\": {}\n{}\n}}", show(a), show(b)),
        Expr::TraceIfFalse(a) => format!("{}?", show_atom(a)),
        Expr::AndBlock(xs) => format!("and {{\n{}\n}}", xs.iter().map(|x| format!("{},", show(x))).collect::<Vec<_>>().join("\n")),
        Expr::OrBlock(xs) => format!("or {{\n{}\n}}", xs.iter().map(|x| format!("{},", show(x))).collect::<Vec<_>>().join("\n")),
    }
}

/// An expression in a position that needs an atom (before `.field`, `?`, call position).
fn show_atom(e: &Expr) -> String {
    match e {
        Expr::Var(_) | Expr::Bool(_) | Expr::Void | Expr::Bytes(_) | Expr::Tuple(_) | Expr::List(..) | Expr::Bin(..) | Expr::Not(_) | Expr::Neg(_) | Expr::If(..) | Expr::When(..) | Expr::Pipe(..) => show(e),
        Expr::Int(i) if *i >= BigInt::zero() => show(e),
        Expr::Call(..) | Expr::Field(..) | Expr::TupleIdx(..) => show(e),
        Expr::Ctor(_, _, args, _) if args.is_empty() => show(e),
        _ => format!("({})", show(e)),
    }
}

pub fn show_fn(f: &FnDef) -> String {
    if let Some(src) = &f.src {
        return src.clone();
    }
    format!(
        "pub fn {}({}) -> {} {{\n{}\n}}\n",
        f.name,
        f.params.iter().map(|(n, t)| format!("{}: {}", n, show_ty(t))).collect::<Vec<_>>().join(", "),
        show_ty(&f.ret),
        show(&f.body)
    )
}

// ---------------------------------------------------------------------------------------
// the reference interpreter

#[derive(Debug, Clone, PartialEq)]
pub enum Stop {
    /// the source semantics aborts (fail, todo, failed expect / cast, partial builtin)
    Abort(&'static str),
    /// the reference declines to define this case (oracle undefined)
    Undefined(&'static str),
    /// step horizon exceeded
    Horizon,
}

pub struct Interp<'a> {
    pub globals: &'a HashMap<String, Rc<FnDef>>,
    pub fuel: u64,
    /// `trace` operands are only strings literals in this fragment; `?` never aborts
    pub traces: Vec<String>,
}

pub fn match_pat(p: &Pat, v: &Val, binds: &mut Vec<(String, Val)>) -> bool {
    match (p, v) {
        (Pat::Var(x), v) => {
            binds.push((x.clone(), v.clone()));
            true
        }
        (Pat::Discard, _) => true,
        (Pat::Int(i), Val::Int(j)) => BigInt::from(*i) == *j,
        (Pat::Bytes(a), Val::Bytes(b)) => a == b,
        (Pat::Ctor(Ty::Bool, c, _, _), Val::Bool(b)) => (*c == 1) == *b,
        (Pat::Ctor(_, c, ps, spread), Val::Ctor(d, fs)) => {
            if c != d {
                return false;
            }
            if !*spread && ps.len() != fs.len() {
                panic!("arity of constructor pattern");
            }
            ps.iter().zip(fs).all(|(p, f)| match_pat(p, f, binds))
        }
        (Pat::Tuple(ps), Val::Tuple(vs)) => ps.len() == vs.len() && ps.iter().zip(vs).all(|(p, f)| match_pat(p, f, binds)),
        (Pat::Pair(a, b), Val::Pair(x, y)) => match_pat(a, x, binds) && match_pat(b, y, binds),
        (Pat::List(ps, tail), Val::List(vs)) => {
            match tail {
                None => {
                    if ps.len() != vs.len() {
                        return false;
                    }
                }
                Some(_) => {
                    if vs.len() < ps.len() {
                        return false;
                    }
                }
            }
            if !ps.iter().zip(vs).all(|(p, f)| match_pat(p, f, binds)) {
                return false;
            }
            if let Some(Some(x)) = tail {
                binds.push((x.clone(), Val::List(vs[ps.len()..].to_vec())));
            }
            true
        }
        (Pat::As(p, x), v) => {
            binds.push((x.clone(), v.clone()));
            match_pat(p, v, binds)
        }
        (p, v) => panic!("ill-typed match {:?} / {:?}", p, v),
    }
}

pub fn pat_vars(p: &Pat, out: &mut Vec<String>) {
    match p {
        Pat::Var(x) => out.push(x.clone()),
        Pat::As(p, x) => {
            out.push(x.clone());
            pat_vars(p, out)
        }
        Pat::Ctor(_, _, ps, _) | Pat::Tuple(ps) => ps.iter().for_each(|p| pat_vars(p, out)),
        Pat::Pair(a, b) => {
            pat_vars(a, out);
            pat_vars(b, out)
        }
        Pat::List(ps, tail) => {
            ps.iter().for_each(|p| pat_vars(p, out));
            if let Some(Some(x)) = tail {
                out.push(x.clone())
            }
        }
        _ => {}
    }
}

pub fn occurs(x: &str, e: &Expr) -> bool {
    let o = |e: &Expr| occurs(x, e);
    match e {
        Expr::Var(y) => x == y,
        Expr::Int(_) | Expr::Bool(_) | Expr::Bytes(_) | Expr::Void | Expr::Fail | Expr::Todo => false,
        Expr::Bin(_, a, b) | Expr::MkPair(a, b) => o(a) || o(b),
        Expr::Not(a) | Expr::Neg(a) | Expr::TraceIfFalse(a) | Expr::ToData(a, _) | Expr::Field(a, ..) | Expr::TupleIdx(a, _) | Expr::Trace(_, a) => o(a),
        Expr::TraceArg(a, b) => o(a) || o(b),
        Expr::If(c, t, f) => o(c) || o(t) || o(f),
        Expr::When(s, cs) => {
            o(s) || cs.iter().any(|(p, b)| {
                let mut vs = vec![];
                pat_vars(p, &mut vs);
                !vs.iter().any(|v| v == x) && o(b)
            })
        }
        Expr::Let(p, v, b) | Expr::Expect(p, v, b) => {
            let mut vs = vec![];
            pat_vars(p, &mut vs);
            o(v) || (!vs.iter().any(|v| v == x) && o(b))
        }
        Expr::ExpectTy(y, _, v, b) => o(v) || (y != x && o(b)),
        Expr::Ctor(_, _, args, _) | Expr::Tuple(args) | Expr::AndBlock(args) | Expr::OrBlock(args) => args.iter().any(o),
        Expr::Update(_, _, b, ups) => o(b) || ups.iter().any(|(_, e)| o(e)),
        Expr::List(xs, t) => xs.iter().any(o) || t.as_ref().map(|t| o(t)).unwrap_or(false),
        Expr::Lam(ps, b) => !ps.iter().any(|(n, _)| n == x) && o(b),
        Expr::Call(f, args) | Expr::Capture(f, args) => o(f) || args.iter().any(o),
        Expr::Pipe(a, f, rest) => o(a) || o(f) || rest.iter().any(o),
    }
}

fn val_eq(a: &Val, b: &Val) -> Result<bool, Stop> {
    match (a, b) {
        (Val::Closure(_), _) | (_, Val::Closure(_)) => Err(Stop::Undefined("equality on functions")),
        (Val::List(x), Val::List(y)) | (Val::Tuple(x), Val::Tuple(y)) => {
            if x.len() != y.len() {
                return Ok(false);
            }
            for (p, q) in x.iter().zip(y) {
                if !val_eq(p, q)? {
                    return Ok(false);
                }
            }
            Ok(true)
        }
        (Val::Ctor(i, x), Val::Ctor(j, y)) => {
            if i != j || x.len() != y.len() {
                return Ok(false);
            }
            for (p, q) in x.iter().zip(y) {
                if !val_eq(p, q)? {
                    return Ok(false);
                }
            }
            Ok(true)
        }
        (Val::Pair(a1, b1), Val::Pair(a2, b2)) => Ok(val_eq(a1, a2)? && val_eq(b1, b2)?),
        (a, b) => Ok(a == b),
    }
}

impl<'a> Interp<'a> {
    pub fn new(globals: &'a HashMap<String, Rc<FnDef>>, fuel: u64) -> Self {
        Interp { globals, fuel, traces: vec![] }
    }

    fn int(&mut self, e: &Expr, env: &Env) -> Result<BigInt, Stop> {
        match self.eval(e, env)? {
            Val::Int(i) => Ok(i),
            v => panic!("expected Int, got {:?}", v),
        }
    }
    fn boolean(&mut self, e: &Expr, env: &Env) -> Result<bool, Stop> {
        match self.eval(e, env)? {
            Val::Bool(i) => Ok(i),
            v => panic!("expected Bool, got {:?}", v),
        }
    }

    pub fn call(&mut self, f: Val, args: Vec<Val>) -> Result<Val, Stop> {
        match f {
            Val::Closure(c) => {
                if c.params.len() != args.len() {
                    panic!("arity: {:?} called with {}", c.params, args.len());
                }
                let mut env = c.env.clone();
                for (p, a) in c.params.iter().zip(args) {
                    env = env_push(&env, p, a);
                }
                self.eval(&c.body, &env)
            }
            v => panic!("call of non-function {:?}", v),
        }
    }

    pub fn call_global(&mut self, name: &str, args: Vec<Val>) -> Result<Val, Stop> {
        let f = self.globals.get(name).unwrap_or_else(|| panic!("global {name}")).clone();
        let mut env = None;
        for ((p, _), a) in f.params.iter().zip(args) {
            env = env_push(&env, p, a);
        }
        self.eval(&f.body, &env)
    }

    pub fn eval(&mut self, e: &Expr, env: &Env) -> Result<Val, Stop> {
        if self.fuel == 0 {
            return Err(Stop::Horizon);
        }
        self.fuel -= 1;
        Ok(match e {
            Expr::Int(i) => Val::Int(i.clone()),
            Expr::Bool(b) => Val::Bool(*b),
            Expr::Bytes(b) => Val::Bytes(b.clone()),
            Expr::Void => Val::Void,
            Expr::Var(x) => match env_get(env, x) {
                Some(v) => v,
                None => match self.globals.get(x) {
                    Some(f) => Val::Closure(Rc::new(Closure { params: f.params.iter().map(|p| p.0.clone()).collect(), body: f.body.clone(), env: None, global: Some(x.clone()) })),
                    None => panic!("unbound {x}"),
                },
            },
            Expr::Bin(op, a, b) => match op {
                Op::And => Val::Bool(self.boolean(a, env)? && self.boolean(b, env)?),
                Op::Or => Val::Bool(self.boolean(a, env)? || self.boolean(b, env)?),
                Op::Eq | Op::Ne => {
                    let x = self.eval(a, env)?;
                    let y = self.eval(b, env)?;
                    let eq = val_eq(&x, &y)?;
                    Val::Bool(if *op == Op::Eq { eq } else { !eq })
                }
                _ => {
                    let x = self.int(a, env)?;
                    let y = self.int(b, env)?;
                    match op {
                        Op::Add => Val::Int(x + y),
                        Op::Sub => Val::Int(x - y),
                        Op::Mul => Val::Int(x * y),
                        Op::Div => {
                            if y.is_zero() {
                                return Err(Stop::Abort("division by zero"));
                            }
                            Val::Int(x.div_floor(&y))
                        }
                        Op::Mod => {
                            if y.is_zero() {
                                return Err(Stop::Abort("modulo by zero"));
                            }
                            Val::Int(x.mod_floor(&y))
                        }
                        Op::Lt => Val::Bool(x < y),
                        Op::Le => Val::Bool(x <= y),
                        Op::Gt => Val::Bool(x > y),
                        Op::Ge => Val::Bool(x >= y),
                        _ => unreachable!(),
                    }
                }
            },
            Expr::Not(a) => Val::Bool(!self.boolean(a, env)?),
            Expr::Neg(a) => Val::Int(-self.int(a, env)?),
            Expr::If(c, t, f) => {
                if self.boolean(c, env)? {
                    self.eval(t, env)?
                } else {
                    self.eval(f, env)?
                }
            }
            Expr::When(s, clauses) => {
                let v = self.eval(s, env)?;
                for (p, body) in clauses {
                    let mut binds = vec![];
                    if match_pat(p, &v, &mut binds) {
                        let mut env2 = env.clone();
                        for (n, b) in binds {
                            env2 = env_push(&env2, &n, b);
                        }
                        return self.eval(body, &env2);
                    }
                }
                panic!("non-exhaustive when accepted by the harness")
            }
            Expr::Let(p, v, b) => {
                // documented: a let none of whose variables occurs in its continuation is
                // removed from the generated code, initialiser included
                let mut vars = vec![];
                pat_vars(p, &mut vars);
                if !vars.iter().any(|x| occurs(x, b)) {
                    // removing it is only observable if the initialiser could abort: the
                    // reference does not evaluate it
                    return self.eval(b, env);
                }
                let val = self.eval(v, env)?;
                let mut binds = vec![];
                if !match_pat(p, &val, &mut binds) {
                    panic!("refutable let accepted by the harness");
                }
                let mut env2 = env.clone();
                for (n, x) in binds {
                    env2 = env_push(&env2, &n, x);
                }
                self.eval(b, &env2)?
            }
            Expr::Expect(p, v, b) => {
                let val = self.eval(v, env)?;
                let mut binds = vec![];
                if !match_pat(p, &val, &mut binds) {
                    return Err(Stop::Abort("expect: pattern does not match"));
                }
                let mut env2 = env.clone();
                for (n, x) in binds {
                    env2 = env_push(&env2, &n, x);
                }
                self.eval(b, &env2)?
            }
            Expr::ExpectTy(x, t, v, b) => {
                let val = self.eval(v, env)?;
                let d = match val {
                    Val::Data(d) => d,
                    other => panic!("expect-cast of non-Data {:?}", other),
                };
                match from_data(&d, t) {
                    Some(v) => self.eval(b, &env_push(env, x, v))?,
                    None => return Err(Stop::Abort("expect: data does not have the expected shape")),
                }
            }
            Expr::ToData(v, t) => Val::Data(to_data(&self.eval(v, env)?, t)),
            Expr::Ctor(ty, c, args, _) => {
                let mut vs = vec![];
                for a in args {
                    vs.push(self.eval(a, env)?);
                }
                if *ty == Ty::Bool {
                    Val::Bool(*c == 1)
                } else {
                    Val::Ctor(*c, vs)
                }
            }
            Expr::Field(v, _, c, i) => match self.eval(v, env)? {
                Val::Ctor(d, fs) => {
                    if d != *c {
                        panic!("field access on the wrong constructor");
                    }
                    fs[*i].clone()
                }
                o => panic!("field of {:?}", o),
            },
            Expr::Update(_, c, base, ups) => match self.eval(base, env)? {
                Val::Ctor(d, mut fs) => {
                    if d != *c {
                        panic!("record update on the wrong constructor");
                    }
                    for (i, e) in ups {
                        fs[*i] = self.eval(e, env)?;
                    }
                    Val::Ctor(d, fs)
                }
                o => panic!("update of {:?}", o),
            },
            Expr::TupleIdx(v, i) => match self.eval(v, env)? {
                Val::Tuple(xs) => xs[*i].clone(),
                Val::Pair(a, b) => {
                    if *i == 0 {
                        *a
                    } else {
                        *b
                    }
                }
                o => panic!("index of {:?}", o),
            },
            Expr::Tuple(xs) => {
                let mut vs = vec![];
                for a in xs {
                    vs.push(self.eval(a, env)?);
                }
                Val::Tuple(vs)
            }
            Expr::MkPair(a, b) => Val::Pair(Box::new(self.eval(a, env)?), Box::new(self.eval(b, env)?)),
            Expr::List(xs, tail) => {
                let mut vs = vec![];
                for a in xs {
                    vs.push(self.eval(a, env)?);
                }
                if let Some(t) = tail {
                    match self.eval(t, env)? {
                        Val::List(rest) => vs.extend(rest),
                        o => panic!("list tail {:?}", o),
                    }
                }
                Val::List(vs)
            }
            Expr::Lam(ps, b) => Val::Closure(Rc::new(Closure { params: ps.iter().map(|p| p.0.clone()).collect(), body: b.clone(), env: env.clone(), global: None })),
            Expr::Call(f, args) => {
                let fv = self.eval(f, env)?;
                let mut vs = vec![];
                for a in args {
                    vs.push(self.eval(a, env)?);
                }
                self.call(fv, vs)?
            }
            Expr::Pipe(a, f, rest) => {
                let first = self.eval(a, env)?;
                let fv = self.eval(f, env)?;
                let mut vs = vec![first];
                for a in rest {
                    vs.push(self.eval(a, env)?);
                }
                self.call(fv, vs)?
            }
            Expr::Capture(f, rest) => {
                // f(_, e..) is sugar for fn(x) { f(x, e..) }: the other arguments are
                // evaluated when the resulting function is called
                let mut args = vec![Expr::Var("capture__".into())];
                args.extend(rest.iter().cloned());
                Val::Closure(Rc::new(Closure { params: vec!["capture__".into()], body: Rc::new(Expr::Call(f.clone(), args)), env: env.clone(), global: None }))
            }
            Expr::Fail => return Err(Stop::Abort("fail")),
            Expr::Todo => return Err(Stop::Abort("todo")),
            Expr::Trace(m, b) => {
                self.traces.push(m.clone());
                self.eval(b, env)?
            }
            // reference semantics of the *silent* build (the one C01 compiles): the trace and
            // its operand are erased.  What the other builds do with the operand is C14's
            // question (see D12).
            Expr::TraceArg(_, b) => self.eval(b, env)?,
            Expr::TraceIfFalse(a) => Val::Bool(self.boolean(a, env)?),
            Expr::AndBlock(xs) => {
                for x in xs {
                    if !self.boolean(x, env)? {
                        return Ok(Val::Bool(false));
                    }
                }
                Val::Bool(true)
            }
            Expr::OrBlock(xs) => {
                for x in xs {
                    if self.boolean(x, env)? {
                        return Ok(Val::Bool(true));
                    }
                }
                Val::Bool(false)
            }
        })
    }
}
