//! Type-directed, exact enumeration of Aiken expressions by size (AST node count).
//! `exprs(ty, n, ctx)` is the complete list of expressions of type `ty` with exactly `n`
//! nodes over the variables of `ctx` and the enabled productions; lists are memoised.

use crate::ak::*;
use num_bigint::BigInt;
use std::collections::HashMap;
use std::rc::Rc;

#[derive(Clone, Debug, Default)]
pub struct Prods {
    pub arith: bool,
    pub compare: bool,
    pub connectives: bool,
    pub if_: bool,
    pub let_: bool,
    pub when: bool,
    pub ctors: bool,
    pub fields: bool,
    pub lists: bool,
    pub helpers: bool,
    pub expect: bool,
    pub casts: bool,
    pub lambdas: bool,
    pub aborts: bool,
    pub traces: bool,
    pub trace_args: bool,
    pub eq_types: Vec<Ty>,
}

pub type Ctx = Vec<(String, Ty)>;

pub fn t_list_int() -> Ty {
    Ty::List(Rc::new(Ty::Int))
}
pub fn t_opt_int() -> Ty {
    Ty::Opt(Rc::new(Ty::Int))
}
pub fn t_tuple_ib() -> Ty {
    Ty::Tuple(vec![Ty::Int, Ty::Bool])
}
pub fn t_pair_ii() -> Ty {
    Ty::Pair(Rc::new(Ty::Int), Rc::new(Ty::Int))
}

pub struct Gen {
    pub p: Prods,
    memo: HashMap<(Ty, usize, String), Rc<Vec<Rc<Expr>>>>,
    fresh: usize,
}

fn ctx_key(ctx: &Ctx) -> String {
    ctx.iter().map(|(n, t)| format!("{}:{};", n, show_ty(t))).collect()
}

fn e(x: Expr) -> Rc<Expr> {
    Rc::new(x)
}

/// splits of `total` into `k` positive parts
fn splits(total: usize, k: usize) -> Vec<Vec<usize>> {
    if k == 0 {
        return if total == 0 { vec![vec![]] } else { vec![] };
    }
    if k == 1 {
        return if total >= 1 { vec![vec![total]] } else { vec![] };
    }
    let mut out = vec![];
    for first in 1..=total.saturating_sub(k - 1) {
        for mut rest in splits(total - first, k - 1) {
            let mut v = vec![first];
            v.append(&mut rest);
            out.push(v);
        }
    }
    out
}

impl Gen {
    pub fn new(p: Prods) -> Self {
        Gen { p, memo: HashMap::new(), fresh: 0 }
    }

    fn ext(ctx: &Ctx, name: &str, ty: &Ty) -> Ctx {
        let mut c: Ctx = ctx.iter().filter(|(n, _)| n != name).cloned().collect();
        c.push((name.to_string(), ty.clone()));
        c
    }

    /// all k-tuples of expressions of the given types whose sizes sum to `total`
    fn tuples(&mut self, tys: &[Ty], total: usize, ctx: &Ctx) -> Vec<Vec<Rc<Expr>>> {
        let mut out = vec![];
        for sp in splits(total, tys.len()) {
            let lists: Vec<Rc<Vec<Rc<Expr>>>> = tys.iter().zip(&sp).map(|(t, n)| self.exprs(t, *n, ctx)).collect();
            if lists.iter().any(|l| l.is_empty()) {
                continue;
            }
            let mut idx = vec![0usize; lists.len()];
            'outer: loop {
                out.push(idx.iter().enumerate().map(|(i, j)| lists[i][*j].clone()).collect());
                for i in (0..idx.len()).rev() {
                    idx[i] += 1;
                    if idx[i] < lists[i].len() {
                        continue 'outer;
                    }
                    idx[i] = 0;
                }
                break;
            }
        }
        out
    }

    pub fn count_upto(&mut self, ty: &Ty, max: usize, ctx: &Ctx) -> usize {
        (1..=max).map(|n| self.exprs(ty, n, ctx).len()).sum()
    }

    pub fn all_upto(&mut self, ty: &Ty, max: usize, ctx: &Ctx) -> Vec<Rc<Expr>> {
        let mut v = vec![];
        for n in 1..=max {
            v.extend(self.exprs(ty, n, ctx).iter().cloned());
        }
        v
    }

    pub fn exprs(&mut self, ty: &Ty, n: usize, ctx: &Ctx) -> Rc<Vec<Rc<Expr>>> {
        if n == 0 {
            return Rc::new(vec![]);
        }
        let key = (ty.clone(), n, ctx_key(ctx));
        if let Some(v) = self.memo.get(&key) {
            return v.clone();
        }
        let mut out: Vec<Rc<Expr>> = vec![];
        let p = self.p.clone();
        if n == 1 {
            // atoms
            for (name, t) in ctx {
                if t == ty {
                    out.push(e(Expr::Var(name.clone())));
                }
            }
            match ty {
                Ty::Int => {
                    out.push(e(Expr::Int(0.into())));
                    out.push(e(Expr::Int(2.into())));
                }
                Ty::Bool => {
                    out.push(e(Expr::Bool(true)));
                    out.push(e(Expr::Bool(false)));
                }
                Ty::Bytes => {
                    out.push(e(Expr::Bytes(vec![])));
                    out.push(e(Expr::Bytes(vec![0xff, 0x00])));
                }
                Ty::Void => out.push(e(Expr::Void)),
                Ty::List(_) if p.lists => out.push(e(Expr::List(vec![], None))),
                Ty::Opt(_) if p.ctors => out.push(e(Expr::Ctor(ty.clone(), 1, vec![], false))),
                Ty::Adt(_) if p.ctors => {
                    for c in 0..ctor_count(ty) {
                        if ctor_fields(ty, c).is_empty() {
                            out.push(e(Expr::Ctor(ty.clone(), c, vec![], false)));
                        }
                    }
                }
                _ => {}
            }
            if p.aborts && !matches!(ty, Ty::Fn(..)) {
                out.push(e(Expr::Fail));
            }
            let r = Rc::new(out);
            self.memo.insert(key, r.clone());
            return r;
        }

        // ---- productions available at every (non-function) type
        if !matches!(ty, Ty::Fn(..)) {
            if p.if_ && n >= 4 {
                for t in self.tuples(&[Ty::Bool, ty.clone(), ty.clone()], n - 1, ctx) {
                    out.push(e(Expr::If(t[0].clone(), t[1].clone(), t[2].clone())));
                }
            }
            if p.let_ && n >= 3 {
                for vt in [Ty::Int, Ty::Bool] {
                    let name = format!("v{}", ctx.len());
                    let ctx2 = Self::ext(ctx, &name, &vt);
                    for sp in splits(n - 1, 2) {
                        let vals = self.exprs(&vt, sp[0], ctx);
                        let bodies = self.exprs(ty, sp[1], &ctx2);
                        for v in vals.iter() {
                            for b in bodies.iter() {
                                if occurs(&name, b) {
                                    out.push(e(Expr::Let(Pat::Var(name.clone()), v.clone(), b.clone())));
                                }
                            }
                        }
                    }
                }
            }
            if p.when && n >= 3 {
                self.when_prods(ty, n, ctx, &mut out);
            }
            if p.expect && n >= 3 {
                self.expect_prods(ty, n, ctx, &mut out);
            }
            if p.casts && n >= 3 {
                // expect x: S = d  (d : Data)
                for st in [Ty::Int, Ty::Bool, t_opt_int(), Ty::Adt("Shape"), t_list_int(), t_tuple_ib()] {
                    let name = format!("c{}", ctx.len());
                    let ctx2 = Self::ext(ctx, &name, &st);
                    for sp in splits(n - 1, 2) {
                        let vals = self.exprs(&Ty::Data, sp[0], ctx);
                        let bodies = self.exprs(ty, sp[1], &ctx2);
                        for v in vals.iter() {
                            for b in bodies.iter() {
                                if occurs(&name, b) {
                                    out.push(e(Expr::ExpectTy(name.clone(), st.clone(), v.clone(), b.clone())));
                                }
                            }
                        }
                    }
                }
            }
            if p.traces && n >= 2 {
                for b in self.exprs(ty, n - 1, ctx).iter() {
                    out.push(e(Expr::Trace("msg".into(), b.clone())));
                }
            }
            if p.trace_args && n >= 3 {
                for sp in splits(n - 1, 2) {
                    let ops = self.exprs(&Ty::Int, sp[0], ctx);
                    let bodies = self.exprs(ty, sp[1], ctx);
                    for a in ops.iter() {
                        for b in bodies.iter() {
                            out.push(e(Expr::TraceArg(a.clone(), b.clone())));
                        }
                    }
                }
            }
            if p.lambdas && n >= 3 {
                // (fn(x: S) { body })(arg)
                for st in [Ty::Int, Ty::Bool] {
                    let name = format!("l{}", ctx.len());
                    let ctx2 = Self::ext(ctx, &name, &st);
                    for sp in splits(n - 2, 2) {
                        let args = self.exprs(&st, sp[0], ctx);
                        let bodies = self.exprs(ty, sp[1], &ctx2);
                        for a in args.iter() {
                            for b in bodies.iter() {
                                out.push(e(Expr::Call(e(Expr::Lam(vec![(name.clone(), st.clone())], b.clone())), vec![(**a).clone()])));
                            }
                        }
                    }
                }
                // apply_twice(f, x) / identity(x) at type ty (generic helpers used at several types)
                if p.helpers && matches!(ty, Ty::Int | Ty::Bool) {
                    for x in self.exprs(ty, n - 1, ctx).iter() {
                        out.push(e(Expr::Call(e(Expr::Var("identity".into())), vec![(**x).clone()])));
                    }
                    if n >= 4 {
                        let name = format!("l{}", ctx.len());
                        let ctx2 = Self::ext(ctx, &name, ty);
                        for sp in splits(n - 2, 2) {
                            let bodies = self.exprs(ty, sp[0], &ctx2);
                            let args = self.exprs(ty, sp[1], ctx);
                            for b in bodies.iter() {
                                for a in args.iter() {
                                    out.push(e(Expr::Call(e(Expr::Var("apply_twice".into())), vec![Expr::Lam(vec![(name.clone(), ty.clone())], b.clone()), (**a).clone()])));
                                }
                            }
                        }
                    }
                }
            }
            if p.helpers && n >= 3 && matches!(ty, Ty::Int | Ty::Bool) {
                // const_(x, y): returns x; y is evaluated (strict) and discarded
                for yt in [Ty::Int, Ty::Bool] {
                    for t in self.tuples(&[ty.clone(), yt.clone()], n - 1, ctx) {
                        out.push(e(Expr::Call(e(Expr::Var("const_".into())), vec![(*t[0]).clone(), (*t[1]).clone()])));
                    }
                }
            }
            if p.fields && n >= 2 {
                // record field / tuple index of a variable of a suitable type
                for (name, t) in ctx.clone() {
                    if n == 2 {
                        match &t {
                            Ty::Adt("Rec") => {
                                for (i, (_, ft)) in ctor_fields(&t, 0).iter().enumerate() {
                                    if ft == ty {
                                        out.push(e(Expr::Field(e(Expr::Var(name.clone())), t.clone(), 0, i)));
                                    }
                                }
                            }
                            Ty::Tuple(ts) => {
                                for (i, ft) in ts.iter().enumerate() {
                                    if ft == ty {
                                        out.push(e(Expr::TupleIdx(e(Expr::Var(name.clone())), i)));
                                    }
                                }
                            }
                            Ty::Pair(a, b) => {
                                if a.as_ref() == ty {
                                    out.push(e(Expr::TupleIdx(e(Expr::Var(name.clone())), 0)));
                                }
                                if b.as_ref() == ty {
                                    out.push(e(Expr::TupleIdx(e(Expr::Var(name.clone())), 1)));
                                }
                            }
                            _ => {}
                        }
                    }
                }
            }
        }

        // ---- type-specific productions
        match ty {
            Ty::Int => {
                if p.arith && n >= 3 {
                    for t in self.tuples(&[Ty::Int, Ty::Int], n - 1, ctx) {
                        for op in [Op::Add, Op::Sub, Op::Mul, Op::Div, Op::Mod] {
                            out.push(e(Expr::Bin(op, t[0].clone(), t[1].clone())));
                        }
                    }
                }
                if p.arith && n >= 2 {
                    for a in self.exprs(&Ty::Int, n - 1, ctx).iter() {
                        if !matches!(a.as_ref(), Expr::Int(_)) {
                            out.push(e(Expr::Neg(a.clone())));
                        }
                    }
                }
                if p.helpers && p.lists && n >= 2 {
                    for xs in self.exprs(&t_list_int(), n - 1, ctx).iter() {
                        out.push(e(Expr::Call(e(Expr::Var("length".into())), vec![(**xs).clone()])));
                        out.push(e(Expr::Call(e(Expr::Var("sum".into())), vec![(**xs).clone()])));
                        out.push(e(Expr::Pipe(xs.clone(), e(Expr::Var("sum".into())), vec![])));
                    }
                    if p.lambdas && n >= 5 {
                        // foldr(xs, zero, fn(x, acc) { body })
                        let ctx2 = Self::ext(&Self::ext(ctx, "fx", &Ty::Int), "facc", &Ty::Int);
                        for sp in splits(n - 2, 3) {
                            let xs = self.exprs(&t_list_int(), sp[0], ctx);
                            let zs = self.exprs(&Ty::Int, sp[1], ctx);
                            let bs = self.exprs(&Ty::Int, sp[2], &ctx2);
                            for x in xs.iter() {
                                for z in zs.iter() {
                                    for b in bs.iter() {
                                        out.push(e(Expr::Call(
                                            e(Expr::Var("foldr".into())),
                                            vec![(**x).clone(), (**z).clone(), Expr::Lam(vec![("fx".into(), Ty::Int), ("facc".into(), Ty::Int)], b.clone())],
                                        )));
                                    }
                                }
                            }
                        }
                    }
                }
                if p.helpers && p.ctors && n >= 2 {
                    for t in self.exprs(&Ty::Adt("Tree"), n - 1, ctx).iter() {
                        out.push(e(Expr::Call(e(Expr::Var("tree_sum".into())), vec![(**t).clone()])));
                    }
                }
            }
            Ty::Bool => {
                if p.compare && n >= 3 {
                    for t in self.tuples(&[Ty::Int, Ty::Int], n - 1, ctx) {
                        for op in [Op::Lt, Op::Le, Op::Gt, Op::Ge, Op::Eq, Op::Ne] {
                            out.push(e(Expr::Bin(op, t[0].clone(), t[1].clone())));
                        }
                    }
                    for et in p.eq_types.clone() {
                        for t in self.tuples(&[et.clone(), et.clone()], n - 1, ctx) {
                            out.push(e(Expr::Bin(Op::Eq, t[0].clone(), t[1].clone())));
                            out.push(e(Expr::Bin(Op::Ne, t[0].clone(), t[1].clone())));
                        }
                    }
                }
                if p.connectives && n >= 3 {
                    for t in self.tuples(&[Ty::Bool, Ty::Bool], n - 1, ctx) {
                        out.push(e(Expr::Bin(Op::And, t[0].clone(), t[1].clone())));
                        out.push(e(Expr::Bin(Op::Or, t[0].clone(), t[1].clone())));
                        out.push(e(Expr::AndBlock(vec![(*t[0]).clone(), (*t[1]).clone()])));
                        out.push(e(Expr::OrBlock(vec![(*t[0]).clone(), (*t[1]).clone()])));
                    }
                }
                if p.connectives && n >= 2 {
                    for a in self.exprs(&Ty::Bool, n - 1, ctx).iter() {
                        out.push(e(Expr::Not(a.clone())));
                        if p.traces {
                            out.push(e(Expr::TraceIfFalse(a.clone())));
                        }
                    }
                }
                if p.helpers && n >= 2 {
                    for a in self.exprs(&Ty::Int, n - 1, ctx).iter() {
                        out.push(e(Expr::Call(e(Expr::Var("is_even".into())), vec![(**a).clone()])));
                    }
                }
            }
            Ty::List(et) if p.lists && **et == Ty::Int => {
                if n >= 2 {
                    // [e], [e, ..tail], [e1, e2]
                    for x in self.exprs(&Ty::Int, n - 1, ctx).iter() {
                        out.push(e(Expr::List(vec![(**x).clone()], None)));
                    }
                    if n >= 3 {
                        for t in self.tuples(&[Ty::Int, t_list_int()], n - 1, ctx) {
                            out.push(e(Expr::List(vec![(*t[0]).clone()], Some(t[1].clone()))));
                        }
                        for t in self.tuples(&[Ty::Int, Ty::Int], n - 1, ctx) {
                            out.push(e(Expr::List(vec![(*t[0]).clone(), (*t[1]).clone()], None)));
                        }
                    }
                }
                if p.helpers && p.lambdas && n >= 4 {
                    let ctx2 = Self::ext(ctx, "mx", &Ty::Int);
                    for sp in splits(n - 2, 2) {
                        let xs = self.exprs(&t_list_int(), sp[0], ctx);
                        let bs = self.exprs(&Ty::Int, sp[1], &ctx2);
                        let ps = self.exprs(&Ty::Bool, sp[1], &ctx2);
                        for x in xs.iter() {
                            for b in bs.iter() {
                                out.push(e(Expr::Call(e(Expr::Var("map".into())), vec![(**x).clone(), Expr::Lam(vec![("mx".into(), Ty::Int)], b.clone())])));
                                out.push(e(Expr::Pipe(x.clone(), e(Expr::Var("map".into())), vec![Expr::Lam(vec![("mx".into(), Ty::Int)], b.clone())])));
                            }
                            for b in ps.iter() {
                                out.push(e(Expr::Call(e(Expr::Var("filter".into())), vec![(**x).clone(), Expr::Lam(vec![("mx".into(), Ty::Int)], b.clone())])));
                            }
                        }
                    }
                    // map(xs, add(_, e))  – capture
                    for t in self.tuples(&[t_list_int(), Ty::Int], n - 2, ctx) {
                        out.push(e(Expr::Call(e(Expr::Var("map".into())), vec![(*t[0]).clone(), Expr::Capture(e(Expr::Var("add".into())), vec![(*t[1]).clone()])])));
                    }
                }
            }
            Ty::Opt(it) if p.ctors && **it == Ty::Int => {
                if n >= 2 {
                    for x in self.exprs(&Ty::Int, n - 1, ctx).iter() {
                        out.push(e(Expr::Ctor(ty.clone(), 0, vec![(**x).clone()], false)));
                    }
                }
            }
            Ty::Adt(name) if p.ctors => {
                for c in 0..ctor_count(ty) {
                    let fs = ctor_fields(ty, c);
                    if fs.is_empty() || n < fs.len() + 1 {
                        continue;
                    }
                    let ftys: Vec<Ty> = fs.iter().map(|f| f.1.clone()).collect();
                    for t in self.tuples(&ftys, n - 1, ctx) {
                        let args: Vec<Expr> = t.iter().map(|x| (**x).clone()).collect();
                        out.push(e(Expr::Ctor(ty.clone(), c, args.clone(), false)));
                        if fs[0].0.is_some() {
                            out.push(e(Expr::Ctor(ty.clone(), c, args, true)));
                        }
                    }
                }
                // record update on a variable of the single-constructor record
                if *name == "Rec" && p.fields && n >= 3 {
                    for (v, t) in ctx.clone() {
                        if &t == ty {
                            for (i, (_, ft)) in ctor_fields(ty, 0).iter().enumerate() {
                                for x in self.exprs(ft, n - 2, ctx).iter() {
                                    out.push(e(Expr::Update(ty.clone(), 0, e(Expr::Var(v.clone())), vec![(i, (**x).clone())])));
                                }
                            }
                        }
                    }
                }
            }
            Ty::Tuple(ts) if p.ctors => {
                if n >= ts.len() + 1 {
                    for t in self.tuples(ts, n - 1, ctx) {
                        out.push(e(Expr::Tuple(t.iter().map(|x| (**x).clone()).collect())));
                    }
                }
            }
            Ty::Pair(a, b) if p.ctors => {
                if n >= 3 {
                    for t in self.tuples(&[(**a).clone(), (**b).clone()], n - 1, ctx) {
                        out.push(e(Expr::MkPair(t[0].clone(), t[1].clone())));
                    }
                }
            }
            Ty::Data if p.casts => {
                if n >= 2 {
                    for st in [Ty::Int, Ty::Bool, Ty::Bytes, t_opt_int(), Ty::Adt("Shape"), Ty::Adt("Color"), t_list_int(), t_tuple_ib(), Ty::Adt("Rec"), Ty::Adt("Tree"), Ty::Void] {
                        for x in self.exprs(&st, n - 1, ctx).iter() {
                            out.push(e(Expr::ToData(x.clone(), st.clone())));
                        }
                    }
                }
            }
            _ => {}
        }
        self.fresh += 1;
        let r = Rc::new(out);
        self.memo.insert(key, r.clone());
        r
    }

    fn when_prods(&mut self, ty: &Ty, n: usize, ctx: &Ctx, out: &mut Vec<Rc<Expr>>) {
        // scrutinee: a variable of the context (size 1); clause sets fixed per type
        for (name, st) in ctx.clone() {
            for pats in clause_sets(&st, ctx.len()) {
                let k = pats.len();
                // size: 1 (when) + 1 (scrutinee) + bodies
                if n < 2 + k {
                    continue;
                }
                for sp in splits(n - 2, k) {
                    let mut lists = vec![];
                    for (i, p) in pats.iter().enumerate() {
                        let mut vars = vec![];
                        pat_var_types(p, &st, &mut vars);
                        let mut c2 = ctx.clone();
                        for (vn, vt) in vars {
                            c2 = Self::ext(&c2, &vn, &vt);
                        }
                        lists.push(self.exprs(ty, sp[i], &c2));
                    }
                    if lists.iter().any(|l| l.is_empty()) {
                        continue;
                    }
                    let mut idx = vec![0usize; k];
                    'outer: loop {
                        let clauses: Vec<(Pat, Expr)> = pats.iter().enumerate().map(|(i, p)| (p.clone(), (*lists[i][idx[i]]).clone())).collect();
                        out.push(e(Expr::When(e(Expr::Var(name.clone())), clauses)));
                        for i in (0..k).rev() {
                            idx[i] += 1;
                            if idx[i] < lists[i].len() {
                                continue 'outer;
                            }
                            idx[i] = 0;
                        }
                        break;
                    }
                }
            }
        }
    }

    fn expect_prods(&mut self, ty: &Ty, n: usize, ctx: &Ctx, out: &mut Vec<Rc<Expr>>) {
        for (name, st) in ctx.clone() {
            let pats: Vec<Pat> = match &st {
                Ty::Opt(_) => vec![Pat::Ctor(st.clone(), 0, vec![Pat::Var(format!("e{}", ctx.len()))], false)],
                Ty::List(_) => vec![
                    Pat::List(vec![Pat::Var(format!("e{}", ctx.len()))], Some(None)),
                    Pat::List(vec![Pat::Discard, Pat::Var(format!("e{}", ctx.len()))], None),
                ],
                Ty::Adt("Shape") => vec![
                    Pat::Ctor(st.clone(), 1, vec![Pat::Var(format!("e{}", ctx.len()))], false),
                    Pat::Ctor(st.clone(), 2, vec![Pat::Var(format!("e{}", ctx.len()))], true),
                ],
                _ => vec![],
            };
            for p in pats {
                let mut vars = vec![];
                pat_var_types(&p, &st, &mut vars);
                let mut c2 = ctx.clone();
                for (vn, vt) in &vars {
                    c2 = Self::ext(&c2, vn, vt);
                }
                for b in self.exprs(ty, n - 2, &c2).iter() {
                    out.push(e(Expr::Expect(p.clone(), e(Expr::Var(name.clone())), b.clone())));
                }
            }
        }
    }
}

/// the variables a pattern binds, with their types
pub fn pat_var_types(p: &Pat, ty: &Ty, out: &mut Vec<(String, Ty)>) {
    match (p, ty) {
        (Pat::Var(x), t) => out.push((x.clone(), t.clone())),
        (Pat::As(q, x), t) => {
            out.push((x.clone(), t.clone()));
            pat_var_types(q, t, out)
        }
        (Pat::Ctor(_, c, ps, _), t) => {
            let fs = ctor_fields(t, *c);
            for (q, (_, ft)) in ps.iter().zip(fs.iter()) {
                pat_var_types(q, ft, out);
            }
        }
        (Pat::Tuple(ps), Ty::Tuple(ts)) => {
            for (q, t) in ps.iter().zip(ts) {
                pat_var_types(q, t, out);
            }
        }
        (Pat::Pair(a, b), Ty::Pair(ta, tb)) => {
            pat_var_types(a, ta, out);
            pat_var_types(b, tb, out);
        }
        (Pat::List(ps, tail), Ty::List(et)) => {
            for q in ps {
                pat_var_types(q, et, out);
            }
            if let Some(Some(x)) = tail {
                out.push((x.clone(), ty.clone()));
            }
        }
        _ => {}
    }
}

/// Exhaustive clause lists offered for a scrutinee of type `st` (names made fresh with
/// `k`). Several alternatives per type: overlapping patterns where source order matters,
/// literals, nested constructor patterns, list patterns with tails.
pub fn clause_sets(st: &Ty, k: usize) -> Vec<Vec<Pat>> {
    let v = |s: &str| Pat::Var(format!("{s}{k}"));
    match st {
        Ty::Bool => vec![vec![Pat::Ctor(Ty::Bool, 1, vec![], false), Pat::Ctor(Ty::Bool, 0, vec![], false)], vec![Pat::Ctor(Ty::Bool, 0, vec![], false), Pat::Discard]],
        Ty::Int => vec![vec![Pat::Int(0), v("n")], vec![Pat::Int(2), Pat::Int(0), Pat::Discard]],
        Ty::Opt(_) => vec![
            vec![Pat::Ctor(st.clone(), 0, vec![v("s")], false), Pat::Ctor(st.clone(), 1, vec![], false)],
            vec![Pat::Ctor(st.clone(), 0, vec![Pat::Int(0)], false), v("o")],
            vec![Pat::Ctor(st.clone(), 1, vec![], false), Pat::Ctor(st.clone(), 0, vec![Pat::Int(2)], false), Pat::Ctor(st.clone(), 0, vec![v("s")], false)],
        ],
        Ty::List(_) => vec![
            vec![Pat::List(vec![], None), Pat::List(vec![v("h")], Some(Some(format!("t{k}"))))],
            vec![Pat::List(vec![v("h"), Pat::Discard], Some(None)), Pat::List(vec![v("h")], None), Pat::Discard],
            vec![Pat::List(vec![Pat::Int(0)], Some(None)), Pat::List(vec![Pat::Discard, v("h")], Some(None)), v("l")],
        ],
        Ty::Adt("Color") => vec![
            vec![Pat::Ctor(st.clone(), 0, vec![], false), Pat::Ctor(st.clone(), 1, vec![], false), Pat::Ctor(st.clone(), 2, vec![], false)],
            vec![Pat::Ctor(st.clone(), 1, vec![], false), Pat::Discard],
        ],
        Ty::Adt("Shape") => vec![
            vec![Pat::Ctor(st.clone(), 0, vec![], false), Pat::Ctor(st.clone(), 1, vec![v("r")], false), Pat::Ctor(st.clone(), 2, vec![v("w"), v("h")], false)],
            vec![Pat::Ctor(st.clone(), 2, vec![Pat::Int(0)], true), Pat::Ctor(st.clone(), 2, vec![v("w"), Pat::Discard], false), Pat::Ctor(st.clone(), 1, vec![Pat::Int(0)], false), v("s")],
        ],
        Ty::Adt("Rec") => vec![vec![Pat::Ctor(st.clone(), 0, vec![v("a"), Pat::Ctor(Ty::Bool, 1, vec![], false)], true), Pat::Ctor(st.clone(), 0, vec![v("a"), Pat::Discard, Pat::Discard], false)]],
        Ty::Adt("BoxInt") => vec![vec![Pat::Ctor(st.clone(), 0, vec![v("x")], false)]],
        Ty::Adt("Tree") => vec![
            vec![Pat::Ctor(st.clone(), 0, vec![], false), Pat::Ctor(st.clone(), 1, vec![Pat::Discard, v("x"), Pat::Discard], false)],
            vec![Pat::Ctor(st.clone(), 1, vec![Pat::Ctor(st.clone(), 0, vec![], false), v("x"), Pat::Discard], false), Pat::Ctor(st.clone(), 1, vec![Pat::Discard, Pat::Discard, v("r")], false), Pat::Ctor(st.clone(), 0, vec![], false)],
        ],
        Ty::Tuple(ts) if ts.len() == 2 && ts[0] == Ty::Int && ts[1] == Ty::Bool => vec![
            vec![Pat::Tuple(vec![v("i"), v("b")])],
            vec![Pat::Tuple(vec![Pat::Int(0), Pat::Ctor(Ty::Bool, 1, vec![], false)]), Pat::Tuple(vec![v("i"), Pat::Discard])],
        ],
        Ty::Pair(..) => vec![vec![Pat::Pair(Box::new(v("p")), Box::new(v("q")))]],
        _ => vec![],
    }
}

// ---------------------------------------------------------------------------------------
// value universes (function arguments)

pub fn universe(ty: &Ty) -> Vec<Val> {
    use vcore::rterm::RData;
    let i = |n: i64| Val::Int(BigInt::from(n));
    match ty {
        Ty::Int => vec![i(-7), i(-1), i(0), i(1), i(2), i(7), Val::Int(BigInt::from(1) << 64)],
        Ty::Bool => vec![Val::Bool(false), Val::Bool(true)],
        Ty::Bytes => vec![Val::Bytes(vec![]), Val::Bytes(vec![0]), Val::Bytes(vec![0xff, 0])],
        Ty::Void => vec![Val::Void],
        Ty::List(e) if **e == Ty::Int => vec![Val::List(vec![]), Val::List(vec![i(0)]), Val::List(vec![i(1), i(2)]), Val::List(vec![i(3), i(-1), i(0)])],
        Ty::Opt(e) if **e == Ty::Int => vec![Val::Ctor(1, vec![]), Val::Ctor(0, vec![i(0)]), Val::Ctor(0, vec![i(-1)]), Val::Ctor(0, vec![i(2)])],
        Ty::Adt("Color") => vec![Val::Ctor(0, vec![]), Val::Ctor(1, vec![]), Val::Ctor(2, vec![])],
        Ty::Adt("Shape") => vec![
            Val::Ctor(0, vec![]),
            Val::Ctor(1, vec![i(0)]),
            Val::Ctor(1, vec![i(3)]),
            Val::Ctor(2, vec![i(0), i(3)]),
            Val::Ctor(2, vec![i(3), i(0)]),
            Val::Ctor(2, vec![i(2), i(2)]),
        ],
        Ty::Adt("Rec") => vec![
            Val::Ctor(0, vec![i(0), Val::Bool(true), Val::Bytes(vec![])]),
            Val::Ctor(0, vec![i(2), Val::Bool(false), Val::Bytes(vec![0xff, 0])]),
            Val::Ctor(0, vec![i(-1), Val::Bool(true), Val::Bytes(vec![0])]),
        ],
        Ty::Adt("BoxInt") => vec![Val::Ctor(0, vec![i(0)]), Val::Ctor(0, vec![i(7)])],
        Ty::Adt("Tree") => {
            let leaf = Val::Ctor(0, vec![]);
            let n = |l: Val, x: i64, r: Val| Val::Ctor(1, vec![l, i(x), r]);
            vec![leaf.clone(), n(leaf.clone(), 0, leaf.clone()), n(n(leaf.clone(), 3, leaf.clone()), 0, leaf.clone()), n(leaf.clone(), 2, n(leaf.clone(), -1, leaf.clone()))]
        }
        Ty::Tuple(ts) => {
            let mut out = vec![vec![]];
            for t in ts {
                let u = universe(t);
                let u: Vec<Val> = u.into_iter().take(3).collect();
                let mut next = vec![];
                for pre in &out {
                    for x in &u {
                        let mut p: Vec<Val> = pre.clone();
                        p.push(x.clone());
                        next.push(p);
                    }
                }
                out = next;
            }
            out.into_iter().map(Val::Tuple).collect()
        }
        Ty::Pair(a, b) => {
            let ua: Vec<Val> = universe(a).into_iter().take(3).collect();
            let ub: Vec<Val> = universe(b).into_iter().take(3).collect();
            let mut out = vec![];
            for x in &ua {
                for y in &ub {
                    out.push(Val::Pair(Box::new(x.clone()), Box::new(y.clone())));
                }
            }
            out
        }
        Ty::Data => vec![
            Val::Data(RData::I(0.into())),
            Val::Data(RData::I((-1).into())),
            Val::Data(RData::B(vec![])),
            Val::Data(RData::B(vec![0xff])),
            Val::Data(RData::Constr(0, vec![])),
            Val::Data(RData::Constr(1, vec![])),
            Val::Data(RData::Constr(0, vec![RData::I(0.into())])),
            Val::Data(RData::Constr(1, vec![RData::I(3.into())])),
            Val::Data(RData::Constr(2, vec![RData::I(0.into()), RData::I(3.into())])),
            Val::Data(RData::Constr(2, vec![RData::I(0.into())])),
            Val::Data(RData::Constr(7, vec![])),
            Val::Data(RData::List(vec![])),
            Val::Data(RData::List(vec![RData::I(1.into()), RData::I(2.into())])),
            Val::Data(RData::List(vec![RData::I(1.into()), RData::Constr(1, vec![])])),
            Val::Data(RData::List(vec![RData::B(vec![])])),
            Val::Data(RData::Map(vec![])),
            Val::Data(RData::Map(vec![(RData::I(0.into()), RData::I(1.into()))])),
        ],
        other => panic!("no universe for {:?}", other),
    }
}
