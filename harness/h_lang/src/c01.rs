//! C01 – compiled code computes what the Aiken source means.
//! Every function body of every stratum (complete up to the stratum's size bound) is
//! compiled through the real pipeline and run on the full argument product; the result
//! must equal what the reference interpreter computes (value, or abort).
//!
//! The same pass feeds C06's classifier (structural machine errors) and C10's "the
//! compiler never panics"; those properties have their own entry points that reuse
//! `run_strata` with a different `Mode`.

use crate::ak::*;
use crate::engine::*;
use serde_json::json;
use std::collections::{BTreeMap, HashSet};
use std::rc::Rc;
use std::time::Duration;
use vcore::evid::{guarded, Run, Tier, Violation};
use vcore::par::par_indices;
use vcore::rterm::RData;

pub const BATCH: usize = 64;

#[derive(Clone, Copy, PartialEq, Eq)]
pub enum Mode {
    C01,
    C06,
    C10,
}

/// machine errors a well-typed program must never produce (C06)
pub const STRUCTURAL: [&str; 13] = [
    "TypeMismatch",
    "ListTypeMismatch",
    "PairTypeMismatch",
    "NonFunctionalApplication",
    "NonPolymorphicInstantiation",
    "BuiltinTermArgumentExpected",
    "UnexpectedBuiltinTermArgument",
    "OpenTermEvaluated",
    "NotAConstant",
    "NonConstrScrutinized",
    "MissingCaseBranch",
    "FreeUnique",
    "MachineNeverReachedDone",
];

#[derive(Default)]
pub struct Local {
    pub functions: u64,
    pub evaluations: u64,
    pub aborts: u64,
    pub values: u64,
    pub undefined: u64,
    pub rejected: u64,
    pub varied: u64,
    pub error_kinds: BTreeMap<String, u64>,
    pub per_stratum: BTreeMap<String, (u64, u64)>,
    pub violations: Vec<Violation>,
    pub machinery: Vec<String>,
    pub samples: Vec<String>,
}

fn class_of(body: &Expr) -> &'static str {
    // root production of the body: the input class used in signatures
    match body {
        Expr::Bin(op, ..) => match op {
            Op::Div | Op::Mod => "div-mod",
            Op::And | Op::Or => "connective",
            Op::Eq | Op::Ne => "equality",
            _ => "arith-compare",
        },
        Expr::If(..) => "if",
        Expr::When(..) => "when",
        Expr::Let(..) => "let",
        Expr::Expect(..) => "expect-pattern",
        Expr::ExpectTy(..) => "expect-cast",
        Expr::ToData(..) => "upcast",
        Expr::Ctor(..) | Expr::Tuple(..) | Expr::MkPair(..) => "constructor",
        Expr::Field(..) | Expr::TupleIdx(..) | Expr::Update(..) => "field",
        Expr::List(..) => "list",
        Expr::Call(..) | Expr::Pipe(..) | Expr::Capture(..) | Expr::Lam(..) => "call",
        Expr::Trace(..) | Expr::TraceArg(..) | Expr::TraceIfFalse(..) => "trace",
        Expr::AndBlock(..) | Expr::OrBlock(..) => "connective",
        Expr::Not(..) | Expr::Neg(..) => "unary",
        _ => "atom",
    }
}

#[allow(clippy::too_many_arguments)]
pub fn check_function(st: &Stratum, sidx: usize, fidx: usize, body: &Expr, program: &uplc::ast::Program<uplc::ast::Name>, s0: Option<&uplc::ast::Program<uplc::ast::Name>>, w: &Worker, mode: Mode, l: &mut Local) {
    // A disagreement that the optimiser introduced (the pre-optimisation program agrees with
    // the source semantics) is reported under the signature C02 gives it, so that one defect
    // has one identity in both checks.
    let attribute = |default: String, data: &[RData]| -> String {
        match s0.and_then(|s0| crate::c02::attribute_to_optimiser(&function_source("f", st, body), body, s0, program, data)) {
            Some(sig) => format!("introduced-by-the-optimiser|{sig}"),
            None => default,
        }
    };
    let tuples = arg_tuples(st);
    let mut results: HashSet<String> = HashSet::new();
    let case0 = |args: &Vec<Val>| json!({"engine":"c01","stratum":st.name,"stratum_index":sidx,"function_index":fidx,"source":function_source("f", st, body),"args":args.iter().map(show_val).collect::<Vec<_>>()});
    for args in &tuples {
        l.evaluations += 1;
        let mut env = None;
        for ((n, _), v) in st.params.iter().zip(args) {
            env = env_push(&env, n, v.clone());
        }
        let mut it = Interp::new(&w.globals, 200_000);
        let want = it.eval(body, &env);
        let data: Vec<_> = st.params.iter().zip(args).map(|((_, t), v)| to_data(v, t)).collect();
        let got = run_program(program, &data);
        // C10 / C06 classification first
        match &got {
            Ran::Panic(p) => {
                l.violations.push(Violation { signature: format!("panic|evaluating-compiled-code|{}", vcore::evid::panic_site_file(p)), what: format!("evaluating the compiled {} panicked: {}", function_source("f", st, body), p), case: case0(args) });
                continue;
            }
            Ran::Error(k) => {
                *l.error_kinds.entry(k.clone()).or_default() += 1;
                let kind = k.split(':').next().unwrap_or("");
                if (STRUCTURAL.contains(&kind) || k.ends_with(":non-data-operand")) && mode != Mode::C10 && mode != Mode::C01 {
                    l.violations.push(Violation {
                        signature: format!("structural-error|{}|{}", kind, class_of(body)),
                        what: format!("a well-typed function fails with the structural machine error {k}:\n{}args: {}", function_source("f", st, body), args.iter().map(show_val).collect::<Vec<_>>().join(", ")),
                        case: case0(args),
                    });
                }
            }
            Ran::Value(_) => {}
        }
        if mode != Mode::C01 {
            continue;
        }
        match (&want, &got) {
            (Err(Stop::Undefined(_)), _) | (Err(Stop::Horizon), _) => l.undefined += 1,
            (Err(Stop::Abort(_)), Ran::Error(k)) => {
                l.aborts += 1;
                results.insert("abort".into());
                if k == "OutOfExError" {
                    l.machinery.push(format!("budget exhausted on {}", function_source("f", st, body)));
                }
            }
            (Err(Stop::Abort(why)), Ran::Value(t)) => {
                l.violations.push(Violation {
                    signature: attribute(format!("succeeds-but-source-aborts|{}|{}", why, class_of(body)), &data),
                    what: format!("the source semantics aborts ({why}) but the compiled code returns {}:\n{}args: {}", uplc_short(t), function_source("f", st, body), args.iter().map(show_val).collect::<Vec<_>>().join(", ")),
                    case: case0(args),
                });
            }
            (Ok(v), Ran::Error(k)) => {
                l.violations.push(Violation {
                    signature: attribute(format!("aborts-but-source-succeeds|{}|{}", k.split(':').next().unwrap_or(""), class_of(body)), &data),
                    what: format!("the source semantics gives {} but the compiled code fails with {k}:\n{}args: {}", show_val(v), function_source("f", st, body), args.iter().map(show_val).collect::<Vec<_>>().join(", ")),
                    case: case0(args),
                });
            }
            (Ok(v), Ran::Value(t)) => {
                l.values += 1;
                results.insert(show_val(v));
                match decode(t, &st.ret) {
                    Some(g) if &g == v => {}
                    Some(g) => l.violations.push(Violation {
                        signature: attribute(format!("wrong-value|{}", class_of(body)), &data),
                        what: format!("the source semantics gives {} but the compiled code returns {}:\n{}args: {}", show_val(v), show_val(&g), function_source("f", st, body), args.iter().map(show_val).collect::<Vec<_>>().join(", ")),
                        case: case0(args),
                    }),
                    None => l.violations.push(Violation {
                        signature: format!("result-not-of-declared-type|{}", class_of(body)),
                        what: format!("the compiled code returns {} which is not a value of type {} (expected {}):\n{}args: {}", uplc_short(t), show_ty(&st.ret), show_val(v), function_source("f", st, body), args.iter().map(show_val).collect::<Vec<_>>().join(", ")),
                        case: case0(args),
                    }),
                }
            }
            (_, Ran::Panic(_)) => unreachable!(),
        }
    }
    if results.len() >= 2 {
        l.varied += 1;
    }
}

fn uplc_short(t: &uplc::ast::Term<uplc::ast::NamedDeBruijn>) -> String {
    let s = t.to_pretty().split_whitespace().collect::<Vec<_>>().join(" ");
    if s.len() > 200 { format!("{}…", &s[..200]) } else { s }
}

pub fn run_strata(run: &mut Run, tier: Tier, mode: Mode) {
    // batches per stratum (computed once on the main thread; workers regenerate lazily)
    let (counts, strata_desc): (Vec<usize>, Vec<serde_json::Value>) = {
        let sts = strata(tier);
        let mut w = Worker::new();
        let counts: Vec<usize> = sts.iter().enumerate().map(|(i, st)| w.bodies(i, st).len()).collect();
        let desc = sts.iter().zip(&counts).map(|(s, c)| json!({"name": s.name, "max_size": s.max_size, "bodies": c})).collect();
        (counts, desc)
    };
    let mut offsets = vec![];
    let mut total_batches = 0u64;
    for c in &counts {
        offsets.push(total_batches);
        total_batches += c.div_ceil(BATCH) as u64;
    }
    let cap = Some(match tier {
        Tier::Quick => Duration::from_secs(50),
        Tier::Thorough => Duration::from_secs(1700),
    });
    let out = par_indices(
        total_batches,
        1,
        cap,
        |_| (Worker::new(), strata(tier), Local::default()),
        |(w, sts, l), bidx| {
            let si = match offsets.binary_search(&bidx) {
                Ok(i) => {
                    // several strata may start at the same offset when one is empty
                    let mut i = i;
                    while i + 1 < offsets.len() && offsets[i + 1] == bidx {
                        i += 1;
                    }
                    i
                }
                Err(i) => i - 1,
            };
            let st = &sts[si];
            let bodies = w.bodies(si, st);
            let start = (bidx - offsets[si]) as usize * BATCH;
            let end = (start + BATCH).min(bodies.len());
            if start >= end {
                return;
            }
            let srcs: Vec<String> = (start..end).map(|i| function_source(&format!("f{}", i - start), st, &bodies[i])).collect();
            let checked = guarded(|| w.check_batch(&srcs, silent()));
            let (proj, fns) = match checked {
                Ok(Ok(x)) => x,
                Ok(Err(e)) => {
                    // find the culprit(s) one by one
                    for (k, s) in srcs.iter().enumerate() {
                        match guarded(|| w.check_batch(&[s.replace(&format!("pub fn f{k}("), "pub fn f0(")], silent())) {
                            Ok(Ok(_)) => {}
                            Ok(Err(e1)) => {
                                l.rejected += 1;
                                if l.machinery.len() < 5 {
                                    l.machinery.push(format!("a function the harness believes well-typed was rejected ({:?}):\n{}", e1, s));
                                }
                            }
                            Err(p) => l.violations.push(Violation { signature: format!("panic|type-checker|{}", vcore::evid::panic_site_file(&p)), what: format!("type-checking panicked: {p}\n{s}"), case: json!({"engine":"c01","source":s}) }),
                        }
                    }
                    let _ = e;
                    return;
                }
                Err(p) => {
                    l.violations.push(Violation { signature: format!("panic|type-checker|{}", vcore::evid::panic_site_file(&p)), what: format!("type-checking a batch panicked: {p}"), case: json!({"engine":"c01","stratum":st.name,"batch_start":start}) });
                    return;
                }
            };
            if fns.len() != end - start {
                l.machinery.push(format!("batch returned {} functions instead of {}", fns.len(), end - start));
                return;
            }
            for (k, f) in fns.iter().enumerate() {
                let body = &bodies[start + k];
                l.functions += 1;
                let e = l.per_stratum.entry(st.name.to_string()).or_default();
                e.0 += 1;
                let compiled = guarded(|| {
                    let _ = aiken_lang::verif_hooks::drain_pre_optimisation();
                    let mut g = proj.generator(silent());
                    let p = g.generate_raw(&f.body, &f.arguments, crate::driver::MODULE_NAME);
                    (p, aiken_lang::verif_hooks::drain_pre_optimisation().pop())
                });
                match compiled {
                    Err(p) => {
                        l.violations.push(Violation {
                            signature: format!("panic|compiler|{}|{}", vcore::evid::panic_site_file(&p), class_of(body)),
                            what: format!("compiling a well-typed function panicked: {p}\n{}", function_source("f", st, body)),
                            case: json!({"engine":"c01","stratum":st.name,"stratum_index":si,"function_index":start+k,"source":function_source("f", st, body)}),
                        });
                    }
                    Ok((program, s0)) => {
                        let before = l.evaluations;
                        check_function(st, si, start + k, body, &program, s0.as_ref(), w, mode, l);
                        l.per_stratum.get_mut(st.name).unwrap().1 += l.evaluations - before;
                        if l.samples.len() < 2 && (start + k) % 997 == 3 {
                            l.samples.push(function_source("f", st, body));
                        }
                    }
                }
            }
        },
        |(_, _, l)| l,
    );
    let mut tot = Local::default();
    for l in out.results {
        tot.functions += l.functions;
        tot.evaluations += l.evaluations;
        tot.aborts += l.aborts;
        tot.values += l.values;
        tot.undefined += l.undefined;
        tot.rejected += l.rejected;
        tot.varied += l.varied;
        for (k, v) in l.error_kinds {
            *tot.error_kinds.entry(k).or_default() += v;
        }
        for (k, v) in l.per_stratum {
            let e = tot.per_stratum.entry(k).or_default();
            e.0 += v.0;
            e.1 += v.1;
        }
        run.violations_extend(l.violations);
        for m in l.machinery.into_iter().take(3) {
            run.machinery_error(m);
        }
        for s in l.samples {
            run.sample(s);
        }
    }
    if out.capped {
        run.cap_hit(&format!("wall cap: {} of {} batches of {} functions", out.done, total_batches, BATCH));
    }
    run.set("strata", json!(strata_desc));
    run.set("functions_compiled", tot.functions);
    run.set("functions_in_space", counts.iter().sum::<usize>() as u64);
    run.set("evaluations", tot.evaluations);
    run.set("states", tot.functions);
    run.set("transitions", tot.evaluations);
    run.set("traces_validated_against_impl", tot.values + tot.aborts);
    run.set("both_value", tot.values);
    run.set("both_abort", tot.aborts);
    run.set("oracle_undefined", tot.undefined);
    run.set("rejected_by_type_checker", tot.rejected);
    run.set("functions_with_two_or_more_distinct_results", tot.varied);
    run.set("distinct_nontrivial", tot.varied);
    run.set("machine_error_kinds", json!(tot.error_kinds));
    run.set("per_stratum_functions_evaluations", json!(tot.per_stratum));
    if mode == Mode::C01 {
        if tot.undefined * 20 > tot.evaluations {
            run.machinery_error("more than 5% of the cases are undefined by the oracle");
        }
        if tot.aborts == 0 || tot.values == 0 {
            run.machinery_error("vacuous: need both aborting and non-aborting cases");
        }
    }
    if tot.functions == 0 {
        run.machinery_error("vacuous: no function compiled");
    }
}

pub fn run(tier: Tier, replay: Option<String>) -> i32 {
    if let Some(path) = replay {
        return replay_case(&path);
    }
    let mut run = Run::new("C01", tier);
    run_strata(&mut run, tier, Mode::C01);
    recursion_family(&mut run);
    run.set("rule", "every function body up to the stratum's size bound (13 strata closed under typing: arithmetic/if/let, connectives/abort/trace, when over ADTs/records/tuples/options/lists/trees, recursion and higher-order helpers, expect patterns, Data casts, lambdas/captures/pipes, structural equality) x the full cartesian product of the parameters' value universes; distinct_nontrivial = functions with at least two distinct results over their inputs");
    run.assume("the reference interpreter h_lang::ak (strict, first-match when, floor division/modulo, short-circuit connectives, Data casts per the documented encoding) is a faithful reading of the language reference; unused lets are not evaluated (documented)");
    run.assume("the harness printer emits fully bracketed source, so precedence cannot change the meaning of the printed text");
    run.finish()
}

fn replay_case(path: &str) -> i32 {
    let doc: serde_json::Value = serde_json::from_str(&std::fs::read_to_string(path).expect("read")).expect("json");
    let case = &doc["case"];
    if case["engine"] == "c06-untyped" {
        let vs = crate::c06u::replay(case["body"].as_str().unwrap_or("")).unwrap_or_default();
        for v in &vs {
            println!("VIOLATION property=C06 replay={path}\n  {}", v.what);
        }
        if vs.is_empty() {
            println!("no violation on replay");
        }
        return if vs.is_empty() { 0 } else { 1 };
    }
    let (Some(si), Some(fi)) = (case["stratum_index"].as_u64(), case["function_index"].as_u64()) else {
        println!("replay file has no function index; source:\n{}", case["source"].as_str().unwrap_or(""));
        return 2;
    };
    // try both tiers' strata tables (the index is stable within a tier)
    for tier in [Tier::Quick, Tier::Thorough] {
        let sts = strata(tier);
        let st = &sts[si as usize];
        let mut w = Worker::new();
        let bodies = w.bodies(si as usize, st);
        let Some(body) = bodies.get(fi as usize) else { continue };
        if Some(function_source("f", st, body).as_str()) != case["source"].as_str() {
            continue;
        }
        let src = function_source("f0", st, body);
        let (proj, fns) = w.check_batch(&[src], silent()).expect("type check");
        let _ = aiken_lang::verif_hooks::drain_pre_optimisation();
        let mut g = proj.generator(silent());
        let program = g.generate_raw(&fns[0].body, &fns[0].arguments, crate::driver::MODULE_NAME);
        let s0 = aiken_lang::verif_hooks::drain_pre_optimisation().pop();
        let mut l = Local::default();
        check_function(st, si as usize, fi as usize, body, &program, s0.as_ref(), &w, Mode::C01, &mut l);
        if l.violations.is_empty() {
            println!("no violation on replay");
            return 0;
        }
        for v in &l.violations {
            println!("VIOLATION property=C01 replay={path}\n  {}", v.what);
        }
        return 1;
    }
    println!("could not locate the function of the replay file in the current strata");
    2
}

/// C06 – well-typed programs cannot go wrong: the same enumeration, classified by the kind
/// of machine error instead of compared with the reference interpreter.
pub fn run_c06(tier: Tier, replay: Option<String>) -> i32 {
    if let Some(path) = replay {
        return replay_c06(&path);
    }
    let mut run = Run::new("C06", tier);
    run_strata(&mut run, tier, Mode::C06);
    crate::c06u::part(&mut run, tier);
    let kinds = run.coverage.get("machine_error_kinds").cloned().unwrap_or_default();
    let n_allowed = kinds.as_object().map(|o| o.len()).unwrap_or(0);
    if n_allowed < 2 {
        run.machinery_error("vacuous: fewer than two kinds of permitted run-time failure were observed");
    }
    run.set("distinct_nontrivial", run.get("functions_with_two_or_more_distinct_results").max(n_allowed as u64));
    run.set("forbidden_error_kinds", json!(STRUCTURAL));
    run.set("rule", "(a) every function body of the 14 strata (accepted by the real type checker) x the full cartesian product of valid encodings of its parameter types (Data parameters: the whole Data universe); every evaluation is classified: a structural machine error (type mismatch, non-function application, open term, missing case branch, non-constant where a constant is needed, ...) or a panic is a violation; division by zero, empty list, failed expect / deserialisation (of a Data operand), explicit fail are permitted; (b) untyped family: every form (calls of generic/Data/Int helpers, let/expect annotations at 13 types, pattern bindings incl. alternative patterns, constructors, accessors, record updates, operators, branches, lambdas) over every atom (13 parameters of different types + literals), and again over every *accepted* level-1 expression - the real checker alone decides which candidates are programs; accepted ones are compiled and run on the product of valid encodings of the parameters they mention");
    run.assume("arguments are valid encodings of the declared parameter types (what the type system guarantees the caller)");
    run.finish()
}

fn replay_c06(path: &str) -> i32 {
    let doc: serde_json::Value = serde_json::from_str(&std::fs::read_to_string(path).expect("read")).expect("json");
    let case = &doc["case"];
    if case["engine"] == "c06-untyped" {
        let vs = crate::c06u::replay(case["body"].as_str().unwrap_or("")).unwrap_or_default();
        for v in &vs {
            println!("VIOLATION property=C06 replay={path}\n  {}", v.what);
        }
        if vs.is_empty() {
            println!("no violation on replay");
        }
        return if vs.is_empty() { 0 } else { 1 };
    }
    let (Some(si), Some(fi)) = (case["stratum_index"].as_u64(), case["function_index"].as_u64()) else {
        println!("replay file has no function index");
        return 2;
    };
    for tier in [Tier::Quick, Tier::Thorough] {
        let sts = strata(tier);
        let Some(st) = sts.get(si as usize) else { continue };
        let mut w = Worker::new();
        let bodies = w.bodies(si as usize, st);
        let Some(body) = bodies.get(fi as usize) else { continue };
        if Some(function_source("f", st, body).as_str()) != case["source"].as_str() {
            continue;
        }
        let src = function_source("f0", st, body);
        let (proj, fns) = w.check_batch(&[src], silent()).expect("type check");
        let mut g = proj.generator(silent());
        let program = g.generate_raw(&fns[0].body, &fns[0].arguments, crate::driver::MODULE_NAME);
        let mut l = Local::default();
        check_function(st, si as usize, fi as usize, body, &program, None, &w, Mode::C06, &mut l);
        if l.violations.is_empty() {
            println!("no violation on replay");
            return 0;
        }
        for v in &l.violations {
            println!("VIOLATION property=C06 replay={path}\n  {}", v.what);
        }
        return 1;
    }
    println!("could not locate the function of the replay file");
    2
}

// ---------------------------------------------------------------------------------------
// Recursion shapes: the strata call a fixed library of recursive helpers, whose self-calls
// all pass their parameters "in place".  How the compiler lowers a recursive definition
// depends on exactly that (parameters that every self-call passes unchanged are hoisted out
// of the recursion), so every shape of self-call gets its own definition here:
//   rec(a, b, n) = if n <= 0 { BASE } else { rec(ARG1, ARG2, n - 1) }
// for every ARG1, ARG2 in {a, b, a + b, b - a, a + 1, 0} and BASE in {a, b, a - b}, and a
// list-driven variant  walk(xs, p, q) = when xs is { [] -> BASE; [x, ..rest] -> walk(rest, A1, A2) }.

fn recursion_helpers() -> Vec<Rc<FnDef>> {
    use std::rc::Rc;
    let v = |x: &str| Expr::Var(x.into());
    let int = |i: i64| Expr::Int(num_bigint::BigInt::from(i));
    let bin = |op: Op, a: Expr, b: Expr| Expr::Bin(op, Rc::new(a), Rc::new(b));
    let args = |p: &str, q: &str| -> Vec<Expr> { vec![v(p), v(q), bin(Op::Add, v(p), v(q)), bin(Op::Sub, v(q), v(p)), bin(Op::Add, v(p), int(1)), int(0)] };
    let mut out = vec![];
    let bases = |p: &str, q: &str| vec![v(p), v(q), bin(Op::Sub, v(p), v(q))];
    let mut k = 0;
    for a1 in args("a", "b") {
        for a2 in args("a", "b") {
            for base in bases("a", "b") {
                let name = format!("rec{k}");
                k += 1;
                let body = Expr::If(
                    Rc::new(bin(Op::Le, v("n"), int(0))),
                    Rc::new(base.clone()),
                    Rc::new(Expr::Call(Rc::new(v(&name)), vec![a1.clone(), a2.clone(), bin(Op::Sub, v("n"), int(1))])),
                );
                out.push(Rc::new(FnDef { name, params: vec![("a".into(), Ty::Int), ("b".into(), Ty::Int), ("n".into(), Ty::Int)], ret: Ty::Int, body: Rc::new(body), src: None }));
            }
        }
    }
    let li = Ty::List(Rc::new(Ty::Int));
    let wargs = |p: &str, q: &str| -> Vec<Expr> { vec![v(p), v(q), bin(Op::Add, v(p), v("x")), bin(Op::Add, v(q), v("x")), v("x")] };
    let mut k = 0;
    for a1 in wargs("p", "q") {
        for a2 in wargs("p", "q") {
            for base in bases("p", "q") {
                let name = format!("walk{k}");
                k += 1;
                let body = Expr::When(
                    Rc::new(v("xs")),
                    vec![
                        (Pat::List(vec![], None), base.clone()),
                        (Pat::List(vec![Pat::Var("x".into())], Some(Some("rest".into()))), Expr::Call(Rc::new(v(&name)), vec![v("rest"), a1.clone(), a2.clone()])),
                    ],
                );
                out.push(Rc::new(FnDef { name, params: vec![("xs".into(), li.clone()), ("p".into(), Ty::Int), ("q".into(), Ty::Int)], ret: Ty::Int, body: Rc::new(body), src: None }));
            }
        }
    }
    out
}

pub fn recursion_family(run: &mut Run) {
    use std::rc::Rc;
    let helpers = recursion_helpers();
    let n_helpers = helpers.len();
    // one wrapper per (helper, depth): f(a, b) = rec_k(a, b, depth) / f(xs, a) = walk_k(xs, a, 1 - a)
    let n_chunks = helpers.chunks(12).count();
    drop(helpers);
    let out = par_indices(
        n_chunks as u64,
        1,
        None,
        // (Rc-based definitions: every worker builds its own copy of the same list)
        |_| (Worker::new(), Local::default(), recursion_helpers()),
        |(w, l, all), ci| {
            let hs: Vec<Rc<FnDef>> = all.chunks(12).nth(ci as usize).map(|c| c.to_vec()).unwrap_or_default();
            let hs = &hs;
            let mut src = String::new();
            let mut wrappers: Vec<(Stratum, Expr)> = vec![];
            for h in hs {
                src.push_str(&show_fn(h));
                src.push('\n');
                let v = |x: &str| Expr::Var(x.into());
                let int = |i: i64| Expr::Int(num_bigint::BigInt::from(i));
                if h.name.starts_with("rec") {
                    for depth in [0i64, 1, 2, 3] {
                        let st = Stratum { name: "recursion-shapes", params: vec![("a".into(), Ty::Int), ("b".into(), Ty::Int)], ret: Ty::Int, prods: Default::default(), max_size: 0, custom: None };
                        wrappers.push((st, Expr::Call(Rc::new(v(&h.name)), vec![v("a"), v("b"), int(depth)])));
                    }
                } else {
                    let st = Stratum { name: "recursion-shapes", params: vec![("xs".into(), Ty::List(Rc::new(Ty::Int))), ("a".into(), Ty::Int)], ret: Ty::Int, prods: Default::default(), max_size: 0, custom: None };
                    wrappers.push((st, Expr::Call(Rc::new(v(&h.name)), vec![v("xs"), v("a"), Expr::Bin(Op::Sub, Rc::new(int(1)), Rc::new(v("a")))])));
                }
            }
            let mut fn_srcs = vec![src];
            for (k, (st, body)) in wrappers.iter().enumerate() {
                fn_srcs.push(function_source(&format!("f{k}"), st, body));
            }
            let (proj, fns) = match guarded(|| w.check_batch(&fn_srcs, silent())) {
                Ok(Ok(x)) => x,
                Ok(Err(e)) => {
                    l.machinery.push(format!("recursion family rejected by the type checker: {:?}", e));
                    return;
                }
                Err(p) => {
                    l.violations.push(Violation { signature: "panic|type-checker|recursion-shapes".into(), what: format!("type-checking panicked: {p}"), case: json!({"engine":"c01-rec"}) });
                    return;
                }
            };
            // the interpreter needs the helpers of this chunk
            let mut globals = w.globals.clone();
            for h in hs {
                globals.insert(h.name.clone(), h.clone());
            }
            let w2 = Worker { base: w.base.clone(), prelude_src: String::new(), globals, bodies: Default::default() };
            for (k, f) in fns.iter().enumerate() {
                let Some((st, body)) = wrappers.get(k) else { continue };
                l.functions += 1;
                let compiled = guarded(|| {
                    let _ = aiken_lang::verif_hooks::drain_pre_optimisation();
                    let mut g = proj.generator(silent());
                    let p = g.generate_raw(&f.body, &f.arguments, crate::driver::MODULE_NAME);
                    (p, aiken_lang::verif_hooks::drain_pre_optimisation().pop())
                });
                match compiled {
                    Err(p) => l.violations.push(Violation { signature: format!("panic|compiler|{}|recursion-shapes", vcore::evid::panic_site_file(&p)), what: format!("compiling panicked: {p}"), case: json!({"engine":"c01-rec"}) }),
                    Ok((program, _s0)) => {
                        let before = l.violations.len();
                        check_function(st, usize::MAX, k, body, &program, None, &w2, Mode::C01, l);
                        // make the report self-contained: include the helper's definition
                        for v in l.violations.iter_mut().skip(before) {
                            let helper = hs.iter().find(|h| show(body).contains(&format!("{}(", h.name))).map(|h| show_fn(h)).unwrap_or_default();
                            v.what = format!("{}\nwhere\n{helper}", v.what);
                            v.signature = v.signature.replace("|call", "|call-to-a-recursive-function-whose-self-call-permutes-or-rewrites-its-parameters");
                            v.case = json!({"engine":"c01-rec","helper":helper,"wrapper":show(body)});
                        }
                    }
                }
            }
        },
        |(_, l, _)| l,
    );
    let mut functions = 0;
    let mut evaluations = 0;
    for l in out.results {
        functions += l.functions;
        evaluations += l.evaluations;
        run.violations_extend(l.violations);
        for m in l.machinery.into_iter().take(2) {
            run.machinery_error(m);
        }
    }
    run.set("recursion_shape_definitions", n_helpers as u64);
    run.set("recursion_shape_functions", functions);
    run.set("recursion_shape_evaluations", evaluations);
    run.add("functions_compiled", functions);
    run.add("evaluations", evaluations);
    run.add("states", functions);
    run.add("transitions", evaluations);
    run.add("traces_validated_against_impl", evaluations);
    if functions < 100 {
        run.machinery_error("vacuous: the recursion-shapes family did not compile");
    }
}
