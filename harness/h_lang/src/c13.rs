//! C13 – the formatter preserves programs; and the Aiken front-end half of C20.
//!
//! Oracle for a source text s that parses to A:  out = format(A);  out must parse (to B);
//! A ~ B where ~ compares the Debug rendering of the definitions with source spans erased;
//! the comments of out are the comments of s (same texts, same order); format(parse(out)) ==
//! out (idempotence).  Inputs: the shipped .ak files, harness templates (operator nests with
//! and without parentheses in several expression contexts, constructor / pattern / literal
//! forms), and for every template every token gap x 3 comment kinds (kept only when the
//! insertion itself does not change the parsed program).

use aiken_lang::ast::ModuleKind;
use aiken_lang::parser;
use serde_json::json;
use std::collections::{BTreeMap, HashSet};
use std::time::Duration;
use vcore::evid::{guarded, Run, Tier, Violation};
use vcore::par::par_indices;

/// Debug rendering with spans (`12..34`), byte offsets and `location: ...` erased
pub fn erase_spans(s: &str) -> String {
    // byte positions kept outside of spans (`end_position: 37`)
    let s: String = s
        .lines()
        .map(|l| {
            let t = l.trim_start();
            // `one_liner` records the layout of the source, not the program
            if t.starts_with("end_position:") || t.starts_with("doc_position:") || t.starts_with("start_position:") || t.starts_with("one_liner:") {
                &l[..l.len() - t.len()]
            } else {
                l
            }
        })
        .collect::<Vec<_>>()
        .join("\n");
    let s = s.as_str();
    let mut out = String::with_capacity(s.len());
    let b: Vec<char> = s.chars().collect();
    let mut i = 0;
    while i < b.len() {
        if b[i].is_ascii_digit() && (i == 0 || !(b[i - 1].is_alphanumeric() || b[i - 1] == '_' || b[i - 1] == '"')) {
            // digits '..' digits  -> '#'
            let mut j = i;
            while j < b.len() && b[j].is_ascii_digit() {
                j += 1;
            }
            if j + 1 < b.len() && b[j] == '.' && b[j + 1] == '.' {
                let mut k = j + 2;
                let k0 = k;
                while k < b.len() && b[k].is_ascii_digit() {
                    k += 1;
                }
                if k > k0 {
                    out.push('#');
                    i = k;
                    continue;
                }
            }
        }
        out.push(b[i]);
        i += 1;
    }
    out
}

pub struct Parsed {
    pub ast: String,
    pub comments: Vec<String>,
    pub module: aiken_lang::ast::UntypedModule,
    pub extra: parser::extra::ModuleExtra,
}

pub fn parse(src: &str) -> Result<Parsed, String> {
    let (module, extra) = parser::module(src, ModuleKind::Lib).map_err(|es| format!("{:?}", es.first().map(|e| &e.kind)))?;
    // imports are a set (the formatter sorts them): rendered first, sorted; everything else in order
    let mut uses: Vec<String> = vec![];
    let mut rest: Vec<String> = vec![];
    for d in &module.definitions {
        let text = erase_spans(&format!("{:#?}", d));
        if matches!(d, aiken_lang::ast::Definition::Use(_)) {
            // imports carry further bare byte offsets (one number per line)
            let text = text.lines().filter(|l| !l.trim().trim_end_matches(',').chars().all(|c| c.is_ascii_digit()) || l.trim().is_empty()).collect::<Vec<_>>().join("\n");
            uses.push(text);
        } else {
            rest.push(text);
        }
    }
    uses.sort();
    let ast = uses.into_iter().chain(rest).collect::<Vec<_>>().join("\n");
    let mut spans: Vec<_> = extra.comments.iter().chain(extra.doc_comments.iter()).chain(extra.module_comments.iter()).cloned().collect();
    spans.sort_by_key(|s| s.start);
    let comments = spans.iter().map(|s| src.get(s.start..s.end).unwrap_or("").trim().to_string()).collect();
    Ok(Parsed { ast, comments, module, extra })
}

pub fn format(p: Parsed, src: &str) -> String {
    let mut out = String::new();
    aiken_lang::format::pretty(&mut out, p.module, p.extra, src);
    out
}

#[derive(Default)]
pub struct Local {
    pub cases: u64,
    pub parsed: u64,
    pub changed_by_formatter: u64,
    pub rejected: u64,
    pub violations: Vec<Violation>,
    pub per_class: BTreeMap<String, u64>,
}

/// the C13 relation on one source; returns false when the source itself does not parse
pub fn check_source(src: &str, class: &str, l: &mut Local) -> bool {
    check_source_with(src, None, class, l)
}

/// `reference`: a source text that denotes the same program by the language's definition
/// and that the formatter is allowed to rewrite `src` into (`x |> f(_, a)` and `x |> f(a)`:
/// an unlabelled hole in first position is what a pipe fills anyway, but the two parse to
/// different trees).  The formatted text must then parse to the reference's tree.
pub fn check_source_with(src: &str, reference: Option<&str>, class: &str, l: &mut Local) -> bool {
    l.cases += 1;
    let case = json!({"engine":"c13","class":class,"source":src,"reference":reference});
    let r = guarded(|| {
        let a = parse(src)?;
        let (mut a_ast, a_comments) = (a.ast.clone(), a.comments.clone());
        if let Some(r) = reference {
            a_ast = parse(r)?.ast;
        }
        let out = format(a, src);
        Ok::<_, String>((a_ast, a_comments, out))
    });
    let (a_ast, a_comments, out) = match r {
        Ok(Ok(x)) => x,
        Ok(Err(_)) => {
            l.rejected += 1;
            return false;
        }
        Err(p) => {
            l.violations.push(Violation { signature: format!("panic|parse-or-format|{}|{class}", vcore::evid::panic_site_file(&p)), what: format!("parsing or formatting panicked: {p}\n{src}"), case });
            return true;
        }
    };
    l.parsed += 1;
    *l.per_class.entry(class.to_string()).or_default() += 1;
    if out != src {
        l.changed_by_formatter += 1;
    }
    let b = match guarded(|| parse(&out)) {
        Ok(Ok(b)) => b,
        Ok(Err(e)) => {
            l.violations.push(Violation { signature: format!("formatted-output-does-not-parse|{class}"), what: format!("the formatter's output does not parse ({e}):\n--- source\n{src}\n--- formatted\n{out}"), case });
            return true;
        }
        Err(p) => {
            l.violations.push(Violation { signature: format!("panic|parse-formatted|{class}"), what: format!("parsing the formatter's output panicked: {p}\n{out}"), case });
            return true;
        }
    };
    if b.ast != a_ast {
        let (x, y): (Vec<&str>, Vec<&str>) = (a_ast.lines().collect(), b.ast.lines().collect());
        let d = x.iter().zip(y.iter()).position(|(p, q)| p != q).unwrap_or(x.len().min(y.len()));
        l.violations.push(Violation {
            signature: format!("formatting-changes-the-program|{class}"),
            what: format!("the formatted text parses to a different program (first difference at AST line {d}: `{}` vs `{}`):\n--- source\n{src}\n--- formatted\n{out}", x.get(d).unwrap_or(&"").trim(), y.get(d).unwrap_or(&"").trim()),
            case,
        });
        return true;
    }
    if b.comments != a_comments {
        let (mut x, mut y) = (a_comments.clone(), b.comments.clone());
        x.sort();
        y.sort();
        // all comments kept but in another order: the one known way is a regular comment
        // written between a doc comment and the definition / constructor / field it documents
        let lines: Vec<&str> = src.lines().map(|l| l.trim_start()).collect();
        let after_doc = lines.windows(2).any(|w| w[0].starts_with("///") && !w[0].starts_with("////") && w[1].starts_with("//") && !w[1].starts_with("///"));
        let signature = if x == y && after_doc { "comments-reordered|a regular comment between a doc comment and the item it documents".to_string() } else if x == y { format!("comments-reordered|{class}") } else { format!("comments-changed|{class}") };
        l.violations.push(Violation {
            signature,
            what: format!("comments before formatting {:?}, after {:?}:\n--- source\n{src}\n--- formatted\n{out}", a_comments, b.comments),
            case,
        });
        return true;
    }
    match guarded(|| format(b, &out)) {
        Ok(out2) if out2 == out => {}
        Ok(out2) => l.violations.push(Violation {
            signature: {
                let first_diff = out.lines().zip(out2.lines()).find(|(a, b)| a != b).map(|(a, _)| a).unwrap_or("");
                if first_diff.contains("{//") {
                    "formatter-not-idempotent|a comment is glued to an opening brace by the first pass".to_string()
                } else {
                    format!("formatter-not-idempotent|{class}")
                }
            },
            what: format!("formatting the formatter's output changes it again:\n--- first\n{out}\n--- second\n{out2}"),
            case,
        }),
        Err(p) => l.violations.push(Violation { signature: format!("panic|format-twice|{class}"), what: format!("{p}"), case }),
    }
    true
}

/// coarse class of a token (input class of a mid-line comment insertion)
fn token_class(t: &parser::token::Token) -> &'static str {
    use parser::token::Token::*;
    match t {
        Name { .. } | UpName { .. } | DiscardName { .. } => "name",
        Int { .. } | ByteString { .. } | String { .. } | Ordinal { .. } => "literal",
        LeftParen | NewLineLeftParen | LeftSquare | LeftBrace => "open",
        RightParen | RightSquare | RightBrace => "close",
        Comma => "comma",
        Colon => "colon",
        Dot | DotDot => "dot",
        Equal => "equal",
        RArrow | LArrow => "arrow",
        Pipe | NewLinePipe => "pipe",
        Plus | Minus | NewLineMinus | Star | Slash | Less | Greater | LessEqual | GreaterEqual | Percent | EqualEqual | NotEqual | VbarVbar | AmperAmper | Vbar | Bang | Question | At | Hash => "operator",
        As | Const | Fn | If | Else | Fail | Once | Expect | Is | Let | Opaque | Pub | Use | Test | Todo | Type | When | Trace | Validator | Via | And | Or | Benchmark => "keyword",
        _ => "other",
    }
}

// ---------------------------------------------------------------------------------------
// inputs

pub fn corpus() -> Vec<(String, String)> {
    let mut files = vec![];
    let mut stack = vec![std::path::PathBuf::from("/repo/examples"), std::path::PathBuf::from("/repo/crates/aiken-project/templates"), std::path::PathBuf::from("/repo/benchmarks")];
    while let Some(d) = stack.pop() {
        let Ok(rd) = std::fs::read_dir(&d) else { continue };
        for e in rd.flatten() {
            let p = e.path();
            if p.is_dir() {
                if p.file_name().map(|n| n == "build" || n == "target").unwrap_or(false) {
                    continue;
                }
                stack.push(p);
            } else if p.extension().and_then(|x| x.to_str()) == Some("ak") {
                if let Ok(s) = std::fs::read_to_string(&p) {
                    files.push((p.display().to_string(), s));
                }
            }
        }
    }
    files.sort();
    files
}

const BINOPS: [&str; 14] = ["+", "-", "*", "/", "%", "==", "!=", "<", "<=", ">", ">=", "&&", "||", "|>"];

/// operator nests: `a OP1 b OP2 c` with both groupings explicit and implicit, unary operators
fn operator_nests(depth: usize) -> Vec<String> {
    let atoms = ["a", "1", "f(b)"];
    let mut exprs: Vec<String> = vec![];
    for o1 in BINOPS {
        for o2 in BINOPS {
            exprs.push(format!("a {o1} b {o2} c"));
            exprs.push(format!("(a {o1} b) {o2} c"));
            exprs.push(format!("a {o1} (b {o2} c)"));
            exprs.push(format!("{{ a {o1} b }} {o2} c"));
            if depth >= 3 {
                for o3 in ["+", "*", "==", "&&", "|>", "-"] {
                    exprs.push(format!("a {o1} b {o2} c {o3} d"));
                    exprs.push(format!("a {o1} (b {o2} c) {o3} d"));
                    exprs.push(format!("(a {o1} b) {o2} (c {o3} d)"));
                    exprs.push(format!("a {o1} (b {o2} (c {o3} d))"));
                }
            }
        }
        for x in atoms {
            exprs.push(format!("-{x} {o1} b"));
            exprs.push(format!("!{x} {o1} b"));
            exprs.push(format!("a {o1} -{x}"));
            exprs.push(format!("a {o1} !{x}"));
            exprs.push(format!("-(a {o1} {x})"));
            exprs.push(format!("!(a {o1} {x})"));
            exprs.push(format!("(a {o1} {x})?"));
            exprs.push(format!("a {o1} {x}?"));
        }
    }
    exprs
}

fn contexts(e: &str) -> Vec<String> {
    vec![
        format!("fn t(a, b, c, d, f) {{\n  {e}\n}}\n"),
        format!("fn t(a, b, c, d, f) {{\n  let x = {e}\n  x\n}}\n"),
        format!("fn t(a, b, c, d, f) {{\n  if {e} {{\n    a\n  }} else {{\n    b\n  }}\n}}\n"),
        format!("fn t(a, b, c, d, f) {{\n  when {e} is {{\n    _ -> g({e}, [{e}])\n  }}\n}}\n"),
        format!("test t() {{\n  trace @\"x\": {e}\n  and {{\n    {e},\n    or {{\n      {e},\n    }},\n  }}\n}}\n"),
    ]
}

pub fn templates() -> Vec<(&'static str, String)> {
    let t = |c: &'static str, s: &str| (c, s.to_string());
    vec![
        t("record-constructor", "type Foo {\n  i: Int,\n  b: Bool,\n}\n\nfn f(x: Foo) {\n  when x is {\n    Foo { i: _, b: True } -> 1\n    Foo { i, b: False } -> i\n    Foo { .. } -> 2\n  }\n}\n"),
        t("record-constructor", "type Foo {\n  Foo { i: Int, b: Bool }\n  Bar(Int, Bool)\n}\n\nfn f() {\n  let a = Foo { i: 1, b: True }\n  let b = Foo(1, True)\n  let c = Bar(_, True)\n  let d = Foo { ..a, i: 2 }\n  (a, b, c(1), d)\n}\n"),
        t("patterns", "fn f(xs: List<(Int, Option<Int>)>) {\n  when xs is {\n    [] -> 0\n    [(a, Some(b)), ..] -> a + b\n    [(_, None) as p, ..rest] -> p.1st + f(rest)\n    [_, _] | [_, _, _] -> 2\n    _ -> 1\n  }\n}\n"),
        t("patterns", "fn f(x) {\n  expect Output {\n    address,\n    value: v,\n    datum,\n    ..\n  } = x\n  let Pair(k, Foo { a, b: _ }) = v\n  when datum is {\n    Some(Inline { data, .. }) -> data\n    Foo(p, q) | Bar(p, q) -> p\n    _ -> address\n  }\n}\n"),
        t("definitions", "/// Doc of f\nfn f() {\n  1\n}\n\n/// Doc of T\npub type T {\n  /// Doc of A\n  A\n  B {\n    /// Doc of x\n    x: Int,\n  }\n}\n"),
        t("literals", "const a = 0xFF\n\nconst b = 0b1010\n\nconst c = 0o17\n\nconst d = 1_000_000\n\nconst i = -5\n"),
        t("literals", "const e = #\"00ff\"\n\nconst f = \"utf8\"\n"),
        t("literals", "const g = #[1, 2, 255]\n\nconst g3 = #[0xff, 0x00]\n"),
        t("literals", "const h = @\"st\\\"r\\n\"\n\nconst h2 = @\"\"\n"),
        t("literals", "const j = #<Bls12_381, G1>\"97f1d3a73197d7942695638c4fa9ac0fc3688c4f9774b905a14e3a3f171bac586c55e83ff97a1aeffb3af00adb22c6bb\"\n"),
        t("definitions", "use aiken/builtin.{add_integer as add, head_list}\nuse aiken/builtin as b\n\npub opaque type Id {\n  Id(Int)\n}\n\npub type Pairs<k, v> =\n  List<Pair<k, v>>\n\npub type Tree<a> {\n  Leaf\n  Node { left: Tree<a>, value: a, right: Tree<a> }\n}\n\npub const zero: Int = 0\n\npub fn id(x: a) -> a {\n  x\n}\n\nfn g(f: fn(Int) -> Int, Id(x): Id) -> Int {\n  x |> f |> add(1) |> b.add_integer(2, _)\n}\n"),
        t("validator", "validator v(p: Int, q: ByteArray) {\n  spend(d: Option<Int>, r: Int, _o: Data, _tx: Data) {\n    expect Some(x) = d\n    x + r == p\n  }\n\n  mint(_r: Data, _p: ByteArray, _tx: Data) {\n    q == #\"\"\n  }\n\n  else(_) {\n    fail\n  }\n}\n"),
        t("tests", "test a() {\n  True\n}\n\ntest b() fail {\n  False\n}\n\ntest c(x via f()) fail once {\n  x > 0\n}\n\ntest d((a, b) via both(f(), g(1))) {\n  a == b\n}\n\nbench e(x via s()) {\n  x\n}\n"),
        t("control-flow", "fn f(x: Data, y: Option<Int>) {\n  if x is Int {\n    x\n  } else if x is Foo { a, .. }: Foo {\n    a\n  } else {\n    expect Some(z) = y\n    expect z > 0\n    let w <- g(z)\n    trace @\"msg\"\n    trace @\"a\": z, w\n    todo @\"later\"\n  }\n}\n"),
        t("control-flow", "fn f(a, b) {\n  let x = {\n    let y = a\n    y + b\n  }\n  let f = fn(z) { z + x }\n  let g = fn(z: Int) -> Int {\n    let q = z\n    q\n  }\n  fail @\"no\"\n}\n"),
        t("tuples-pairs-lists", "fn f(t: (Int, Bool, ByteArray), p: Pair<Int, Int>, xs: List<Int>) {\n  let (a, _, _) = t\n  let Pair(k, v) = p\n  [a, k, v, ..xs] |> g([], _) |> h(t.1st, t.3rd, p.2nd)\n}\n"),
    ]
}


/// Shape families: the formatter chooses between several spellings of calls, constructor
/// applications, captures, constructor patterns and soft casts depending on the *shape* of
/// the arguments (labelled or not, a hole, a "breakable" last argument, punned fields, a
/// spread, an implicit pattern).  Every combination of those shape features is written out;
/// the parser decides which are programs.
pub fn shape_families(tier: Tier) -> Vec<(&'static str, String, Option<String>)> {
    let mut out: Vec<(&'static str, String)> = vec![];
    let mut refs: std::collections::HashMap<String, String> = std::collections::HashMap::new();
    let decl = "type Foo {\n  a: Int,\n  b: List<Int>,\n  c: Int,\n}\n\nfn foo(a: Int, b: List<Int>, c: Int) {\n  a + c\n}\n\n";
    // (1) calls / constructor applications / captures
    let values = ["_", "1", "x", "[1, 2]", "(1, 2)", "fn(z) { z }", "Some(x)", "{\n    let q = 1\n    q\n  }"];
    let labels = ["", "a: ", "b: ", "c: "];
    let mut arglists: Vec<Vec<String>> = vec![];
    let single: Vec<String> = labels.iter().flat_map(|l| values.iter().map(move |v| format!("{l}{v}"))).collect();
    for a in &single {
        arglists.push(vec![a.clone()]);
        for b in &single {
            arglists.push(vec![a.clone(), b.clone()]);
        }
    }
    if tier == Tier::Thorough {
        for a in &single {
            for b in &single {
                for c in &single {
                    arglists.push(vec![a.clone(), b.clone(), c.clone()]);
                }
            }
        }
    } else {
        // three arguments: every label pattern, values restricted to hole / atom / list
        let small: Vec<String> = labels.iter().flat_map(|l| ["_", "x", "[1, 2]"].iter().map(move |v| format!("{l}{v}"))).collect();
        for a in &small {
            for b in &small {
                for c in &small {
                    arglists.push(vec![a.clone(), b.clone(), c.clone()]);
                }
            }
        }
    }
    for args in &arglists {
        // no label twice
        let ls: Vec<&str> = args.iter().filter_map(|a| a.split_once(": ").map(|(l, _)| l)).filter(|l| l.len() == 1).collect();
        if (1..ls.len()).any(|i| ls[..i].contains(&ls[i])) {
            continue;
        }
        let joined = args.join(", ");
        out.push(("call-shape", format!("{decl}fn f(x: Int) {{\n  foo({joined})\n}}\n")));
        out.push(("constructor-shape", format!("{decl}fn f(x: Int) {{\n  Foo({joined})\n}}\n")));
        if args.iter().all(|a| a.contains(": ") && !a.starts_with("fn(")) {
            out.push(("constructor-shape", format!("{decl}fn f(x: Int) {{\n  Foo {{ {joined} }}\n}}\n")));
        }
        let piped = format!("{decl}fn f(x: Int) {{\n  x |> foo({joined})\n}}\n");
        if args[0] == "_" && args.iter().filter(|a| a.ends_with('_') && (a.len() == 1 || a.ends_with(": _"))).count() == 1 {
            // the only hole, unlabelled and first: what the pipe fills anyway; the formatter may
            // (and does) drop it
            let rest = if args.len() == 1 { String::new() } else { format!("({})", args[1..].join(", ")) };
            refs.insert(piped.clone(), format!("{decl}fn f(x: Int) {{\n  x |> foo{rest}\n}}\n"));
        }
        out.push(("pipe-shape", piped));
    }
    // (2) constructor patterns
    let field_pats = |l: &str| -> Vec<String> { vec![String::new(), l.to_string(), format!("{l}: _"), format!("{l}: y{l}"), format!("{l}: 1"), format!("{l}: []"), format!("{l}: Some(z{l})")] };
    let mut pats: Vec<String> = vec!["Foo { .. }".into(), "Foo(..)".into(), "Foo(_, _, _)".into(), "Foo(p, [], 1)".into(), "Foo(_, [h, ..], _)".into(), "Foo(1, ..)".into(), "Foo(p, ..)".into()];
    for fa in field_pats("a") {
        for fb in field_pats("b") {
            for fc in field_pats("c") {
                let fs: Vec<&String> = [&fa, &fb, &fc].into_iter().filter(|f| !f.is_empty()).collect();
                if fs.is_empty() {
                    continue;
                }
                let body = fs.iter().map(|f| f.as_str()).collect::<Vec<_>>().join(", ");
                if fs.len() == 3 {
                    pats.push(format!("Foo {{ {body} }}"));
                }
                pats.push(format!("Foo {{ {body}, .. }}"));
                if tier == Tier::Thorough {
                    let rev = fs.iter().rev().map(|f| f.as_str()).collect::<Vec<_>>().join(", ");
                    pats.push(format!("Foo {{ {rev}, .. }}"));
                }
            }
        }
    }
    for p in &pats {
        out.push(("pattern-shape", format!("{decl}fn f(x: Foo) {{\n  when x is {{\n    {p} -> 1\n    _ -> 2\n  }}\n}}\n")));
        out.push(("pattern-shape", format!("{decl}fn f(x: Foo) {{\n  expect {p} = x\n  1\n}}\n")));
        out.push(("pattern-shape", format!("{decl}fn f(x: Foo) {{\n  let {p} = x\n  1\n}}\n")));
        out.push(("pattern-shape", format!("{decl}fn f(x: Data) {{\n  if x is {p}: Foo {{\n    1\n  }} else {{\n    2\n  }}\n}}\n")));
        out.push(("pattern-shape", format!("{decl}fn f(xs: List<Foo>) {{\n  when xs is {{\n    [{p}, ..] | [_, {p}] -> 1\n    _ -> 2\n  }}\n}}\n")));
    }
    // (2b) literal patterns in every notation, at the top and nested
    for lit in ["0", "1", "-1", "42", "-42", "0xFF", "0xff", "-0x10", "0b101", "-0b1", "0o17", "1_000", "-1_000_000", "-100_000", "100_000", "-0xFF", "#\"00ff\"", "\"utf8\"", "#[1, 2]"] {
        for shape in ["@", "Some(@)", "[@, ..]", "(@, _)", "Pair(_, @)", "Foo { a: @, .. }", "@ | 7"] {
            let p = shape.replace('@', lit);
            out.push(("pattern-shape", format!("{decl}fn f(x) {{\n  when x is {{\n    {p} -> 1\n    _ -> 2\n  }}\n}}\n")));
            out.push(("pattern-shape", format!("{decl}fn f(x) {{\n  expect {p} = x\n  1\n}}\n")));
        }
    }
    // (3) soft casts: subject x pattern x annotation, in first and in `else if` position
    let subjects = ["x", "g(x)", "x.a", "(x)"];
    let soft_pats = ["", "_", "_y", "y", "x", "Foo { a, .. }", "Foo { a: _, .. }", "Some(z)", "(p, q)", "[h, ..]"];
    let annots = ["", ": Foo", ": Option<Int>", ": Data"];
    for sj in subjects {
        for pt in soft_pats {
            for an in annots {
                let is = match (pt, an) {
                    ("", "") => continue,
                    ("", a) => a[2..].to_string(),
                    (p, a) => format!("{p}{a}"),
                };
                out.push(("soft-cast-shape", format!("{decl}fn f(x: Data, w: Data) {{\n  if {sj} is {is} {{\n    1\n  }} else {{\n    2\n  }}\n}}\n")));
                out.push(("soft-cast-shape", format!("{decl}fn f(x: Data, w: Data) {{\n  if w is Int {{\n    0\n  }} else if {sj} is {is} {{\n    1\n  }} else {{\n    2\n  }}\n}}\n")));
            }
        }
    }
    // (4) assignments: let / expect x (annotation | none) x (var | discard | pattern), `<-` backpassing
    for kw in ["let", "expect"] {
        for pt in ["y", "_", "_y", "Some(y)", "(y, _)", "[y, ..]", "Foo { a, .. }"] {
            for an in ["", ": Int", ": Option<Int>", ": Foo"] {
                for rhs in ["x", "g(x)", "{\n    let q = x\n    q\n  }", "if x {\n    1\n  } else {\n    2\n  }", "when x is {\n    _ -> 1\n  }"] {
                    out.push(("assignment-shape", format!("{decl}fn f(x) {{\n  {kw} {pt}{an} = {rhs}\n  1\n}}\n")));
                }
                out.push(("assignment-shape", format!("{decl}fn f(x) {{\n  {kw} {pt}{an} <- g(x)\n  1\n}}\n")));
            }
        }
    }
    out.into_iter().map(|(c, s)| {
        let r = refs.get(&s).cloned();
        (c, s, r)
    }).collect()
}

// ---------------------------------------------------------------------------------------

pub fn run(tier: Tier, replay: Option<String>) -> i32 {
    if let Some(p) = replay {
        let doc: serde_json::Value = serde_json::from_str(&std::fs::read_to_string(&p).expect("read")).expect("json");
        let mut l = Local::default();
        check_source_with(doc["case"]["source"].as_str().unwrap_or(""), doc["case"]["reference"].as_str(), "replay", &mut l);
        for v in &l.violations {
            println!("VIOLATION property=C13 replay={p}\n  {}", v.what);
        }
        if l.violations.is_empty() {
            println!("no violation on replay");
        }
        return if l.violations.is_empty() { 0 } else { 1 };
    }
    let mut run = Run::new("C13", tier);
    let mut items: Vec<(String, String)> = vec![];
    let files = corpus();
    for (_, src) in &files {
        items.push(("shipped-file".into(), src.clone()));
    }
    let depth = if tier == Tier::Quick { 2 } else { 3 };
    let nests = operator_nests(depth);
    for e in &nests {
        for (k, s) in contexts(e).into_iter().enumerate() {
            items.push((format!("operator-nest:context{k}"), s));
        }
    }
    let tpls = templates();
    for (c, s) in &tpls {
        items.push((c.to_string(), s.clone()));
    }
    let shapes = shape_families(tier);
    let n_shapes = shapes.len();
    let mut references: std::collections::HashMap<String, String> = std::collections::HashMap::new();
    for (c, s, r) in shapes {
        if let Some(r) = r {
            references.insert(s.clone(), r);
        }
        items.push((c.to_string(), s));
    }
    // comments at every token gap of the templates and of the smaller shipped files
    let mut comment_sources: Vec<String> = tpls.iter().map(|(_, s)| s.clone()).collect();
    comment_sources.extend(files.iter().filter(|(_, s)| s.len() < if tier == Tier::Quick { 700 } else { 2500 }).map(|(_, s)| s.clone()));
    let mut gaps = 0u64;
    for src in &comment_sources {
        let Ok(base) = parse(src) else { continue };
        let Ok(lex) = parser::lexer::run(src) else { continue };
        // only sources that satisfy the relation without the extra comment
        let mut probe = Local::default();
        check_source(src, "probe", &mut probe);
        if !probe.violations.is_empty() {
            continue;
        }
        // candidate insertion points: (byte offset, class, text to insert)
        let mut points: Vec<(usize, String, String)> = vec![];
        let mut line_start = 0usize;
        for line in src.split_inclusive('\n') {
            let indent = line.len() - line.trim_start().len();
            if !line.trim().is_empty() {
                // a comment on its own line, before this line.  A doc comment documents the
                // definition that follows it and a module comment opens the file: they are only
                // inserted where the language gives them that meaning.
                let first = line.trim_start().split(|c: char| !c.is_alphanumeric() && c != '_').next().unwrap_or("");
                let starts_definition = indent == 0 && ["fn", "pub", "type", "const", "test", "validator", "opaque", "bench"].contains(&first);
                for kind in ["// c0", "/// d0", "//// m0"] {
                    if (kind.starts_with("/// ") && !starts_definition) || (kind.starts_with("////") && line_start != 0) {
                        continue;
                    }
                    points.push((line_start, format!("comment-on-its-own-line:{}", kind.split(' ').next().unwrap()), format!("{}{}\n", &line[..indent], kind)));
                }
                // a trailing comment at the end of this line
                let end = line_start + line.trim_end_matches('\n').len();
                points.push((end, "comment-at-end-of-line://".to_string(), " // c0".to_string()));
            }
            line_start += line.len();
        }
        let mut seen = HashSet::new();
        for (k, (_, span)) in lex.tokens.iter().enumerate() {
            let at = span.start;
            if at == 0 || at > src.len() || !src.is_char_boundary(at) || !seen.insert(at) {
                continue;
            }
            // mid-line gaps only (line starts are covered above)
            if src[..at].trim_end_matches(' ').ends_with('\n') {
                continue;
            }
            let prev = lex.tokens.get(k.wrapping_sub(1)).map(|(t, _)| token_class(t)).unwrap_or("start");
            let next = token_class(&lex.tokens[k].0);
            let _ = (prev, next);
            points.push((at, "comment-in-a-mid-line-gap://".to_string(), "// c0\n".to_string()));
        }
        for (at, class, text) in points {
            let s2 = format!("{}{}{}", &src[..at], text, &src[at..]);
            // keep the insertion only when it does not itself change the parsed program
            match guarded(|| parse(&s2)) {
                Ok(Ok(p2)) if p2.ast == base.ast && p2.comments.len() == base.comments.len() + 1 => {
                    gaps += 1;
                    items.push((class, s2));
                }
                _ => {}
            }
        }
    }
    let cap = Some(Duration::from_secs(if tier == Tier::Quick { 45 } else { 1500 }));
    let out = par_indices(items.len() as u64, 16, cap, |_| Local::default(), |l, i| {
        let (c, s) = &items[i as usize];
        if !check_source_with(s, references.get(s).map(|r| r.as_str()), c, l) && !c.starts_with("operator-nest") && !c.ends_with("-shape") && c != "shipped-file" {
            l.violations.push(Violation { signature: format!("input-does-not-parse|{c}"), what: format!("machinery: a template / shipped file does not parse:\n{}", s.chars().take(400).collect::<String>()), case: json!({"engine":"c13","source":s}) });
        }
    }, |l| l);
    let mut t = Local::default();
    for l in out.results {
        t.cases += l.cases;
        t.parsed += l.parsed;
        t.rejected += l.rejected;
        t.changed_by_formatter += l.changed_by_formatter;
        for (k, v) in l.per_class {
            *t.per_class.entry(k).or_default() += v;
        }
        for v in l.violations {
            if v.signature.starts_with("input-does-not-parse") {
                run.machinery_error(v.what.clone());
            } else {
                run.violation(v);
            }
        }
    }
    if out.capped {
        run.cap_hit(&format!("wall cap: {} of {} sources", out.done, items.len()));
    }
    run.sample(json!({"class":"operator-nest","source":contexts("a - (b - c)")[0]}));
    run.sample(json!({"class":"comment-at-token-gap","source":items.last().map(|x| x.1.chars().take(200).collect::<String>())}));
    run.set("shipped_files", files.len() as u64);
    run.set("operator_nest_expressions", nests.len() as u64);
    run.set("templates", tpls.len() as u64);
    run.set("shape_family_sources", n_shapes as u64);
    run.set("comment_insertions_kept", gaps);
    run.set("sources", items.len() as u64);
    run.set("sources_parsed", t.parsed);
    run.set("sources_rejected_by_the_parser", t.rejected);
    run.set("sources_changed_by_the_formatter", t.changed_by_formatter);
    run.set("per_class", json!(t.per_class));
    run.set("states", t.parsed);
    run.set("transitions", t.parsed * 3);
    run.set("traces_validated_against_impl", t.parsed);
    run.set("evaluations", t.cases);
    run.set("distinct_nontrivial", t.changed_by_formatter);
    run.set("rule", "shipped .ak files; every binary operator pair (x unary operators, `?`) in every explicit and implicit grouping to depth 2 (3 thorough) in 5 expression contexts; constructor / pattern / literal / definition / validator / test / control-flow templates; shape families (calls, constructor applications, captures and pipes over every label pattern x {hole, atom, list, tuple, lambda, block} arguments; constructor patterns over every punned/labelled/discarded/spread field combination in when/let/expect/soft-cast/alternative positions; soft casts over subject x pattern x annotation; assignments over keyword x pattern x annotation x right-hand side) - the parser decides which are programs; every token gap of the templates and small shipped files x 3 comment kinds (kept when the insertion leaves the parsed program unchanged); oracle: parse . format . parse == parse (span-erased AST), comments preserved in order, format idempotent; distinct_nontrivial = sources the formatter actually changed");
    run.assume("two programs are the same when the Debug rendering of their definitions is equal after erasing source spans");
    if t.parsed < 500 || t.changed_by_formatter == 0 {
        run.machinery_error("vacuous: fewer than 500 sources parsed or the formatter never changed anything");
    }
    run.finish()
}

// ---------------------------------------------------------------------------------------
// C20, Aiken front end: token deletion / duplication / neighbour swap on the corpus

pub fn c20_part(run: &mut Run, tier: Tier) {
    let files = corpus();
    let tpls = templates();
    let mut sources: Vec<String> = tpls.iter().map(|(_, s)| s.clone()).collect();
    sources.extend(files.iter().filter(|(_, s)| s.len() < if tier == Tier::Quick { 1200 } else { 20_000 }).map(|(_, s)| s.clone()));
    let mut items: Vec<String> = vec![];
    for src in &sources {
        let Ok(lex) = parser::lexer::run(src) else { continue };
        let spans: Vec<(usize, usize)> = lex.tokens.iter().map(|(_, s)| (s.start, s.end)).filter(|(a, b)| a < b && *b <= src.len() && src.is_char_boundary(*a) && src.is_char_boundary(*b)).collect();
        for (i, (a, b)) in spans.iter().enumerate() {
            items.push(format!("{}{}", &src[..*a], &src[*b..]));
            items.push(format!("{}{} {}", &src[..*b], &src[*a..*b], &src[*b..]));
            if let Some((c, d)) = spans.get(i + 1) {
                if b <= c {
                    items.push(format!("{}{}{}{}{}", &src[..*a], &src[*c..*d], &src[*b..*c], &src[*a..*b], &src[*d..]));
                }
            }
        }
        // truncations at every token boundary
        for (a, _) in &spans {
            items.push(src[..*a].to_string());
        }
    }
    // raw character soup
    for s in ["\"", "@\"", "#\"0", "#[", "0x", "0b2", "'", "\\", "\u{0}", "/*", "////", "fn", "fn (", "type T {", "validator {", "test t(x via", "use a/", "1..", "a.1st.", "<-", "|>", "\u{feff}fn f() { 1 }", "fn f() { \"\\x\" }", "fn f() { 999999999999999999999999999999999999999999999999 }", "fn f() { #\"zz\" }", "fn f() { @\"\\u{110000}\" }"] {
        items.push(s.to_string());
    }
    let cap = Some(Duration::from_secs(if tier == Tier::Quick { 25 } else { 900 }));
    let out = par_indices(items.len() as u64, 32, cap, |_| (0u64, 0u64, Vec::<Violation>::new()), |(acc, rej, vs), i| {
        let s = &items[i as usize];
        for kind in [ModuleKind::Lib, ModuleKind::Validator] {
            let r = guarded(|| match parser::module(s, kind) {
                Ok((m, extra)) => {
                    let mut out = String::new();
                    aiken_lang::format::pretty(&mut out, m, extra, s);
                    true
                }
                Err(_) => false,
            });
            match r {
                Ok(true) => *acc += 1,
                Ok(false) => *rej += 1,
                Err(p) => {
                    if vs.len() < 100 {
                        vs.push(Violation {
                            signature: format!("panic|aiken-parser-or-formatter|{}", vcore::evid::panic_site_file(&p)),
                            what: format!("parsing / formatting this text panicked: {p}\n{}", s.chars().take(500).collect::<String>()),
                            case: json!({"engine":"c20-aiken","source":s}),
                        });
                    }
                }
            }
        }
    }, |x| x);
    let (mut acc, mut rej) = (0u64, 0u64);
    for (a, r, vs) in out.results {
        acc += a;
        rej += r;
        run.violations_extend(vs);
    }
    if out.capped {
        run.cap_hit("wall cap in the Aiken parser/formatter part");
    }
    run.add("cases", items.len() as u64 * 2);
    run.set("aiken_front_end_cases", items.len() as u64 * 2);
    run.set("aiken_front_end_accepted", acc);
    run.set("aiken_front_end_rejected", rej);
    if acc == 0 || rej == 0 {
        run.machinery_error("vacuous: the Aiken mutation ball was accepted or rejected 100%");
    }
}
