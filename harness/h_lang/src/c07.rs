//! C07 – pattern matching: exhaustive when accepted, first-match when run.
//!
//! For each scrutinee type, every sequence of clauses (length <= 2 quick / 3 thorough) over
//! all patterns of depth <= 2 is given to the real type checker; a brute-force matcher over
//! a value universe that is complete for the patterns' distinguishing power is the oracle:
//!   accepted            => every value is matched by some clause
//!   RedundantMatchClause (clause i) => no value reaches clause i
//!   NotExhaustivePatternMatch       => some value is matched by no clause
//!   accepted            => the compiled `when` returns, for every value, the index of the
//!                          first clause that matches it.

use crate::ak::*;
use crate::driver::{Proj, MODULE_NAME};
use crate::engine::{run_program, silent, Ran};
use aiken_lang::ast::ModuleKind;
use aiken_lang::tipo::error::Error as TypeError;
use num_bigint::BigInt;
use serde_json::json;
use std::collections::BTreeMap;
use std::rc::Rc;
use std::time::Duration;
use uplc::ast::{Constant, Term};
use vcore::evid::{guarded, Run, Tier, Violation};
use vcore::par::par_indices;

fn opt(t: Ty) -> Ty {
    Ty::Opt(Rc::new(t))
}

pub fn scrutinee_types(tier: Tier) -> Vec<Ty> {
    let mut v = vec![
        Ty::Bool,
        Ty::Adt("Color"),
        opt(Ty::Bool),
        Ty::Tuple(vec![Ty::Bool, Ty::Bool]),
        Ty::List(Rc::new(Ty::Bool)),
        Ty::Int,
        Ty::Adt("Shape"),
        opt(Ty::Adt("Color")),
        Ty::Tuple(vec![Ty::Adt("Color"), opt(Ty::Bool)]),
        Ty::Pair(Rc::new(Ty::Int), Rc::new(Ty::Bool)),
    ];
    if tier == Tier::Thorough {
        v.extend([Ty::Adt("Rec"), Ty::Adt("Tree"), opt(opt(Ty::Bool)), Ty::List(Rc::new(Ty::Int)), Ty::Pair(Rc::new(opt(Ty::Bool)), Rc::new(Ty::Int)), Ty::List(Rc::new(Ty::Pair(Rc::new(Ty::Bool), Rc::new(Ty::Bool)))), Ty::Tuple(vec![Ty::Int, Ty::Pair(Rc::new(Ty::Bool), Rc::new(Ty::Bool))])]);
    }
    v
}

/// patterns of a type; `depth` bounds the nesting, `reduced` restricts sub-patterns
fn pats(ty: &Ty, depth: usize, reduced: bool) -> Vec<Pat> {
    let mut out = vec![Pat::Discard];
    if !reduced {
        out.push(Pat::Var("v".into()));
    }
    match ty {
        Ty::Int => {
            out.push(Pat::Int(0));
            out.push(Pat::Int(1));
        }
        Ty::Bool => {
            out.push(Pat::Ctor(Ty::Bool, 0, vec![], false));
            out.push(Pat::Ctor(Ty::Bool, 1, vec![], false));
        }
        Ty::Opt(_) | Ty::Adt(_) => {
            for c in 0..ctor_count(ty) {
                let fts = ctor_fields(ty, c);
                if fts.is_empty() {
                    out.push(Pat::Ctor(ty.clone(), c, vec![], false));
                    continue;
                }
                if depth == 0 {
                    out.push(Pat::Ctor(ty.clone(), c, vec![], true));
                    continue;
                }
                let mut rows: Vec<Vec<Pat>> = vec![vec![]];
                for (_, ft) in &fts {
                    // a recursive field only gets wildcards (keeps the universe finite)
                    let sub = if ft == ty { vec![Pat::Discard] } else { pats(ft, depth - 1, true) };
                    rows = rows.into_iter().flat_map(|pre| sub.iter().map(move |p| [pre.as_slice(), &[p.clone()]].concat())).collect();
                }
                for r in rows {
                    out.push(Pat::Ctor(ty.clone(), c, r, false));
                }
                if !reduced {
                    out.push(Pat::Ctor(ty.clone(), c, vec![], true));
                }
            }
        }
        Ty::Tuple(ts) if depth > 0 => {
            let mut rows: Vec<Vec<Pat>> = vec![vec![]];
            for t in ts {
                let sub = pats(t, depth - 1, true);
                rows = rows.into_iter().flat_map(|pre| sub.iter().map(move |p| [pre.as_slice(), &[p.clone()]].concat())).collect();
            }
            out.extend(rows.into_iter().map(Pat::Tuple));
        }
        Ty::Pair(a, b) if depth > 0 => {
            for p in pats(a, depth - 1, true) {
                for q in pats(b, depth - 1, true) {
                    out.push(Pat::Pair(Box::new(p.clone()), Box::new(q)));
                }
            }
            if !reduced {
                // one component bound, the other refutable
                out.push(Pat::Pair(Box::new(Pat::Var("k".into())), Box::new(pats(b, 0, true).last().cloned().unwrap_or(Pat::Discard))));
                out.push(Pat::Pair(Box::new(pats(a, 0, true).last().cloned().unwrap_or(Pat::Discard)), Box::new(Pat::Var("k".into()))));
            }
        }
        Ty::List(e) if depth > 0 => {
            let sub = pats(e, depth - 1, true);
            out.push(Pat::List(vec![], None));
            for p in &sub {
                out.push(Pat::List(vec![p.clone()], None));
                out.push(Pat::List(vec![p.clone()], Some(None)));
                if !reduced {
                    out.push(Pat::List(vec![p.clone()], Some(Some("rest".into()))));
                }
            }
            if !reduced {
                for p in &sub {
                    for q in &sub {
                        out.push(Pat::List(vec![p.clone(), q.clone()], None));
                        out.push(Pat::List(vec![p.clone(), q.clone()], Some(None)));
                    }
                }
            }
        }
        _ => {}
    }
    if !reduced && out.len() > 3 {
        // `p as w` for the first structural pattern
        let p = out[2].clone();
        out.push(Pat::As(Box::new(p), "w".into()));
    }
    out
}

/// make variable names unique within one pattern
fn fresh(n: &mut usize, base: &str) -> String {
    *n += 1;
    format!("{base}{n}")
}

fn rename(p: &Pat, n: &mut usize) -> Pat {
    match p {
        Pat::Var(x) => Pat::Var(fresh(n, x)),
        Pat::As(q, x) => {
            let name = fresh(n, x);
            Pat::As(Box::new(rename(q, n)), name)
        }
        Pat::Ctor(t, c, ps, s) => Pat::Ctor(t.clone(), *c, ps.iter().map(|q| rename(q, n)).collect(), *s),
        Pat::Tuple(ps) => Pat::Tuple(ps.iter().map(|q| rename(q, n)).collect()),
        Pat::Pair(a, b) => Pat::Pair(Box::new(rename(a, n)), Box::new(rename(b, n))),
        Pat::List(ps, tail) => {
            let ps2 = ps.iter().map(|q| rename(q, n)).collect();
            let tail2 = match tail {
                Some(Some(x)) => Some(Some(fresh(n, x))),
                other => other.clone(),
            };
            Pat::List(ps2, tail2)
        }
        other => other.clone(),
    }
}

/// value universe, complete for patterns of depth <= 2 (lists one longer than any pattern)
pub fn value_universe(ty: &Ty, depth: usize) -> Vec<Val> {
    let i = |n: i64| Val::Int(BigInt::from(n));
    match ty {
        Ty::Int => vec![i(0), i(1), i(2)],
        Ty::Bool => vec![Val::Bool(false), Val::Bool(true)],
        Ty::List(e) => {
            let u = value_universe(e, depth.saturating_sub(1));
            let mut out = vec![Val::List(vec![])];
            let mut cur: Vec<Vec<Val>> = vec![vec![]];
            for _ in 0..3 {
                cur = cur.into_iter().flat_map(|pre| u.iter().map(move |x| [pre.as_slice(), &[x.clone()]].concat())).collect();
                out.extend(cur.iter().cloned().map(Val::List));
            }
            out
        }
        Ty::Tuple(ts) => {
            let mut rows: Vec<Vec<Val>> = vec![vec![]];
            for t in ts {
                let u = value_universe(t, depth.saturating_sub(1));
                rows = rows.into_iter().flat_map(|pre| u.iter().map(move |x| [pre.as_slice(), &[x.clone()]].concat())).collect();
            }
            rows.into_iter().map(Val::Tuple).collect()
        }
        Ty::Pair(a, b) => {
            let (ua, ub) = (value_universe(a, depth.saturating_sub(1)), value_universe(b, depth.saturating_sub(1)));
            ua.iter().flat_map(|x| ub.iter().map(move |y| Val::Pair(Box::new(x.clone()), Box::new(y.clone())))).collect()
        }
        Ty::Opt(_) | Ty::Adt(_) => {
            let mut out = vec![];
            for c in 0..ctor_count(ty) {
                let fts = ctor_fields(ty, c);
                if !fts.is_empty() && depth == 0 {
                    continue;
                }
                let mut rows: Vec<Vec<Val>> = vec![vec![]];
                for (_, ft) in &fts {
                    let u = value_universe(ft, depth - 1);
                    rows = rows.into_iter().flat_map(|pre| u.iter().map(move |x| [pre.as_slice(), &[x.clone()]].concat())).collect();
                }
                out.extend(rows.into_iter().map(|fs| Val::Ctor(c, fs)));
            }
            out
        }
        Ty::Bytes => vec![Val::Bytes(vec![]), Val::Bytes(vec![0])],
        _ => vec![],
    }
}

fn type_prelude() -> String {
    adts().iter().map(|a| a.decl.to_string()).collect::<Vec<_>>().join("\n")
}

pub struct Candidate {
    pub ty: Ty,
    pub clauses: Vec<Pat>,
    /// binding family: every clause body returns a number made of the clause index and a
    /// digest of each variable the pattern binds (so a mis-bound variable is observable)
    pub bind: bool,
}

/// digest helpers (source); the prefix of a variable's name tells its type
const DIGESTS: &str = "fn d_i(x: Int) -> Int {\n  x + 1\n}\n\nfn d_b(x: Bool) -> Int {\n  if x {\n    2\n  } else {\n    1\n  }\n}\n\nfn d_o(x: Option<Int>) -> Int {\n  when x is {\n    None -> 0\n    Some(n) -> n + 1\n  }\n}\n\nfn d_l(xs: List<Int>) -> Int {\n  when xs is {\n    [] -> 0\n    [x, ..rest] -> x + 1 + 4 * d_l(rest)\n  }\n}\n";

fn digest(name: &str, v: &Val) -> BigInt {
    match (name.chars().next().unwrap_or(' '), v) {
        ('i', Val::Int(n)) => n + 1,
        ('b', Val::Bool(b)) => BigInt::from(if *b { 2 } else { 1 }),
        ('o', Val::Ctor(0, fs)) => match &fs[0] {
            Val::Int(n) => n + 1,
            _ => BigInt::from(0),
        },
        ('o', Val::Ctor(_, _)) => BigInt::from(0),
        ('l', Val::List(xs)) => xs.iter().rev().fold(BigInt::from(0), |acc, x| match x {
            Val::Int(n) => n + 1 + 4 * acc,
            _ => acc,
        }),
        _ => BigInt::from(0),
    }
}

fn pat_vars(p: &Pat, out: &mut Vec<String>) {
    match p {
        Pat::Var(x) => out.push(x.clone()),
        Pat::As(q, x) => {
            out.push(x.clone());
            pat_vars(q, out)
        }
        Pat::Ctor(_, _, ps, _) | Pat::Tuple(ps) => ps.iter().for_each(|q| pat_vars(q, out)),
        Pat::Pair(a, b) => {
            pat_vars(a, out);
            pat_vars(b, out)
        }
        Pat::List(ps, tail) => {
            ps.iter().for_each(|q| pat_vars(q, out));
            if let Some(Some(x)) = tail {
                out.push(x.clone())
            }
        }
        _ => {}
    }
}

fn digested(name: &str) -> bool {
    matches!(name.chars().next(), Some('i' | 'b' | 'o' | 'l')) && name.chars().nth(1).map(|c| c.is_ascii_digit()).unwrap_or(false)
}

/// what the clause `idx` must return for the value `v` (binding family)
fn expected_value(c: &Candidate, idx: usize, v: &Val) -> BigInt {
    if !c.bind {
        return BigInt::from(idx);
    }
    let mut binds = vec![];
    assert!(match_pat(&c.clauses[idx], v, &mut binds));
    let mut vars = vec![];
    pat_vars(&c.clauses[idx], &mut vars);
    let mut total = BigInt::from(idx) * 1_000_000;
    let mut w = BigInt::from(1);
    for name in vars.iter().filter(|n| digested(n)) {
        let val = binds.iter().find(|(n, _)| n == name).map(|(_, v)| v).expect("bound");
        total += digest(name, val) * &w;
        w *= 50;
    }
    total
}

fn body_of(c: &Candidate, idx: usize) -> String {
    if !c.bind {
        return idx.to_string();
    }
    let mut vars = vec![];
    pat_vars(&c.clauses[idx], &mut vars);
    let mut s = (idx * 1_000_000).to_string();
    let mut w: u64 = 1;
    for name in vars.iter().filter(|n| digested(n)) {
        s.push_str(&format!(" + d_{}({name}) * {w}", &name[..1]));
        w *= 50;
    }
    s
}

pub fn source_of(c: &Candidate) -> (String, Vec<(usize, usize)>) {
    let mut s = type_prelude();
    if c.bind {
        s.push('\n');
        s.push_str(DIGESTS);
    }
    s.push_str(&format!("\npub fn f0(x: {}) -> Int {{\n  when x is {{\n", show_ty(&c.ty)));
    let mut spans = vec![];
    for (i, p) in c.clauses.iter().enumerate() {
        s.push_str("    ");
        let a = s.len();
        s.push_str(&show_pat(p));
        spans.push((a, s.len()));
        s.push_str(&format!(" -> {}\n", body_of(c, i)));
    }
    s.push_str("  }\n}\n");
    (s, spans)
}

#[derive(Default)]
struct Local {
    candidates: u64,
    accepted: u64,
    redundant: u64,
    not_exhaustive: u64,
    other_errors: BTreeMap<String, u64>,
    evaluations: u64,
    clause_taken: BTreeMap<usize, u64>,
    violations: Vec<Violation>,
    samples: Vec<String>,
}

/// input class of a clause sequence (for signatures): the list-pattern configurations the
/// decision tree treats specially
fn sequence_class(clauses: &[Pat]) -> &'static str {
    fn strip(p: &Pat) -> &Pat {
        match p {
            Pat::As(q, _) => strip(q),
            other => other,
        }
    }
    let tails: Vec<(usize, usize)> = clauses
        .iter()
        .enumerate()
        .filter_map(|(i, p)| match strip(p) {
            Pat::List(ps, Some(_)) => Some((i, ps.len())),
            _ => None,
        })
        .collect();
    if tails.iter().any(|(i, n)| tails.iter().any(|(j, m)| i < j && n > m)) {
        "list patterns with a tail: a longer one before a shorter one"
    } else if !tails.is_empty() {
        "list patterns with a tail"
    } else {
        "no list pattern with a tail"
    }
}

fn first_match(clauses: &[Pat], v: &Val) -> Option<usize> {
    clauses.iter().position(|p| match_pat(p, v, &mut vec![]))
}

fn check_candidate(c: &Candidate, base: &Proj, l: &mut Local) {
    l.candidates += 1;
    let (src, spans) = source_of(c);
    let case = json!({"engine":"c07","type":show_ty(&c.ty),"source":src});
    let universe = value_universe(&c.ty, 3);
    let reach: Vec<usize> = (0..c.clauses.len()).map(|i| universe.iter().filter(|v| first_match(&c.clauses, v) == Some(i)).count()).collect();
    let unmatched: Vec<&Val> = universe.iter().filter(|v| first_match(&c.clauses, v).is_none()).collect();
    let tname = show_ty(&c.ty);
    let r = guarded(|| {
        let (mut ast, _) = aiken_lang::parser::module(&src, ModuleKind::Lib).map_err(|e| format!("parse: {:?}", e.first().map(|x| &x.kind)))?;
        ast.name = MODULE_NAME.to_string();
        let mut warnings = vec![];
        let mut p = base.clone();
        match ast.infer(&p.id_gen, ModuleKind::Lib, "test/project", &p.module_types, silent(), &mut warnings, None) {
            Ok(typed) => {
                typed.register_definitions(&mut p.functions, &mut p.constants, &mut p.data_types);
                p.module_types.insert(MODULE_NAME.to_string(), typed.type_info.clone());
                Ok(Ok((p, typed)))
            }
            Err(e) => Ok::<_, String>(Err(e)),
        }
    });
    match r {
        Err(p) => l.violations.push(Violation { signature: format!("panic|type-checker|{}", vcore::evid::panic_site_file(&p)), what: format!("checking this `when` panicked: {p}\n{src}"), case }),
        Ok(Err(e)) => {
            *l.other_errors.entry(e.chars().take(40).collect()).or_default() += 1;
        }
        Ok(Ok(Err(TypeError::RedundantMatchClause { redundant, .. }))) => {
            l.redundant += 1;
            // which clause was reported?
            let idx = spans.iter().position(|(a, b)| redundant.start >= *a && redundant.start < *b + 8);
            match idx {
                Some(i) if reach[i] > 0 => l.violations.push(Violation {
                    signature: format!("reachable-clause-reported-redundant|{tname}"),
                    what: format!("clause {i} (`{}`) is reported as redundant but {} value(s) of the universe reach it (e.g. {}):\n{src}", show_pat(&c.clauses[i]), reach[i], universe.iter().find(|v| first_match(&c.clauses, v) == Some(i)).map(crate::engine::show_val).unwrap_or_default()),
                    case,
                }),
                Some(_) => {}
                None => {
                    if l.samples.len() < 2 {
                        l.samples.push(format!("(redundant span {}..{} not located)\n{src}", redundant.start, redundant.end));
                    }
                }
            }
        }
        Ok(Ok(Err(TypeError::NotExhaustivePatternMatch { unmatched: reported, .. }))) => {
            l.not_exhaustive += 1;
            if unmatched.is_empty() {
                l.violations.push(Violation {
                    signature: format!("exhaustive-match-rejected|{tname}"),
                    what: format!("every value of the universe is matched by some clause, yet the checker reports the match as non-exhaustive (missing: {:?}):\n{src}", reported),
                    case,
                });
            }
        }
        Ok(Ok(Err(other))) => {
            *l.other_errors.entry(crate::driver::short_type_error(&other)).or_default() += 1;
        }
        Ok(Ok(Ok((proj, typed)))) => {
            l.accepted += 1;
            if let Some(v) = unmatched.first() {
                l.violations.push(Violation {
                    signature: format!("non-exhaustive-match-accepted|{tname}"),
                    what: format!("the checker accepts this `when` although {} is matched by no clause:\n{src}", crate::engine::show_val(v)),
                    case: case.clone(),
                });
                return;
            }
            let Some(f) = crate::driver::functions_of(&typed).into_iter().find(|f| f.name == "f0").cloned() else { return };
            let compiled = guarded(|| {
                let mut g = proj.generator(silent());
                let p = g.generate_raw(&f.body, &f.arguments, MODULE_NAME);
                let _ = aiken_lang::verif_hooks::drain_pre_optimisation();
                p
            });
            let program = match compiled {
                Ok(p) => p,
                Err(pn) => {
                    l.violations.push(Violation { signature: format!("panic|compiler|{}|{tname}", vcore::evid::panic_site_file(&pn)), what: format!("compiling this accepted `when` panicked: {pn}\n{src}"), case });
                    return;
                }
            };
            for v in &universe {
                l.evaluations += 1;
                let want = first_match(&c.clauses, v).unwrap();
                *l.clause_taken.entry(want).or_default() += 1;
                let got = run_program(&program, &[to_data(v, &c.ty)]);
                let want_value = expected_value(c, want, v);
                let ok = matches!(&got, Ran::Value(Term::Constant(k)) if matches!(k.as_ref(), Constant::Integer(n) if *n == want_value));
                if !ok {
                    let right_clause = matches!(&got, Ran::Value(Term::Constant(k)) if matches!(k.as_ref(), Constant::Integer(n) if n / 1_000_000 == BigInt::from(want) && c.bind));
                    l.violations.push(Violation {
                        signature: if right_clause { format!("pattern-variable-bound-to-the-wrong-value|{tname}") } else { format!("wrong-clause-taken|{tname}|{}", sequence_class(&c.clauses)) },
                        what: format!("for the value {} the first matching clause is {want} (`{}`, expected result {want_value}) but the compiled code gives {:?}:\n{src}", crate::engine::show_val(v), show_pat(&c.clauses[want]), match &got { Ran::Value(t) => t.to_pretty(), Ran::Error(e) => e.clone(), Ran::Panic(p) => p.clone() }),
                        case: case.clone(),
                    });
                    break;
                }
            }
            if l.samples.is_empty() && c.clauses.len() >= 3 && l.accepted % 97 == 1 {
                l.samples.push(src[type_prelude().len()..].to_string());
            }
        }
    }
}

/// Multi-column family: a tuple with a list column and an integer column, over a pattern
/// set kept small (element patterns are wildcards only) so that *longer* clause sequences
/// are affordable: how rows with a list-with-tail pattern are distributed over the
/// exact-length cases of a column only matters once other columns and >= 4 clauses interact.
fn list_column_family(tier: Tier) -> (Ty, Vec<Pat>, Vec<Vec<u16>>) {
    let ty = Ty::Tuple(vec![Ty::List(Rc::new(Ty::Bool)), Ty::Int]);
    let w = || Pat::Discard;
    let lists = vec![w(), Pat::List(vec![], None), Pat::List(vec![w()], None), Pat::List(vec![w()], Some(None)), Pat::List(vec![w(), w()], None), Pat::List(vec![w(), w()], Some(None))];
    let ints = vec![w(), Pat::Int(0), Pat::Int(1)];
    let mut ps: Vec<Pat> = vec![Pat::Discard];
    for l in &lists {
        for i in &ints {
            ps.push(Pat::Tuple(vec![l.clone(), i.clone()]));
        }
    }
    let n = ps.len() as u16;
    let mut out: Vec<Vec<u16>> = vec![];
    let full_len = if tier == Tier::Quick { 3 } else { 4 };
    let mut seqs: Vec<Vec<u16>> = vec![vec![]];
    for _ in 0..full_len {
        seqs = seqs.iter().flat_map(|s| (0..n).map(move |k| [s.as_slice(), &[k]].concat())).collect();
        out.extend(seqs.iter().cloned());
    }
    // longer sequences of the common shape: a first clause that is refutable in the list
    // column, a catch-all last clause, everything in between
    let firsts: Vec<u16> = (0..n).filter(|k| matches!(&ps[*k as usize], Pat::Tuple(xs) if !matches!(xs[0], Pat::Discard))).collect();
    let middle_len = if tier == Tier::Quick { 3 } else { 4 };
    let mut mids: Vec<Vec<u16>> = vec![vec![]];
    for _ in 0..middle_len {
        mids = mids.iter().flat_map(|s| (1..n).map(move |k| [s.as_slice(), &[k]].concat())).collect();
    }
    // quick tier: only `[]` first (the column the tree switches on first)
    let firsts: Vec<u16> = if tier == Tier::Quick { firsts.into_iter().filter(|k| matches!(&ps[*k as usize], Pat::Tuple(xs) if matches!(&xs[0], Pat::List(e, None) if e.is_empty()))).collect() } else { firsts };
    for f in &firsts {
        for m in &mids {
            let mut idx = vec![*f];
            idx.extend(m);
            idx.push(0);
            out.push(idx);
        }
    }
    (ty, ps, out)
}

/// Per-worker pattern tables (they hold `Rc`s); the candidate list itself is the compact,
/// shareable `CandIx` list - materialising every candidate in every worker cost 3 GB each in
/// the thorough tier.
pub struct Tables {
    /// (type, patterns, rename variables, binding family)
    fams: Vec<(Ty, Vec<Pat>, bool, bool)>,
}

/// (family, clause pattern indices)
pub type CandIx = (u16, Vec<u16>);

/// patterns with a *typed variable* possible at every position (binding family)
fn vpats(ty: &Ty, depth: usize) -> Vec<Pat> {
    let var = |t: &Ty| -> Pat {
        Pat::Var(
            match t {
                Ty::Int => "i",
                Ty::Bool => "b",
                Ty::Opt(e) if **e == Ty::Int => "o",
                Ty::List(e) if **e == Ty::Int => "l",
                _ => "z",
            }
            .into(),
        )
    };
    let mut out = vec![Pat::Discard, var(ty)];
    let product = |subs: Vec<Vec<Pat>>| -> Vec<Vec<Pat>> {
        let mut rows: Vec<Vec<Pat>> = vec![vec![]];
        for sub in subs {
            rows = rows.into_iter().flat_map(|pre| sub.iter().map(move |p| [pre.as_slice(), &[p.clone()]].concat())).collect();
        }
        rows
    };
    match ty {
        Ty::Int => {
            out.push(Pat::Int(0));
            out.push(Pat::Int(1));
        }
        Ty::Bool => {
            out.push(Pat::Ctor(Ty::Bool, 0, vec![], false));
            out.push(Pat::Ctor(Ty::Bool, 1, vec![], false));
        }
        Ty::Opt(_) | Ty::Adt(_) => {
            for c in 0..ctor_count(ty) {
                let fts = ctor_fields(ty, c);
                if fts.is_empty() {
                    out.push(Pat::Ctor(ty.clone(), c, vec![], false));
                } else if depth > 0 {
                    for r in product(fts.iter().map(|(_, ft)| if ft == ty { vec![Pat::Discard] } else { vpats(ft, depth - 1) }).collect()) {
                        out.push(Pat::Ctor(ty.clone(), c, r, false));
                    }
                }
            }
        }
        Ty::Tuple(ts) if depth > 0 => out.extend(product(ts.iter().map(|t| vpats(t, depth - 1)).collect()).into_iter().map(Pat::Tuple)),
        Ty::Pair(a, b) if depth > 0 => {
            for r in product(vec![vpats(a, depth - 1), vpats(b, depth - 1)]) {
                out.push(Pat::Pair(Box::new(r[0].clone()), Box::new(r[1].clone())));
            }
        }
        Ty::List(e) if depth > 0 => {
            let sub = vpats(e, depth - 1);
            out.push(Pat::List(vec![], None));
            for p in &sub {
                out.push(Pat::List(vec![p.clone()], None));
                out.push(Pat::List(vec![p.clone()], Some(None)));
                out.push(Pat::List(vec![p.clone()], Some(Some("l".into()))));
                for q in &sub {
                    out.push(Pat::List(vec![p.clone(), q.clone()], None));
                    out.push(Pat::List(vec![p.clone(), q.clone()], Some(Some("l".into()))));
                }
            }
        }
        _ => {}
    }
    out
}

fn binding_types(tier: Tier) -> Vec<Ty> {
    let oi = || opt(Ty::Int);
    let mut v = vec![Ty::Tuple(vec![oi(), oi()]), Ty::Pair(Rc::new(Ty::Int), Rc::new(Ty::Int)), Ty::Adt("Shape"), Ty::List(Rc::new(Ty::Int))];
    if tier == Tier::Thorough {
        v.extend([Ty::Tuple(vec![Ty::Int, Ty::Bool, Ty::Int]), opt(Ty::Tuple(vec![Ty::Int, Ty::Int])), Ty::Tuple(vec![oi(), Ty::Pair(Rc::new(Ty::Int), Rc::new(Ty::Int))])]);
    }
    v
}

impl Tables {
    pub fn new(tier: Tier) -> Tables {
        let (ty, ps, _) = list_column_family(tier);
        let mut fams = vec![(ty, ps, false, false)];
        for ty in scrutinee_types(tier) {
            let ps = pats(&ty, 2, false);
            fams.push((ty, ps, true, false));
        }
        for ty in binding_types(tier) {
            let ps = vpats(&ty, 2);
            fams.push((ty, ps, true, true));
        }
        Tables { fams }
    }
    pub fn materialise(&self, ix: &CandIx) -> Candidate {
        let (ty, ps, rename_vars, bind) = &self.fams[ix.0 as usize];
        let mut n = 0;
        Candidate { ty: ty.clone(), clauses: ix.1.iter().map(|k| if *rename_vars { rename(&ps[*k as usize], &mut n) } else { ps[*k as usize].clone() }).collect(), bind: *bind }
    }
}

pub fn candidate_index(tier: Tier) -> Vec<CandIx> {
    let mut out: Vec<CandIx> = list_column_family(tier).2.into_iter().map(|s| (0u16, s)).collect();
    for (f, ty) in scrutinee_types(tier).into_iter().enumerate() {
        let np = pats(&ty, 2, false).len();
        let small = np <= 8;
        let max_len = match (tier, small) {
            (Tier::Quick, true) => 4,
            (Tier::Quick, false) => 3,
            (Tier::Thorough, true) => 5,
            (Tier::Thorough, false) => 4,
        };
        let mut seqs: Vec<Vec<u16>> = vec![vec![]];
        for _ in 0..max_len {
            let mut next = vec![];
            for s in &seqs {
                for k in 0..np as u16 {
                    let mut t = s.clone();
                    t.push(k);
                    next.push(t);
                }
            }
            out.extend(next.iter().map(|s| ((f + 1) as u16, s.clone())));
            seqs = next;
            // keep the product in check for the large pattern sets in the thorough tier
            if seqs.len() > 400_000 {
                break;
            }
        }
    }
    // binding family: all clause pairs; triples whose last clause is irrefutable (`_` or a
    // variable, indices 0 and 1: the shape in which one clause is reached from several
    // sub-matrices); thorough: all triples for the smaller pattern sets
    let base = 1 + scrutinee_types(tier).len();
    for (f, ty) in binding_types(tier).into_iter().enumerate() {
        let np = vpats(&ty, 2).len() as u16;
        let fam = (base + f) as u16;
        for a in 0..np {
            out.push((fam, vec![a]));
            for b in 0..np {
                out.push((fam, vec![a, b]));
                let lasts: Vec<u16> = if tier == Tier::Thorough && np <= 60 { (0..np).collect() } else { vec![0, 1] };
                for c in lasts {
                    out.push((fam, vec![a, b, c]));
                }
            }
        }
    }
    out
}

pub fn run(tier: Tier, replay: Option<String>) -> i32 {
    if let Some(p) = replay {
        let doc: serde_json::Value = serde_json::from_str(&std::fs::read_to_string(&p).expect("read")).expect("json");
        let src = doc["case"]["source"].as_str().unwrap_or("");
        let base = Proj::new();
        let n_clauses = src.split("when x is {").nth(1).map(|t| t.matches(" -> ").count()).unwrap_or(0);
        let (tt, tq) = (Tables::new(Tier::Thorough), Tables::new(Tier::Quick));
        let all: Vec<Candidate> = candidate_index(Tier::Thorough).iter().map(|ix| (ix, &tt)).chain(candidate_index(Tier::Quick).iter().map(|ix| (ix, &tq))).filter(|(ix, _)| n_clauses == ix.1.len()).map(|(ix, t)| t.materialise(ix)).filter(|c| source_of(c).0 == src).take(1).collect();
        for c in all.iter() {
            {
                let mut l = Local::default();
                check_candidate(c, &base, &mut l);
                for v in &l.violations {
                    println!("VIOLATION property=C07 replay={p}\n  {}", v.what);
                }
                if l.violations.is_empty() {
                    println!("no violation on replay");
                }
                return if l.violations.is_empty() { 0 } else { 1 };
            }
        }
        println!("candidate of the replay file not found");
        return 2;
    }
    let mut run = Run::new("C07", tier);
    let index = candidate_index(tier);
    let n_cands = index.len();
    let per_type = {
        let t = Tables::new(tier);
        let mut per_type: BTreeMap<String, u64> = BTreeMap::new();
        for c in &index {
            *per_type.entry(show_ty(&t.fams[c.0 as usize].0)).or_default() += 1;
        }
        per_type
    };
    let cap = Some(Duration::from_secs(if tier == Tier::Quick { 50 } else { 1700 }));
    // (candidates hold Rc-based types: every worker enumerates its own copy of the same list)
    let out = par_indices(n_cands as u64, 8, cap, |_| (Proj::new(), Tables::new(tier), Local::default()), |(base, tabs, l), i| check_candidate(&tabs.materialise(&index[i as usize]), base, l), |(_, _, l)| l);
    let mut t = Local::default();
    for l in out.results {
        t.candidates += l.candidates;
        t.accepted += l.accepted;
        t.redundant += l.redundant;
        t.not_exhaustive += l.not_exhaustive;
        t.evaluations += l.evaluations;
        for (k, v) in l.other_errors {
            *t.other_errors.entry(k).or_default() += v;
        }
        for (k, v) in l.clause_taken {
            *t.clause_taken.entry(k).or_default() += v;
        }
        run.violations_extend(l.violations);
        for s in l.samples {
            run.sample(s);
        }
    }
    if out.capped {
        run.cap_hit(&format!("wall cap: {} of {} clause sequences", out.done, n_cands));
    }
    run.set("clause_sequences", n_cands as u64);
    run.set("clause_sequences_per_type", json!(per_type));
    run.set("accepted", t.accepted);
    run.set("rejected_redundant_clause", t.redundant);
    run.set("rejected_not_exhaustive", t.not_exhaustive);
    run.set("rejected_for_other_reasons", json!(t.other_errors));
    run.set("evaluations", t.evaluations + t.candidates);
    run.set("compiled_when_evaluations", t.evaluations);
    run.set("clause_index_taken", json!(t.clause_taken));
    run.set("states", t.candidates);
    run.set("transitions", t.evaluations + t.candidates);
    run.set("traces_validated_against_impl", t.candidates);
    run.set("distinct_nontrivial", t.accepted.min(t.redundant + t.not_exhaustive));
    run.set("rule", "for each scrutinee type (Bool, enum, Option, tuples, pairs, List<Bool>, Int, multi-constructor ADT with positional and labelled fields, ...) every sequence of <= 2 (3 for small pattern sets; +1 thorough) clauses over all patterns of depth <= 2 (constructors with every sub-pattern combination and `..`, literals, list patterns with 0-2 elements with and without tail, variables, discards, `as`); the real checker's verdict is compared with a brute-force matcher over a value universe complete for these patterns (lists up to length 3, one fresh integer); accepted matches are compiled and run on every value; distinct_nontrivial = min(accepted, rejected)");
    run.assume("the value universe (depth 3, lists to length 3, integers {0,1,2}) is complete for the distinguishing power of the enumerated patterns");
    let other: u64 = t.other_errors.values().sum();
    if t.accepted == 0 || t.redundant == 0 || t.not_exhaustive == 0 {
        run.machinery_error("vacuous: need accepted, redundant and non-exhaustive verdicts");
    }
    if other * 10 > t.candidates {
        run.machinery_error(format!("more than 10% of the candidates are rejected for unrelated reasons: {:?}", t.other_errors));
    }
    run.finish()
}
