//! C02 – the optimiser never changes what compiler output computes.
//!
//! Explicit-state walk over the optimiser's own pass sequence.  State = a `Program<Name>`;
//! s0 is the program the code generator hands to the optimiser (hook H1); transitions are the
//! public pass methods applied in the order of `aiken_optimize_and_intern`.  The harness
//! replays that sequence itself so that every intermediate state is observable, and the
//! final state must be bit-identical (flat) to what `generate_raw` returned (binding check;
//! a mismatch is a machinery error).  Invariant in every state and on every argument tuple:
//! eval(s_i) ~ eval(s_0) (both fail, or both succeed with the same constant).
//!
//! Inputs: (i) every function of the C01 strata (the typed-program enumerator), (iii) the
//! constant-folding family: every foldable builtin applied to boundary constants inside an
//! Aiken function body.

use crate::ak::*;
use crate::c01::BATCH;
use crate::engine::*;
use serde_json::json;
use std::collections::{BTreeMap, HashSet};
use std::time::Duration;
use uplc::ast::{DeBruijn, Name, Program, Term};
use vcore::evid::{guarded, Run, Tier, Violation};
use vcore::par::par_indices;
use vcore::rterm::RData;

pub const PASS_NAMES: [&str; 4] = ["run_once_pass", "multi_pass", "builtin_curry_reducer", "clean_up_no_inlines+afterwards"];

/// The states s1..sn reached from s0, each labelled with the pass that produced it.
/// Mirrors `uplc::optimize::aiken_optimize_and_intern` (bound to it by `final_matches`).
pub fn pass_states(s0: &Program<Name>) -> Result<Vec<(String, Program<Name>)>, String> {
    let mut out: Vec<(String, Program<Name>)> = vec![];
    let mut node_count = 0usize;
    let step = |name: &str, f: Box<dyn FnOnce() -> Program<Name>>| -> Result<Program<Name>, String> { guarded(f).map_err(|p| format!("{name}: {p}")) };
    let mut cur = {
        let p = s0.clone();
        step("run_once_pass", Box::new(move || p.run_once_pass()))?
    };
    out.push(("run_once_pass".into(), cur.clone()));
    let repeat = |cur: &mut Program<Name>, node_count: &mut usize, out: &mut Vec<(String, Program<Name>)>, label: &str| -> Result<(), String> {
        let mut k = 0;
        loop {
            let p = cur.clone();
            let (np, nc) = guarded(move || {
                let (np, ctx) = p.multi_pass();
                (np, ctx.node_count)
            })
            .map_err(|p| format!("multi_pass: {p}"))?;
            *cur = np;
            k += 1;
            out.push((format!("{label}multi_pass#{k}"), cur.clone()));
            if nc == *node_count {
                break;
            }
            *node_count = nc;
            if k > 200 {
                return Err("multi_pass does not reach a fixpoint within 200 rounds".into());
            }
        }
        Ok(())
    };
    repeat(&mut cur, &mut node_count, &mut out, "a:")?;
    for (i, label) in ["b:", "c:"].iter().enumerate() {
        let p = cur.clone();
        cur = step("builtin_curry_reducer", Box::new(move || p.builtin_curry_reducer()))?;
        out.push((format!("{label}builtin_curry_reducer"), cur.clone()));
        if i == 0 {
            let p = cur.clone();
            cur = guarded(move || p.multi_pass().0).map_err(|p| format!("multi_pass: {p}"))?;
            out.push(("b:multi_pass".into(), cur.clone()));
        }
    }
    repeat(&mut cur, &mut node_count, &mut out, "d:")?;
    let p = cur.clone();
    cur = step("clean_up_no_inlines", Box::new(move || p.clean_up_no_inlines()))?;
    out.push(("clean_up_no_inlines".into(), cur.clone()));
    let p = cur.clone();
    cur = step("afterwards", Box::new(move || p.afterwards()))?;
    out.push(("afterwards".into(), cur));
    Ok(out)
}

/// Intermediate states carry the code generator's names, whose binder identity is
/// (text, unique) and which the pipeline only makes unique at its very end
/// (`CodeGenInterner` inside `afterwards`).  To evaluate or serialise a state the harness
/// applies that same interner to a copy first (its scoping discipline is what C11 checks).
///
/// The intermediate representation also contains `(lam __no_inline__ body)` markers: not
/// binders but zero-argument annotations that tell the inliner to keep `body` shared; they
/// denote `body` (the pipeline's `clean_up_no_inlines` erases them).  The harness erases
/// them with its own traversal before giving a state a meaning.
pub fn strip_markers(t: &Term<Name>) -> Term<Name> {
    use std::rc::Rc;
    match t {
        Term::Lambda { parameter_name, body } if parameter_name.text == "__no_inline__" => strip_markers(body),
        Term::Lambda { parameter_name, body } => Term::Lambda { parameter_name: parameter_name.clone(), body: Rc::new(strip_markers(body)) },
        Term::Delay(b) => Term::Delay(Rc::new(strip_markers(b))),
        Term::Force(b) => Term::Force(Rc::new(strip_markers(b))),
        Term::Apply { function, argument } => Term::Apply { function: Rc::new(strip_markers(function)), argument: Rc::new(strip_markers(argument)) },
        Term::Constr { tag, fields } => Term::Constr { tag: *tag, fields: fields.iter().map(strip_markers).collect() },
        Term::Case { constr, branches } => Term::Case { constr: Rc::new(strip_markers(constr)), branches: branches.iter().map(strip_markers).collect() },
        other => other.clone(),
    }
}

pub fn interned(p: &Program<Name>) -> Program<Name> {
    let mut c = Program { version: p.version, term: strip_markers(&p.term) };
    uplc::optimize::interner::CodeGenInterner::new().program(&mut c);
    c
}

pub fn flat_of(p: &Program<Name>) -> Result<Vec<u8>, String> {
    let d: Program<DeBruijn> = interned(p).try_into().map_err(|e| format!("{e}"))?;
    d.to_flat().map_err(|e| format!("{e}"))
}

/// observable outcome of running a program on arguments
fn outcome(program: &Program<Name>, data: &[RData]) -> String {
    // finite horizon: generated programs need well under 10^8 cpu units; a state that needs
    // more than 5*10^10 is reported as a blow-up rather than run to exhaustion of memory
    let budget = uplc::machine::cost_model::ExBudget { mem: 100_000_000, cpu: 50_000_000_000 };
    match run_program_with(&interned(program), data, budget) {
        Ran::Value(t) => match &t {
            uplc::ast::Term::Constant(c) => format!("value:{:?}", c),
            _ => "value:<non-constant>".into(),
        },
        Ran::Error(k) if k == "OutOfExError" => "budget".into(),
        Ran::Error(k) if k.starts_with("FreeUnique") => format!("open-term:{k}"),
        Ran::Error(k) => format!("fail:{}", k.split(':').next().unwrap_or("")),
        Ran::Panic(p) => format!("panic:{p}"),
    }
}

#[derive(Default)]
pub struct Local {
    pub not_reproducible: u64,
    pub functions: u64,
    pub states: u64,
    pub distinct_states: u64,
    pub transitions: u64,
    pub evaluations: u64,
    pub changed_by_optimiser: u64,
    pub bound_ok: u64,
    pub fixpoint_lengths: BTreeMap<usize, u64>,
    pub outcomes: HashSet<String>,
    pub fold_family: BTreeMap<String, (u64, u64)>,
    pub violating_functions: u64,
    pub not_executable_before_conversion: u64,
    pub per_signature: BTreeMap<String, u64>,
    pub violations: Vec<Violation>,
    pub machinery: Vec<String>,
    pub samples: Vec<String>,
}

/// Check one compiled function: `s0` pre-optimisation, `fin` what the pipeline returned.
#[allow(clippy::too_many_arguments)]
pub fn check_states(src: &str, class: &str, s0: &Program<Name>, fin: &Program<Name>, arg_data: &[Vec<RData>], arg_show: &[String], all_states: bool, l: &mut Local) {
    l.functions += 1;
    if std::env::var("VERIF_C02_DEBUG").as_deref() == Ok("nopass") {
        return;
    }
    let states = match pass_states(s0) {
        Ok(s) => s,
        Err(p) => {
            l.violations.push(Violation {
                signature: format!("panic|optimiser-pass|{}|{}", p.split(':').next().unwrap_or(""), class),
                what: format!("an optimiser pass panicked on compiler output: {p}\n{src}"),
                case: json!({"engine":"c02","source":src}),
            });
            return;
        }
    };
    // binding: the harness pipeline's final state is what the implementation returned
    match (flat_of(&states.last().unwrap().1), flat_of(fin)) {
        (Ok(a), Ok(b)) if a == b => l.bound_ok += 1,
        (Ok(a), Ok(_)) => {
            // Is the pass sequence itself reproducible?  If a second replay by the harness
            // already differs from the first, the optimiser's output depends on something
            // other than its input (C09 decides that property; here the function simply
            // cannot be bound and is counted).
            let again = pass_states(s0).ok().and_then(|s2| flat_of(&s2.last().unwrap().1).ok());
            if again.as_ref() != Some(&a) {
                l.not_reproducible += 1;
            } else if l.machinery.len() < 3 {
                l.machinery.push(format!("binding broken: the harness's replay of the pass sequence ends in a different program than finalize returned for\n{src}"));
            }
            return;
        }
        (a, b) => {
            l.violations.push(Violation {
                signature: format!("open-term|optimiser-output|{class}"),
                what: format!("the optimised program cannot be converted to de Bruijn form ({:?} / {:?}):\n{src}", a.err(), b.err()),
                case: json!({"engine":"c02","source":src}),
            });
            return;
        }
    }
    if std::env::var("VERIF_C02_DEBUG").as_deref() == Ok("noeval") {
        return;
    }
    let f0 = flat_of(s0).unwrap_or_default();
    if flat_of(fin).ok().as_ref() != Some(&f0) {
        l.changed_by_optimiser += 1;
    }
    *l.fixpoint_lengths.entry(states.len()).or_default() += 1;
    l.states += states.len() as u64 + 1;
    l.transitions += states.len() as u64;
    // distinct consecutive states only (a pass that changes nothing needs no re-evaluation)
    let mut to_run: Vec<(&str, &Program<Name>)> = vec![];
    let mut prev = f0;
    for (i, (name, p)) in states.iter().enumerate() {
        let last = i + 1 == states.len();
        let f = flat_of(p).unwrap_or_else(|e| e.into_bytes());
        if f != prev {
            if all_states || last {
                to_run.push((name, p));
            }
            prev = f;
        } else if last && to_run.last().map(|x| !std::ptr::eq(x.1, p)).unwrap_or(true) && !all_states {
            // final state equal to an intermediate one that was skipped in final-only mode
            to_run.push((name, p));
        }
    }
    l.distinct_states += to_run.len() as u64 + 1;
    for (k, data) in arg_data.iter().enumerate() {
        let want = outcome(s0, data);
        l.evaluations += 1;
        if want == "budget" {
            if l.machinery.len() < 3 {
                l.machinery.push(format!("budget exhausted evaluating the unoptimised program of\n{src}"));
            }
            continue;
        }
        // A *structural* machine error before optimisation (type mismatch between list element
        // representations) means the intermediate representation is not yet in executable
        // form: the code generator leaves the conversion of typed list arguments
        // (multi-scalar-multiplication's integer / group-element lists) to the `afterwards`
        // pass.  Such a pre-optimisation program has no meaning of its own to preserve.
        if want.starts_with("fail:TypeMismatch") || want.starts_with("fail:ListTypeMismatch") {
            l.not_executable_before_conversion += 1;
            return;
        }
        l.outcomes.insert(want.chars().take(40).collect());
        for (name, p) in &to_run {
            let got = outcome(p, data);
            l.evaluations += 1;
            // failures are compared as failures: which builtin reports first is not observable
            let norm = |o: &str| if o.starts_with("fail:") { "fail".to_string() } else { o.to_string() };
            if norm(&got) != norm(&want) {
                let kind = if got == "budget" {
                    "budget-blow-up"
                } else if got.starts_with("panic") {
                    "panic"
                } else if got.starts_with("open-term") {
                    "open-term"
                } else if want.starts_with("fail") {
                    "failure-removed"
                } else if got.starts_with("fail") {
                    "failure-introduced"
                } else {
                    "value-changed"
                };
                let pass = name.split(':').last().unwrap_or(name).split('#').next().unwrap_or(name);
                l.violating_functions += 1;
                // input class of a removed failure: what failed before, and whether a Data
                // destructor (unIData/unBData/unListData/unMapData) disappeared from the program
                let un_count = |p: &Program<Name>| {
                    let t = p.to_pretty();
                    ["unIData", "unBData", "unListData", "unMapData"].iter().map(|b| t.matches(&format!("(builtin {b})")).count()).sum::<usize>()
                };
                let signature = if kind == "failure-removed" {
                    let why = want.strip_prefix("fail:").unwrap_or("?");
                    let structural = if un_count(p) < un_count(s0) { "a Data destructor was eliminated" } else { "no Data destructor eliminated" };
                    if un_count(p) < un_count(s0) { format!("{kind}|{why}|{structural}") } else { format!("{kind}|{why}|{structural}|{class}") }
                } else {
                    format!("{kind}|{pass}|{class}")
                };
                let _ = pass;
                let n = l.per_signature.entry(signature.clone()).or_default();
                *n += 1;
                if *n > 20 {
                    return;
                }
                l.violations.push(Violation {
                    signature,
                    what: format!("after pass `{name}` the program no longer computes what the compiler's output computed: before optimisation {want}, after {got}\n{src}args: {}", arg_show.get(k).cloned().unwrap_or_default()),
                    case: json!({"engine":"c02","source":src,"pass":name,"args":arg_show.get(k),"before":want,"after":got}),
                });
                // one report per function: the first argument tuple and the first pass that differ
                return;
            }
        }
    }
}


/// children of an expression, each flagged with "evaluated whenever the parent is"
fn children(e: &Expr) -> Vec<(&Expr, bool)> {
    match e {
        Expr::Bin(Op::And | Op::Or, a, b) => vec![(a, true), (b, false)],
        Expr::Bin(_, a, b) | Expr::MkPair(a, b) => vec![(a, true), (b, true)],
        Expr::TraceArg(a, b) => vec![(a, false), (b, true)],
        Expr::Not(a) | Expr::Neg(a) | Expr::ToData(a, _) | Expr::Field(a, ..) | Expr::TupleIdx(a, _) | Expr::Trace(_, a) | Expr::TraceIfFalse(a) => vec![(a, true)],
        Expr::If(c, t, f) => vec![(c, true), (t, false), (f, false)],
        Expr::When(s, cl) => std::iter::once((s.as_ref(), true)).chain(cl.iter().map(|(_, b)| (b, false))).collect(),
        Expr::Let(_, v, b) | Expr::Expect(_, v, b) | Expr::ExpectTy(_, _, v, b) => vec![(v, true), (b, true)],
        Expr::Ctor(_, _, xs, _) | Expr::Tuple(xs) => xs.iter().map(|x| (x, true)).collect(),
        Expr::Update(_, _, base, ups) => std::iter::once((base.as_ref(), true)).chain(ups.iter().map(|(_, x)| (x, true))).collect(),
        Expr::List(xs, tail) => xs.iter().map(|x| (x, true)).chain(tail.iter().map(|t| (t.as_ref(), true))).collect(),
        Expr::Lam(_, b) => vec![(b, false)],
        Expr::Call(f, xs) | Expr::Capture(f, xs) => std::iter::once((f.as_ref(), true)).chain(xs.iter().map(|x| (x, true))).collect(),
        Expr::Pipe(a, f, xs) => vec![(a.as_ref(), true), (f.as_ref(), true)].into_iter().chain(xs.iter().map(|x| (x, true))).collect(),
        Expr::AndBlock(xs) | Expr::OrBlock(xs) => xs.iter().enumerate().map(|(i, x)| (x, i == 0)).collect(),
        _ => vec![],
    }
}

fn occurs(x: &str, e: &Expr) -> bool {
    matches!(e, Expr::Var(v) if v == x) || children(e).iter().any(|(c, _)| occurs(x, c))
}

/// does `x` occur inside a lambda of `e`?
fn under_lambda(x: &str, e: &Expr, inside: bool) -> bool {
    if matches!(e, Expr::Var(v) if v == x) {
        return inside;
    }
    let inside2 = inside || matches!(e, Expr::Lam(..));
    children(e).iter().any(|(c, _)| under_lambda(x, c, inside2))
}

/// is `x` evaluated on every path through `e`?
fn always_evaluated(x: &str, e: &Expr) -> bool {
    if matches!(e, Expr::Var(v) if v == x) {
        return true;
    }
    let cs = children(e);
    if cs.iter().any(|(c, always)| *always && always_evaluated(x, c)) {
        return true;
    }
    match e {
        Expr::If(_, t, f) => always_evaluated(x, t) && always_evaluated(x, f),
        Expr::When(_, cl) => !cl.is_empty() && cl.iter().all(|(_, b)| always_evaluated(x, b)),
        _ => false,
    }
}

/// How the variable bound by a top-level `expect` is used by its continuation: the input
/// class that separates "the check of an expect was moved into a branch" from the rest.
fn expect_use(body: &Expr) -> &'static str {
    let (var, cont): (Option<&str>, &Expr) = match body {
        // (a plain `let` whose initialiser can abort is the same input class for the inliner)
        Expr::Let(Pat::Var(x), _, c) => (Some(x.as_str()), c),
        Expr::ExpectTy(x, _, _, c) => (Some(x.as_str()), c),
        Expr::Expect(p, _, c) => (
            match p {
                Pat::Var(x) => Some(x.as_str()),
                _ => None,
            },
            c,
        ),
        _ => return "",
    };
    match var {
        None => ":destructuring",
        Some(x) if !occurs(x, cont) => ":bound-variable-unused",
        Some(x) if always_evaluated(x, cont) => ":bound-variable-used-on-every-path",
        Some(x) if under_lambda(x, cont, false) => ":bound-variable-captured-by-a-closure",
        Some(_) => ":bound-variable-used-on-some-paths-only",
    }
}

pub fn class_for(body: &Expr) -> String {
    format!("{}{}", class_of(body), expect_use(body))
}

/// Used by C01: is a disagreement between the compiled function and the source semantics
/// already present before optimisation, or introduced by the optimiser?  Returns the C02
/// signature when the optimiser's states disagree with s0 on `data`.
pub fn attribute_to_optimiser(src: &str, body: &Expr, s0: &Program<Name>, fin: &Program<Name>, data: &[RData]) -> Option<String> {
    let mut l = Local::default();
    check_states(src, &class_for(body), s0, fin, &[data.to_vec()], &[String::new()], true, &mut l);
    l.violations.first().map(|v| v.signature.clone())
}

fn class_of(body: &Expr) -> &'static str {
    match body {
        Expr::Bin(op, ..) => match op {
            Op::Div | Op::Mod => "div-mod",
            Op::And | Op::Or => "connective",
            Op::Eq | Op::Ne => "equality",
            _ => "arith-compare",
        },
        Expr::If(..) => "if",
        Expr::When(..) => "when",
        Expr::Let(..) => "let",
        Expr::Expect(..) => "expect-pattern",
        Expr::ExpectTy(..) => "expect-cast",
        Expr::ToData(..) => "upcast",
        Expr::Ctor(..) | Expr::Tuple(..) | Expr::MkPair(..) => "constructor",
        Expr::Field(..) | Expr::TupleIdx(..) | Expr::Update(..) => "field",
        Expr::List(..) => "list",
        Expr::Call(..) | Expr::Pipe(..) | Expr::Capture(..) | Expr::Lam(..) => "call",
        Expr::Trace(..) | Expr::TraceArg(..) | Expr::TraceIfFalse(..) => "trace",
        Expr::AndBlock(..) | Expr::OrBlock(..) => "connective",
        Expr::Not(..) | Expr::Neg(..) => "unary",
        _ => "atom",
    }
}

// ---------------------------------------------------------------------------------------
// (iii) the constant-folding family

/// (builtin wrapper in `aiken/builtin`, argument literal sets, return type)
fn fold_family(tier: Tier) -> Vec<(String, String, Vec<String>)> {
    let ints: Vec<&str> = match tier {
        Tier::Quick => vec!["0", "1", "-1", "7", "-7", "255", "256", "8192", "10000", "9223372036854775808", "18446744073709551616", "1180591620717411303424"],
        Tier::Thorough => vec!["0", "1", "-1", "2", "7", "-7", "8", "255", "256", "-256", "8191", "8192", "8193", "10000", "65536", "9223372036854775807", "9223372036854775808", "-9223372036854775809", "18446744073709551615", "18446744073709551616", "1180591620717411303424", "-1180591620717411303424"],
    };
    let bytes = ["#\"\"", "#\"00\"", "#\"ff00\"", "#\"0102030405060708090a\""];
    let bools = ["True", "False"];
    let strs = ["@\"\"", "@\"a\"", "@\"é\""];
    let s = |v: &[&str]| v.iter().map(|x| x.to_string()).collect::<Vec<_>>();
    let two_int = ["add_integer", "subtract_integer", "multiply_integer", "divide_integer", "quotient_integer", "remainder_integer", "mod_integer"];
    let cmp_int = ["equals_integer", "less_than_integer", "less_than_equals_integer"];
    let mut fams: Vec<(String, String, Vec<Vec<String>>)> = vec![];
    for f in two_int {
        fams.push((f.into(), "Int".into(), vec![s(&ints), s(&ints)]));
    }
    for f in cmp_int {
        fams.push((f.into(), "Bool".into(), vec![s(&ints), s(&ints)]));
    }
    fams.push(("append_bytearray".into(), "ByteArray".into(), vec![s(&bytes), s(&bytes)]));
    fams.push(("cons_bytearray".into(), "ByteArray".into(), vec![s(&ints), s(&bytes)]));
    fams.push(("slice_bytearray".into(), "ByteArray".into(), vec![s(&ints), s(&ints), s(&bytes)]));
    fams.push(("length_of_bytearray".into(), "Int".into(), vec![s(&bytes)]));
    fams.push(("index_bytearray".into(), "Int".into(), vec![s(&bytes), s(&ints)]));
    for f in ["equals_bytearray", "less_than_bytearray", "less_than_equals_bytearray"] {
        fams.push((f.into(), "Bool".into(), vec![s(&bytes), s(&bytes)]));
    }
    for f in ["sha2_256", "sha3_256", "blake2b_256", "blake2b_224", "keccak_256", "ripemd_160"] {
        fams.push((f.into(), "ByteArray".into(), vec![s(&bytes)]));
    }
    fams.push(("append_string".into(), "String".into(), vec![s(&strs), s(&strs)]));
    fams.push(("equals_string".into(), "Bool".into(), vec![s(&strs), s(&strs)]));
    fams.push(("encode_utf8".into(), "ByteArray".into(), vec![s(&strs)]));
    fams.push(("decode_utf8".into(), "String".into(), vec![s(&bytes)]));
    fams.push(("integer_to_bytearray".into(), "ByteArray".into(), vec![s(&bools), s(&ints), s(&ints)]));
    fams.push(("bytearray_to_integer".into(), "Int".into(), vec![s(&bools), s(&bytes)]));
    for f in ["and_bytearray", "or_bytearray", "xor_bytearray"] {
        fams.push((f.into(), "ByteArray".into(), vec![s(&bools), s(&bytes), s(&bytes)]));
    }
    fams.push(("complement_bytearray".into(), "ByteArray".into(), vec![s(&bytes)]));
    fams.push(("read_bit".into(), "Bool".into(), vec![s(&bytes), s(&ints)]));
    fams.push(("replicate_byte".into(), "ByteArray".into(), vec![s(&ints), s(&ints)]));
    fams.push(("shift_bytearray".into(), "ByteArray".into(), vec![s(&bytes), s(&ints)]));
    fams.push(("rotate_bytearray".into(), "ByteArray".into(), vec![s(&bytes), s(&ints)]));
    fams.push(("count_set_bits".into(), "Int".into(), vec![s(&bytes)]));
    fams.push(("find_first_set_bit".into(), "Int".into(), vec![s(&bytes)]));
    let mut out = vec![];
    for (f, ret, positions) in fams {
        let mut tuples: Vec<Vec<String>> = vec![vec![]];
        for pos in &positions {
            let mut next = vec![];
            for pre in &tuples {
                for x in pos {
                    let mut p = pre.clone();
                    p.push(x.clone());
                    next.push(p);
                }
            }
            tuples = next;
        }
        let bodies = tuples.into_iter().map(|t| format!("builtin.{}({})", f, t.join(", "))).collect();
        out.push((f, ret, bodies));
    }
    out
}

fn run_fold_family(run: &mut Run, tier: Tier) -> Local {
    let fams = fold_family(tier);
    // flatten into batches of (family index, bodies)
    let mut batches: Vec<(usize, Vec<String>)> = vec![];
    for (i, (_, _, bodies)) in fams.iter().enumerate() {
        for chunk in bodies.chunks(BATCH) {
            batches.push((i, chunk.to_vec()));
        }
    }
    let cap = Some(Duration::from_secs(if tier == Tier::Quick { 8 } else { 600 }));
    let out = par_indices(
        batches.len() as u64,
        1,
        cap,
        |_| (Worker::new(), Local::default()),
        |(w, l), bi| {
            let (fi, bodies) = &batches[bi as usize];
            let (fname, ret, _) = &fams[*fi];
            // the argument `k` is unused: the body is a closed constant expression, so the
            // constant folder sees literal operands; `k` only keeps the function a function
            let srcs: Vec<String> = bodies.iter().enumerate().map(|(k, b)| format!("pub fn f{k}(k: Int) -> {ret} {{\n{b}\n}}\n")).collect();
            let with_import: Vec<String> = srcs.clone();
            let checked = guarded(|| w.check_batch(&with_import, silent()));
            let (proj, fns) = match checked {
                Ok(Ok(x)) => x,
                Ok(Err(e)) => {
                    if l.machinery.len() < 3 {
                        l.machinery.push(format!("constant-folding family {fname} rejected by the type checker: {:?}", e));
                    }
                    return;
                }
                Err(p) => {
                    l.violations.push(Violation { signature: format!("panic|type-checker|{fname}"), what: format!("type-checking panicked: {p}"), case: json!({"engine":"c02-fold","family":fname}) });
                    return;
                }
            };
            for (k, f) in fns.iter().enumerate() {
                let src = &srcs[k];
                let compiled = guarded(|| {
                    let _ = aiken_lang::verif_hooks::drain_pre_optimisation();
                    let mut g = proj.generator(silent());
                    let p = g.generate_raw(&f.body, &f.arguments, crate::driver::MODULE_NAME);
                    (p, aiken_lang::verif_hooks::drain_pre_optimisation())
                });
                match compiled {
                    Err(p) => l.violations.push(Violation {
                        signature: format!("panic|compiler|{}|fold:{fname}", vcore::evid::panic_site_file(&p)),
                        what: format!("compiling a well-typed function panicked: {p}\n{src}"),
                        case: json!({"engine":"c02-fold","source":src}),
                    }),
                    Ok((fin, pre)) => {
                        let Some(s0) = pre.last() else {
                            l.machinery.push("hook H1 recorded nothing".into());
                            continue;
                        };
                        let args = vec![vec![RData::I(0.into())]];
                        let before = l.violations.len();
                        check_states(src, &format!("fold:{fname}"), s0, &fin, &args, &["0".to_string()], true, l);
                        // folded iff the final program no longer mentions the builtin
                        let folded = fin.to_pretty().matches("(builtin").count() < s0.to_pretty().matches("(builtin").count();
                        let e = l.fold_family.entry(fname.clone()).or_default();
                        if folded {
                            e.0 += 1;
                        } else {
                            e.1 += 1;
                        }
                        if l.samples.is_empty() && l.violations.len() == before && k == 3 {
                            l.samples.push(src.clone());
                        }
                    }
                }
            }
        },
        |(_, l)| l,
    );
    if out.capped {
        run.cap_hit(&format!("wall cap (folding family): {} of {} batches", out.done, batches.len()));
    }
    merge(out.results)
}

fn merge(ls: Vec<Local>) -> Local {
    let mut t = Local::default();
    for l in ls {
        t.functions += l.functions;
        t.not_reproducible += l.not_reproducible;
        t.states += l.states;
        t.distinct_states += l.distinct_states;
        t.transitions += l.transitions;
        t.evaluations += l.evaluations;
        t.changed_by_optimiser += l.changed_by_optimiser;
        t.bound_ok += l.bound_ok;
        t.violating_functions += l.violating_functions;
        t.not_executable_before_conversion += l.not_executable_before_conversion;
        for (k, v) in l.per_signature {
            *t.per_signature.entry(k).or_default() += v;
        }
        for (k, v) in l.fixpoint_lengths {
            *t.fixpoint_lengths.entry(k).or_default() += v;
        }
        t.outcomes.extend(l.outcomes);
        for (k, v) in l.fold_family {
            let e = t.fold_family.entry(k).or_default();
            e.0 += v.0;
            e.1 += v.1;
        }
        t.violations.extend(l.violations);
        for m in l.machinery {
            if t.machinery.len() < 6 {
                t.machinery.push(m);
            }
        }
        t.samples.extend(l.samples);
    }
    t
}

fn run_strata_states(run: &mut Run, tier: Tier) -> Local {
    let counts: Vec<usize> = {
        let sts = strata(tier);
        let mut w = Worker::new();
        sts.iter().enumerate().map(|(i, st)| w.bodies(i, st).len()).collect()
    };
    let mut offsets = vec![];
    let mut total_batches = 0u64;
    for c in &counts {
        offsets.push(total_batches);
        total_batches += c.div_ceil(BATCH) as u64;
    }
    let cap = Some(Duration::from_secs(if tier == Tier::Quick { 35 } else { 1500 }));
    let out = par_indices(
        total_batches,
        1,
        cap,
        |_| (Worker::new(), strata(tier), Local::default(), Vec::<Option<(Vec<Vec<RData>>, Vec<String>)>>::new()),
        |(w, sts, l, argcache), bidx| {
            let si = match offsets.binary_search(&bidx) {
                Ok(mut i) => {
                    while i + 1 < offsets.len() && offsets[i + 1] == bidx {
                        i += 1;
                    }
                    i
                }
                Err(i) => i - 1,
            };
            let st = &sts[si];
            if argcache.len() < sts.len() {
                argcache.resize(sts.len(), None);
            }
            if argcache[si].is_none() {
                let tuples = arg_tuples(st);
                let data = tuples.iter().map(|args| st.params.iter().zip(args).map(|((_, t), v)| to_data(v, t)).collect()).collect();
                let shown = tuples.iter().map(|args| args.iter().map(show_val).collect::<Vec<_>>().join(", ")).collect();
                argcache[si] = Some((data, shown));
            }
            let (arg_data, arg_show) = argcache[si].clone().unwrap();
            let bodies = w.bodies(si, st);
            let start = (bidx - offsets[si]) as usize * BATCH;
            let end = (start + BATCH).min(bodies.len());
            if start >= end {
                return;
            }
            let srcs: Vec<String> = (start..end).map(|i| function_source(&format!("f{}", i - start), st, &bodies[i])).collect();
            let Ok(Ok((proj, fns))) = guarded(|| w.check_batch(&srcs, silent())) else {
                // C01 reports type-checker rejections and panics; here the batch is skipped
                return;
            };
            if fns.len() != end - start {
                return;
            }
            for (k, f) in fns.iter().enumerate() {
                let body = &bodies[start + k];
                let src = function_source("f", st, body);
                let compiled = guarded(|| {
                    let _ = aiken_lang::verif_hooks::drain_pre_optimisation();
                    let mut g = proj.generator(silent());
                    let p = g.generate_raw(&f.body, &f.arguments, crate::driver::MODULE_NAME);
                    (p, aiken_lang::verif_hooks::drain_pre_optimisation())
                });
                match compiled {
                    Err(p) => l.violations.push(Violation {
                        signature: format!("panic|compiler|{}|{}", vcore::evid::panic_site_file(&p), class_of(body)),
                        what: format!("compiling a well-typed function panicked: {p}\n{src}"),
                        case: json!({"engine":"c02","source":src}),
                    }),
                    Ok((fin, pre)) => {
                        let Some(s0) = pre.last() else {
                            l.machinery.push("hook H1 recorded nothing".into());
                            continue;
                        };
                        // all intermediate states for every 4th function (and always in thorough);
                        // s0 vs final for the others
                        let all_states = tier == Tier::Thorough || (start + k) % 4 == 0;
                        check_states(&src, &class_for(body), s0, &fin, &arg_data, &arg_show, all_states, l);
                        if l.samples.len() < 2 && (start + k) % 1009 == 5 {
                            l.samples.push(src);
                        }
                    }
                }
            }
        },
        |(_, _, l, _)| l,
    );
    if out.capped {
        run.cap_hit(&format!("wall cap: {} of {} batches of {} functions", out.done, total_batches, BATCH));
    }
    run.set("functions_in_space", counts.iter().sum::<usize>() as u64);
    merge(out.results)
}

/// (iv) the untyped family of C06 (`c06u.rs`): every form over every atom, kept when the real
/// type checker accepts it - programs the typed enumerator never writes (alternative
/// patterns, annotations at 13 types, record updates, accessors on everything).
fn run_untyped_family(run: &mut Run, _tier: Tier) -> Local {
    let cands = crate::c06u::level1();
    let out = par_indices(
        cands.len() as u64,
        16,
        Some(Duration::from_secs(if _tier == Tier::Quick { 12 } else { 600 })),
        |_| (crate::driver::Proj::new(), Local::default()),
        |(base, l), i| {
            let c = &cands[i as usize];
            let Some((fin, s0)) = crate::c06u::compile_both(c, base) else { return };
            let args = crate::c06u::arg_product(&c.body);
            let shown: Vec<String> = args.iter().map(|a| a.iter().map(vcore::rterm::show_data).collect::<Vec<_>>().join(", ")).collect();
            check_states(&crate::c06u::source_of(&c.body), &format!("untyped-family:{}", c.form), &s0, &fin, &args, &shown, i % 4 == 0, l);
        },
        |(_, l)| l,
    );
    if out.capped {
        run.cap_hit(&format!("untyped family: wall cap after {} of {} candidates", out.done, cands.len()));
    }
    let t = merge(out.results);
    run.set("untyped_family_programs", t.functions);
    t
}

pub fn run(tier: Tier, replay: Option<String>) -> i32 {
    run_with_extra(tier, replay, None)
}

/// `extra` contributes further compiler output (h_proj: every test and validator of the
/// dependency-free example projects, compiled through the real `Project`).
pub fn run_with_extra(tier: Tier, replay: Option<String>, extra: Option<&dyn Fn(&mut Run, Tier) -> Local>) -> i32 {
    if let Some(path) = replay {
        return replay_case(&path);
    }
    let mut run = Run::new("C02", tier);
    let part = std::env::var("VERIF_C02_PART").unwrap_or_default();
    let a = if part == "fold" { Local::default() } else { run_strata_states(&mut run, tier) };
    let b = if part == "strata" { Local::default() } else { run_fold_family(&mut run, tier) };
    let fold_json: serde_json::Map<String, serde_json::Value> = b.fold_family.iter().map(|(k, v)| (k.clone(), json!({"folded": v.0, "not_folded": v.1}))).collect();
    let fold_total = b.functions;
    let c = match extra {
        Some(f) => f(&mut run, tier),
        None => Local::default(),
    };
    run.set("project_items", c.functions);
    let d = if part.is_empty() { run_untyped_family(&mut run, tier) } else { Local::default() };
    let t = merge(vec![a, b, c, d]);
    run.violations_extend(t.violations);
    for m in t.machinery.iter().take(4) {
        run.machinery_error(m.clone());
    }
    for s in t.samples {
        run.sample(s);
    }
    run.set("functions", t.functions);
    run.set("functions_whose_optimised_form_is_not_reproducible", t.not_reproducible);
    run.set("functions_with_a_difference", t.violating_functions);
    run.set("programs_not_executable_before_the_typed_list_conversion", t.not_executable_before_conversion);
    run.set("differences_per_signature", json!(t.per_signature));
    run.set("constant_folding_family_functions", fold_total);
    run.set("constant_folding_family", serde_json::Value::Object(fold_json));
    run.set("states", t.states);
    run.set("distinct_states_evaluated", t.distinct_states);
    run.set("transitions", t.transitions);
    run.set("evaluations", t.evaluations);
    run.set("traces_validated_against_impl", t.bound_ok);
    run.set("functions_changed_by_the_optimiser", t.changed_by_optimiser);
    run.set("pass_sequence_lengths", json!(t.fixpoint_lengths));
    run.set("distinct_nontrivial", t.outcomes.len() as u64);
    run.set("rule", "state = Program<Name>; s0 = the program handed to the optimiser (hook H1); transitions = the public passes in the order of aiken_optimize_and_intern, replayed by the harness and bound to finalize's output by flat-byte equality (traces_validated_against_impl); every distinct state is evaluated on the full argument product and compared with s0 (quick: all intermediate states for every 4th function, s0 vs final for the rest; thorough: all states); inputs: the C01 strata + the constant-folding family (every foldable builtin x boundary literals) + every argument-less test and every validator of the dependency-free example projects (compiled through the real Project); distinct_nontrivial = distinct observable outcomes");
    run.assume("only compiler output is fed to the optimiser (what the property states); results are compared as failure / constant value");
    if t.functions == 0 || t.bound_ok == 0 {
        run.machinery_error("vacuous: no function reached the comparison");
    }
    if t.changed_by_optimiser * 10 < t.functions * 5 {
        run.machinery_error("vacuous: the optimiser changed fewer than half of the programs");
    }
    run.finish()
}

fn replay_case(path: &str) -> i32 {
    let doc: serde_json::Value = serde_json::from_str(&std::fs::read_to_string(path).expect("read")).expect("json");
    let case = &doc["case"];
    let Some(src) = case["source"].as_str() else {
        println!("no source in replay file");
        return 2;
    };
    let w = Worker::new();
    let src0 = src.replacen("pub fn f(", "pub fn f0(", 1);
    let (proj, fns) = match w.check_batch(&[src0], silent()) {
        Ok(x) => x,
        Err(e) => {
            println!("replay: type check failed {:?}", e);
            return 2;
        }
    };
    let _ = aiken_lang::verif_hooks::drain_pre_optimisation();
    let mut g = proj.generator(silent());
    let fin = g.generate_raw(&fns[0].body, &fns[0].arguments, crate::driver::MODULE_NAME);
    let pre = aiken_lang::verif_hooks::drain_pre_optimisation();
    let s0 = pre.last().unwrap();
    // argument universes from the declared parameter types are not reconstructed here: replay
    // over the Data-encoded universe of each parameter by re-finding the stratum
    let mut l = Local::default();
    let mut done = false;
    for tier in [Tier::Quick, Tier::Thorough] {
        for st in strata(tier) {
            let header = function_source("f", &st, &Expr::Void);
            if src.lines().next() == header.lines().next() {
                let tuples = arg_tuples(&st);
                let data: Vec<Vec<RData>> = tuples.iter().map(|args| st.params.iter().zip(args).map(|((_, t), v)| to_data(v, t)).collect()).collect();
                let shown: Vec<String> = tuples.iter().map(|args| args.iter().map(show_val).collect::<Vec<_>>().join(", ")).collect();
                check_states(src, "replay", s0, &fin, &data, &shown, true, &mut l);
                done = true;
                break;
            }
        }
        if done {
            break;
        }
    }
    if !done {
        check_states(src, "replay", s0, &fin, &[vec![RData::I(0.into())]], &["0".into()], true, &mut l);
    }
    if l.violations.is_empty() {
        println!("no violation on replay");
        return 0;
    }
    for v in &l.violations {
        println!("VIOLATION property=C02 replay={path}\n  {}", v.what);
    }
    1
}
