//! The fixed prelude declared in every generated module: user types and a small library of
//! helpers (recursive, mutually recursive, higher-order, generic). Each helper exists once,
//! as harness AST; its source text is printed from that AST (with a hand-written generic
//! signature), so the reference interpreter and the compiler see the same definition.

use crate::ak::*;
use num_bigint::BigInt;
use std::collections::HashMap;
use std::rc::Rc;

fn v(x: &str) -> Expr {
    Expr::Var(x.into())
}
fn rc(x: Expr) -> Rc<Expr> {
    Rc::new(x)
}
fn int(i: i64) -> Expr {
    Expr::Int(BigInt::from(i))
}
fn call(f: &str, args: Vec<Expr>) -> Expr {
    Expr::Call(rc(v(f)), args)
}
fn li() -> Ty {
    Ty::List(Rc::new(Ty::Int))
}

struct H {
    name: &'static str,
    sig: &'static str,
    params: Vec<&'static str>,
    body: Expr,
}

pub fn helpers() -> Vec<Rc<FnDef>> {
    let tree = Ty::Adt("Tree");
    let hs = vec![
        H {
            name: "length",
            sig: "pub fn length(xs: List<a>) -> Int",
            params: vec!["xs"],
            body: Expr::When(
                rc(v("xs")),
                vec![
                    (Pat::List(vec![], None), int(0)),
                    (Pat::List(vec![Pat::Discard], Some(Some("rest".into()))), Expr::Bin(Op::Add, rc(int(1)), rc(call("length", vec![v("rest")])))),
                ],
            ),
        },
        H {
            name: "sum",
            sig: "pub fn sum(xs: List<Int>) -> Int",
            params: vec!["xs"],
            body: Expr::When(
                rc(v("xs")),
                vec![
                    (Pat::List(vec![], None), int(0)),
                    (Pat::List(vec![Pat::Var("x".into())], Some(Some("rest".into()))), Expr::Bin(Op::Add, rc(v("x")), rc(call("sum", vec![v("rest")])))),
                ],
            ),
        },
        H {
            name: "map",
            sig: "pub fn map(xs: List<a>, f: fn(a) -> b) -> List<b>",
            params: vec!["xs", "f"],
            body: Expr::When(
                rc(v("xs")),
                vec![
                    (Pat::List(vec![], None), Expr::List(vec![], None)),
                    (
                        Pat::List(vec![Pat::Var("x".into())], Some(Some("rest".into()))),
                        Expr::List(vec![Expr::Call(rc(v("f")), vec![v("x")])], Some(rc(call("map", vec![v("rest"), v("f")])))),
                    ),
                ],
            ),
        },
        H {
            name: "filter",
            sig: "pub fn filter(xs: List<a>, p: fn(a) -> Bool) -> List<a>",
            params: vec!["xs", "p"],
            body: Expr::When(
                rc(v("xs")),
                vec![
                    (Pat::List(vec![], None), Expr::List(vec![], None)),
                    (
                        Pat::List(vec![Pat::Var("x".into())], Some(Some("rest".into()))),
                        Expr::If(
                            rc(Expr::Call(rc(v("p")), vec![v("x")])),
                            rc(Expr::List(vec![v("x")], Some(rc(call("filter", vec![v("rest"), v("p")]))))),
                            rc(call("filter", vec![v("rest"), v("p")])),
                        ),
                    ),
                ],
            ),
        },
        H {
            name: "foldr",
            sig: "pub fn foldr(xs: List<a>, zero: b, f: fn(a, b) -> b) -> b",
            params: vec!["xs", "zero", "f"],
            body: Expr::When(
                rc(v("xs")),
                vec![
                    (Pat::List(vec![], None), v("zero")),
                    (
                        Pat::List(vec![Pat::Var("x".into())], Some(Some("rest".into()))),
                        Expr::Call(rc(v("f")), vec![v("x"), call("foldr", vec![v("rest"), v("zero"), v("f")])]),
                    ),
                ],
            ),
        },
        H {
            name: "is_even",
            sig: "pub fn is_even(n: Int) -> Bool",
            params: vec!["n"],
            body: Expr::If(
                rc(Expr::Bin(Op::Le, rc(v("n")), rc(int(0)))),
                rc(Expr::Bool(true)),
                rc(Expr::If(rc(Expr::Bin(Op::Gt, rc(v("n")), rc(int(8)))), rc(Expr::Bool(false)), rc(call("is_odd", vec![Expr::Bin(Op::Sub, rc(v("n")), rc(int(1)))])))),
            ),
        },
        H {
            name: "is_odd",
            sig: "pub fn is_odd(n: Int) -> Bool",
            params: vec!["n"],
            body: Expr::If(
                rc(Expr::Bin(Op::Le, rc(v("n")), rc(int(0)))),
                rc(Expr::Bool(false)),
                rc(Expr::If(rc(Expr::Bin(Op::Gt, rc(v("n")), rc(int(8)))), rc(Expr::Bool(true)), rc(call("is_even", vec![Expr::Bin(Op::Sub, rc(v("n")), rc(int(1)))])))),
            ),
        },
        H { name: "identity", sig: "pub fn identity(x: a) -> a", params: vec!["x"], body: v("x") },
        H {
            name: "apply_twice",
            sig: "pub fn apply_twice(f: fn(a) -> a, x: a) -> a",
            params: vec!["f", "x"],
            body: Expr::Call(rc(v("f")), vec![Expr::Call(rc(v("f")), vec![v("x")])]),
        },
        H { name: "const_", sig: "pub fn const_(x: a, y: b) -> a", params: vec!["x", "y"], body: v("x") },
        H { name: "add", sig: "pub fn add(x: Int, y: Int) -> Int", params: vec!["x", "y"], body: Expr::Bin(Op::Add, rc(v("x")), rc(v("y"))) },
        H {
            name: "tree_sum",
            sig: "pub fn tree_sum(t: Tree) -> Int",
            params: vec!["t"],
            body: Expr::When(
                rc(v("t")),
                vec![
                    (Pat::Ctor(tree.clone(), 0, vec![], false), int(0)),
                    (
                        Pat::Ctor(tree.clone(), 1, vec![Pat::Var("l".into()), Pat::Var("x".into()), Pat::Var("r".into())], false),
                        Expr::Bin(Op::Add, rc(Expr::Bin(Op::Add, rc(call("tree_sum", vec![v("l")])), rc(v("x")))), rc(call("tree_sum", vec![v("r")]))),
                    ),
                ],
            ),
        },
    ];
    let _ = li();
    hs.into_iter()
        .map(|h| {
            let src = format!("{} {{\n{}\n}}\n", h.sig, show(&h.body));
            Rc::new(FnDef { name: h.name.to_string(), params: h.params.iter().map(|p| (p.to_string(), Ty::Void)).collect(), ret: Ty::Void, body: Rc::new(h.body), src: Some(src) })
        })
        .collect()
}

pub fn globals() -> HashMap<String, Rc<FnDef>> {
    helpers().into_iter().map(|f| (f.name.clone(), f)).collect()
}

pub fn prelude_source() -> String {
    let mut s = String::from("use aiken/builtin\n\n");
    for a in adts() {
        s.push_str(a.decl);
        s.push('\n');
    }
    for h in helpers() {
        s.push_str(h.src.as_ref().unwrap());
        s.push('\n');
    }
    s
}
