use vcore::evid::{parse_args, silence_panics};

fn main() {
    let (prop, tier, replay) = parse_args();
    if prop != "count" {
        silence_panics();
    }
    // compiling / evaluating deep terms recurses: run on a big stack
    let h = std::thread::Builder::new()
        .stack_size(512 * 1024 * 1024)
        .spawn(move || h_lang::dispatch(&prop, tier, replay))
        .unwrap();
    std::process::exit(h.join().unwrap_or(2));
}
