fn main(){}
