pub mod ak;
pub mod c01;
pub mod c02;
pub mod c06u;
pub mod c07;
pub mod c13;
pub mod c14;
pub mod c16;
pub mod c16b;
pub mod driver;
pub mod engine;
pub mod egen;
pub mod prelude;

use vcore::evid::Tier;

pub fn dispatch(prop: &str, tier: Tier, replay: Option<String>) -> i32 {
    match prop {
        "C01" => c01::run(tier, replay),
        "C02" => c02::run(tier, replay),
        "C06" => c01::run_c06(tier, replay),
        "C07" => c07::run(tier, replay),
        "C13" => c13::run(tier, replay),
        "C14" => c14::run(tier, replay),
        "C16" => c16::run(tier, replay),
        "count" => {
            for (n, c) in engine::count_strata_bodies(tier) {
                println!("{n}: {c}");
            }
            0
        }
        other => {
            eprintln!("h_lang: unknown property {other}");
            2
        }
    }
}
