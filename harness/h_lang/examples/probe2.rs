use h_lang::engine::*;
fn main() {
    let src = std::env::args().nth(1).unwrap();
    let w = Worker::new();
    let (proj, fns) = w.check_batch(&[src], silent()).unwrap();
    let _ = aiken_lang::verif_hooks::drain_pre_optimisation();
    let mut g = proj.generator(silent());
    let fin = g.generate_raw(&fns[0].body, &fns[0].arguments, "test_module");
    println!("FIN:\n{}", fin.to_pretty());
}
