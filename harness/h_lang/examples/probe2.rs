use h_lang::engine::*;
fn main() {
    let src = "pub fn f0(a: Int, p: Bool) -> Bool {\n({\nfail\n} && False)\n}\n".to_string();
    let w = Worker::new();
    let (proj, fns) = w.check_batch(&[src], silent()).unwrap();
    let _ = aiken_lang::verif_hooks::drain_pre_optimisation();
    let mut g = proj.generator(silent());
    let fin = g.generate_raw(&fns[0].body, &fns[0].arguments, "test_module");
    let pre = aiken_lang::verif_hooks::drain_pre_optimisation();
    println!("PRE ({}):\n{}", pre.len(), pre.last().unwrap().to_pretty());
    println!("INTERNED:\n{}", h_lang::c02::interned(pre.last().unwrap()).to_pretty());
    println!("FIN:\n{}", fin.to_pretty());
}
