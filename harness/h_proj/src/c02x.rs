//! C02, third input family: real compiler output of real projects.  Every dependency-free
//! project under /repo/examples is copied to a scratch directory and type-checked by the real
//! `Project`; every argument-less test and every validator is generated with one
//! `CodeGenerator` per item (hook H1 captures the pre-optimisation program) and handed to
//! the pass-state check of h_lang::c02.

use crate::pj::{silent, Listener};
use aiken_lang::ast::Definition;
use aiken_project::Project;
use h_lang::c02::{check_states, Local};
use std::path::{Path, PathBuf};
use vcore::evid::{guarded, Run, Tier};
use vcore::rterm::RData;

fn copy_dir(src: &Path, dst: &Path) {
    let _ = std::fs::create_dir_all(dst);
    let Ok(rd) = std::fs::read_dir(src) else { return };
    for e in rd.flatten() {
        let p = e.path();
        let name = e.file_name();
        if name == "build" || name == "plutus.json" || name == "aiken.lock" {
            continue;
        }
        if p.is_dir() {
            copy_dir(&p, &dst.join(&name));
        } else {
            let _ = std::fs::copy(&p, dst.join(&name));
        }
    }
}

fn dependency_free_projects() -> Vec<PathBuf> {
    let mut out = vec![];
    let mut stack = vec![PathBuf::from("/repo/examples")];
    while let Some(d) = stack.pop() {
        let toml = d.join("aiken.toml");
        if toml.exists() {
            let t = std::fs::read_to_string(&toml).unwrap_or_default();
            if !t.contains("[[dependencies]]") {
                out.push(d);
            }
            continue;
        }
        if let Ok(rd) = std::fs::read_dir(&d) {
            for e in rd.flatten() {
                if e.path().is_dir() {
                    stack.push(e.path());
                }
            }
        }
    }
    out.sort();
    out
}

pub fn acceptance_part(run: &mut Run, tier: Tier) -> Local {
    let mut l = Local::default();
    let projects = dependency_free_projects();
    let (mut compiled, mut skipped) = (0u64, 0u64);
    let start = std::time::Instant::now();
    let cap = if tier == Tier::Quick { 12 } else { 600 };
    for (k, dir) in projects.iter().enumerate() {
        if start.elapsed().as_secs() > cap {
            run.cap_hit(&format!("wall cap (example projects): {k} of {} projects", projects.len()));
            break;
        }
        let scratch = PathBuf::from(format!("{}/c02x_{}_{k}", crate::pj::WORK, std::process::id()));
        let _ = std::fs::remove_dir_all(&scratch);
        copy_dir(dir, &scratch);
        let pname = dir.file_name().map(|n| n.to_string_lossy().to_string()).unwrap_or_default();
        let r = guarded(|| {
            let mut p = Project::new(scratch.clone(), Listener::default()).map_err(|e| format!("{e}"))?;
            p.check(true, None, false, false, 0, 1, Default::default(), silent(), false, None).map_err(|es| crate::pj::show_errors(&es))?;
            Ok::<_, String>(p)
        });
        let p = match r {
            Ok(Ok(p)) => p,
            _ => {
                skipped += 1;
                let _ = std::fs::remove_dir_all(&scratch);
                continue;
            }
        };
        compiled += 1;
        let modules = p.modules();
        for m in &modules {
            for def in m.ast.definitions() {
                let (label, program): (String, _) = match def {
                    Definition::Test(f) if f.arguments.is_empty() => {
                        let r = guarded(|| {
                            let _ = aiken_lang::verif_hooks::drain_pre_optimisation();
                            let mut g = p.new_generator(silent());
                            let prog = g.generate_raw(&f.body, &[], &m.name);
                            (prog, aiken_lang::verif_hooks::drain_pre_optimisation().pop())
                        });
                        (format!("{pname}: test {}.{}", m.name, f.name), r)
                    }
                    Definition::Validator(v) => {
                        let r = guarded(|| {
                            let _ = aiken_lang::verif_hooks::drain_pre_optimisation();
                            let mut g = p.new_generator(silent());
                            let prog = g.generate(v, &m.name);
                            (prog, aiken_lang::verif_hooks::drain_pre_optimisation().pop())
                        });
                        (format!("{pname}: validator {}.{}", m.name, v.name), r)
                    }
                    _ => continue,
                };
                match program {
                    Err(pn) => l.violations.push(vcore::evid::Violation {
                        signature: format!("panic|compiler|{}|example-project", vcore::evid::panic_site_file(&pn)),
                        what: format!("generating {label} panicked: {pn}"),
                        case: serde_json::json!({"engine":"c02-projects","item":label}),
                    }),
                    Ok((fin, Some(s0))) => {
                        let n_params = match def {
                            Definition::Validator(v) => v.params.len() + 1,
                            _ => 0,
                        };
                        // tests take no argument; validators get (parameters.., context): three tuples
                        let ctx = RData::Constr(0, vec![RData::I(0.into()), RData::I(0.into()), RData::Constr(0, vec![RData::B(vec![0; 28])])]);
                        let tuples: Vec<Vec<RData>> = if n_params == 0 {
                            vec![vec![]]
                        } else {
                            vec![
                                vec![RData::I(0.into()); n_params],
                                vec![RData::Constr(0, vec![]); n_params],
                                (0..n_params).map(|i| if i + 1 == n_params { ctx.clone() } else { RData::I(1.into()) }).collect(),
                            ]
                        };
                        let shown: Vec<String> = tuples.iter().map(|t| t.iter().map(vcore::rterm::show_data).collect::<Vec<_>>().join(", ")).collect();
                        check_states(&format!("// {label}\n"), "example-project", &s0, &fin, &tuples, &shown, true, &mut l);
                    }
                    Ok((_, None)) => l.machinery.push("hook H1 recorded nothing".into()),
                }
            }
        }
        drop(p);
        let _ = std::fs::remove_dir_all(&scratch);
    }
    run.set("example_projects_found", projects.len() as u64);
    run.set("example_projects_compiled", compiled);
    run.set("example_projects_skipped", skipped);
    if compiled == 0 {
        l.machinery.push("vacuous: no example project compiled".into());
    }
    l
}

pub fn run(tier: Tier, replay: Option<String>) -> i32 {
    let code = h_lang::c02::run_with_extra(tier, replay, Some(&acceptance_part));
    crate::pj::clean_work();
    code
}
