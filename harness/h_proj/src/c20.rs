//! C20 – malformed input is rejected with an error, not a crash (host of all three parts).
//!  - uplc decoders / parser: h_uplc::c20
//!  - Aiken lexer / parser / formatter: h_lang::c13::c20_part
//!  - blueprint JSON and parameter application: here

use crate::pj::parse_blueprint;
use serde_json::{json, Value as J};
use vcore::evid::{guarded, Run, Tier, Violation};
use vcore::rterm::{self, RData};

/// every single structural mutation of a JSON document
fn json_mutations(root: &J) -> Vec<(String, J)> {
    fn paths(v: &J, cur: &mut Vec<String>, out: &mut Vec<Vec<String>>) {
        out.push(cur.clone());
        match v {
            J::Object(o) => {
                for (k, x) in o {
                    cur.push(k.clone());
                    paths(x, cur, out);
                    cur.pop();
                }
            }
            J::Array(a) => {
                for (i, x) in a.iter().enumerate() {
                    cur.push(i.to_string());
                    paths(x, cur, out);
                    cur.pop();
                }
            }
            _ => {}
        }
    }
    fn get_mut<'a>(v: &'a mut J, path: &[String]) -> Option<&'a mut J> {
        let mut cur = v;
        for p in path {
            cur = match cur {
                J::Object(o) => o.get_mut(p)?,
                J::Array(a) => a.get_mut(p.parse::<usize>().ok()?)?,
                _ => return None,
            };
        }
        Some(cur)
    }
    let mut all = vec![];
    paths(root, &mut vec![], &mut all);
    let mut out = vec![];
    for path in all {
        if path.is_empty() {
            continue;
        }
        let name = path.join("/");
        // delete
        let mut d = root.clone();
        if let Some(parent) = get_mut(&mut d, &path[..path.len() - 1]) {
            match parent {
                J::Object(o) => {
                    o.remove(path.last().unwrap());
                }
                J::Array(a) => {
                    if let Ok(i) = path.last().unwrap().parse::<usize>() {
                        if i < a.len() {
                            a.remove(i);
                        }
                    }
                }
                _ => {}
            }
        }
        out.push((format!("delete {name}"), d));
        // retag
        for (what, val) in [("null", J::Null), ("0", json!(0)), ("-1", json!(-1)), ("\"\"", json!("")), ("[]", json!([])), ("{}", json!({})), ("true", json!(true))] {
            let mut d = root.clone();
            if let Some(x) = get_mut(&mut d, &path) {
                *x = val;
            }
            out.push((format!("replace {name} by {what}"), d));
        }
        // duplicate array element
        let mut d = root.clone();
        if let Some(J::Array(a)) = get_mut(&mut d, &path[..path.len() - 1]) {
            if let Ok(i) = path.last().unwrap().parse::<usize>() {
                if let Some(x) = a.get(i).cloned() {
                    a.insert(i, x);
                    out.push((format!("duplicate {name}"), d));
                }
            }
        }
        // strings: truncate, corrupt, dangling / cyclic references
        if let Some(J::String(s)) = get_mut(&mut root.clone(), &path) {
            let s = s.clone();
            let mut variants = vec![format!("{s}zz"), s.chars().take(s.chars().count() / 2).collect(), s.chars().skip(1).collect(), "00".into()];
            if path.last().map(|k| k == "$ref").unwrap_or(false) {
                variants.push("#/definitions/Missing".into());
                variants.push("#/definitions/Int".into());
                variants.push("#".into());
                variants.push("#/definitions/".into());
            }
            for v in variants {
                let mut d = root.clone();
                if let Some(x) = get_mut(&mut d, &path) {
                    *x = J::String(v.clone());
                }
                out.push((format!("replace {name} by \"{}\"", v.chars().take(30).collect::<String>()), d));
            }
        }
    }
    // cyclic definitions
    let mut d = root.clone();
    if let Some(J::Object(defs)) = d.get_mut("definitions") {
        let keys: Vec<String> = defs.keys().cloned().collect();
        if let Some(k) = keys.first() {
            let r = format!("#/definitions/{}", k.replace('/', "~1"));
            defs.insert(k.clone(), json!({"$ref": r}));
            out.push(("definition that references itself".into(), d));
        }
    }
    out
}

fn blueprint_part(run: &mut Run, tier: Tier) {
    let initial = match crate::c18::build_initial_small() {
        Ok(j) => j,
        Err(e) => {
            run.machinery_error(format!("the purpose-built project does not build: {e}"));
            return;
        }
    };
    let root: J = serde_json::from_str(&initial).unwrap();
    // restrict the mutation ball to the first two validators' entries plus preamble and definitions
    let muts = json_mutations(&root);
    let params: Vec<RData> = {
        let mut v = crate::datau::leaves();
        v.extend([RData::Constr(0, vec![]), RData::Constr(1, vec![RData::I(0.into())]), RData::List(vec![RData::I(1.into())]), RData::Map(vec![]), RData::List(vec![RData::I(0.into()), RData::Constr(1, vec![])])]);
        v
    };
    let step = if tier == Tier::Quick { 7 } else { 1 };
    let (mut n, mut accepted, mut applied_ok) = (0u64, 0u64, 0u64);
    for (i, (what, doc)) in muts.iter().enumerate() {
        if i % step != 0 {
            continue;
        }
        n += 1;
        let text = doc.to_string();
        let case = json!({"engine":"c20-blueprint","mutation":what});
        let parsed = guarded(|| parse_blueprint(&text));
        let bp = match parsed {
            Err(p) => {
                run.violation(Violation { signature: format!("panic|blueprint-json|{}", vcore::evid::panic_site_file(&p)), what: format!("reading a blueprint with `{what}` panicked: {p}"), case });
                continue;
            }
            Ok(Err(_)) => continue,
            Ok(Ok(b)) => b,
        };
        accepted += 1;
        for v in crate::c18::validators().into_iter().filter(|v| v.module == "va" || v.module == "vb") {
            for d in &params {
                let pd = rterm::to_impl_data(d);
                let mut b2 = match parse_blueprint(&text) {
                    Ok(b) => b,
                    Err(_) => break,
                };
                let r = guarded(|| b2.apply_parameter(Some(v.module), Some(v.name), &pd).is_ok());
                match r {
                    Ok(true) => applied_ok += 1,
                    Ok(false) => {}
                    Err(p) => {
                        run.violation(Violation {
                            signature: format!("panic|apply-parameter-on-mutated-blueprint|{}", vcore::evid::panic_site_file(&p)),
                            what: format!("blueprint with `{what}`: applying {} to {}.{} panicked: {p}", rterm::show_data(d), v.module, v.name),
                            case: json!({"engine":"c20-blueprint","mutation":what,"validator":format!("{}.{}", v.module, v.name),"data":crate::datau_json(d)}),
                        });
                        break;
                    }
                }
            }
        }
        // re-serialising what was accepted must not crash either
        if let Err(p) = guarded(|| serde_json::to_string(&bp).map(|_| ())) {
            run.violation(Violation { signature: "panic|blueprint-serialise".into(), what: format!("serialising the accepted blueprint with `{what}` panicked: {p}"), case: json!({"engine":"c20-blueprint","mutation":what}) });
        }
    }
    run.add("cases", n);
    run.set("blueprint_mutations", n);
    run.set("blueprint_mutations_in_the_ball", muts.len() as u64);
    run.set("blueprint_mutations_accepted_by_the_reader", accepted);
    run.set("parameter_applications_accepted_on_mutated_blueprints", applied_ok);
    if accepted == 0 || accepted == n {
        run.machinery_error("vacuous: the blueprint mutation ball was accepted or rejected 100%");
    }
}

pub fn run(tier: Tier, replay: Option<String>) -> i32 {
    if let Some(p) = replay {
        let doc: J = serde_json::from_str(&std::fs::read_to_string(&p).expect("read")).expect("json");
        if let Some(code) = h_uplc::c20::replay_case(&doc["case"]) {
            return code;
        }
        println!("this C20 case is replayed by re-running the check (child-process / blueprint / Aiken mutation cases carry their input in the replay file)");
        return 2;
    }
    let mut run = Run::new("C20", tier);
    h_uplc::c20::part(&mut run, tier);
    h_lang::c13::c20_part(&mut run, tier);
    blueprint_part(&mut run, tier);
    let cases = run.get("cases");
    run.set("evaluations", cases);
    run.set("states", cases);
    run.set("transitions", cases);
    run.set("traces_validated_against_impl", cases);
    run.set("distinct_nontrivial", run.get("blueprint_mutations_accepted_by_the_reader") + run.get("aiken_front_end_accepted") + 2);
    run.set("rule", "binary decoders (flat x4 binder forms, CBOR, hex, Data): every byte string of length <= 2 (3 thorough) and, for 44 valid encodings, every prefix, every single-byte replacement, bit flip and 00/ff insertion; hostile declared lengths and 13 nesting bombs of <= 16 KiB in child processes on an 8 MiB stack (decode, and decode+drop); UPLC text: every token string of length <= 3 (4) over 22 tokens and every single-character deletion / duplication / replacement of 30 printed programs; Aiken: deletion / duplication / swap of every token and every truncation of templates and shipped files through parser and formatter; blueprint JSON: every single deletion / retagging / duplication / string corruption / dangling or cyclic $ref, then apply_parameter with 10 Data values on every validator; oracle: Ok or Err, never a panic, abort or hang; distinct_nontrivial = mutated inputs that were accepted");
    run.assume("'modest input' is fixed at <= 16 KiB on the default 8 MiB main-thread stack");
    crate::pj::clean_work();
    run.finish()
}
