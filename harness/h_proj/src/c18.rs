//! C18 – applying a parameter means applying the function.
//!
//! Explicit-state search.  State = a `Blueprint` (kept as the JSON text `aiken build` writes
//! and `aiken blueprint apply` reads back, and re-parsed at every step as the CLI does).
//! Initial state: the blueprint the real `Project::build` produces for purpose-built
//! parameterised validators whose handlers accept exactly the redeemer that equals the tuple
//! of their parameters.  Operations: `apply_parameter(v)` for v in conforming values of the
//! next parameter's type, their mutation ball, and values of the other parameters' types.

use crate::c12::values;
use crate::datau;
use crate::pj::{parse_blueprint, silent, Scratch};
use aiken_project::blueprint::Blueprint;
use h_lang::ak::{from_data, show_ty, to_data, Ty};
use serde_json::{json, Value as J};
use std::collections::{HashSet, VecDeque};
use std::rc::Rc;
use uplc::ast::{DeBruijn, NamedDeBruijn, Program};
use vcore::blake2b::blake2b_224;
use vcore::evid::{guarded, Run, Tier, Violation};
use vcore::rterm::{self, RData};

pub struct VDef {
    pub module: &'static str,
    pub name: &'static str,
    pub params: Vec<Ty>,
}

pub fn validators() -> Vec<VDef> {
    let l = |t: Ty| Ty::List(Rc::new(t));
    let o = |t: Ty| Ty::Opt(Rc::new(t));
    vec![
        VDef { module: "va", name: "three", params: vec![Ty::Int, Ty::Bytes, Ty::Adt("Color")] },
        VDef { module: "va", name: "one", params: vec![l(Ty::Int)] },
        VDef { module: "vb", name: "two", params: vec![o(Ty::Int), Ty::Tuple(vec![Ty::Int, Ty::Bool])] },
        VDef { module: "vb", name: "rec_data", params: vec![Ty::Adt("Rec"), Ty::Data] },
        VDef { module: "vb", name: "same_type_twice", params: vec![Ty::Int, Ty::Int] },
        // further parameter shapes: a map, nested containers, a recursive type, a generic
        // instance, Bool/Void, four parameters
        VDef { module: "vc", name: "map_bool", params: vec![l(Ty::Pair(Rc::new(Ty::Int), Rc::new(Ty::Bytes))), Ty::Bool] },
        VDef { module: "vc", name: "nested", params: vec![l(o(Ty::Int)), Ty::Tuple(vec![Ty::Int, Ty::Bool, Ty::Bytes])] },
        VDef { module: "vc", name: "shapes", params: vec![Ty::Adt("Shape"), o(Ty::Adt("Rec"))] },
        VDef { module: "vc", name: "tree_box", params: vec![Ty::Adt("Tree"), Ty::Adt("BoxInt")] },
        VDef { module: "vc", name: "four", params: vec![Ty::Bool, Ty::Void, Ty::Int, l(Ty::Bytes)] },
        // names related by prefix / suffix / case (entries are located by title)
        VDef { module: "vd", name: "pool", params: vec![Ty::Int, Ty::Bool] },
        VDef { module: "vd", name: "pool_stake", params: vec![Ty::Int, Ty::Bool] },
        VDef { module: "vd", name: "stake_pool", params: vec![Ty::Bool, Ty::Int] },
        VDef { module: "vd", name: "po", params: vec![Ty::Int] },
    ]
}

fn source_for(module: &str) -> String {
    let mut s: String = h_lang::ak::adts().iter().map(|a| a.decl.to_string()).collect::<Vec<_>>().join("\n");
    for v in validators().iter().filter(|v| v.module == module) {
        let ps: Vec<String> = v.params.iter().enumerate().map(|(i, t)| format!("p{i}: {}", show_ty(t))).collect();
        let tuple = if v.params.len() == 1 { "p0".to_string() } else { format!("({})", (0..v.params.len()).map(|i| format!("p{i}")).collect::<Vec<_>>().join(", ")) };
        // mint accepts exactly the tuple of all parameters; spend accepts exactly the list [last, first]
        // (two handlers share one program: both must see the applied parameters)
        let last = v.params.len() - 1;
        s.push_str(&format!(
            "\nvalidator {name}({ps}) {{\n  mint(r: Data, _policy: Data, _tx: Data) {{\n    let expected: Data = {tuple}\n    r == expected\n  }}\n\n  spend(_d: Option<Data>, r: Data, _o: Data, _tx: Data) {{\n    let a: Data = p{last}\n    let b: Data = p0\n    let expected: Data = [a, b]\n    r == expected\n  }}\n\n  else(_) {{\n    fail\n  }}\n}}\n",
            name = v.name,
            ps = ps.join(", "),
        ));
    }
    s
}

pub fn source_for_module(module: &str) -> String {
    source_for(module)
}

pub fn build_initial() -> Result<String, String> {
    let sc = Scratch::new("c18", &[("validators/va.ak".to_string(), source_for("va")), ("validators/vb.ak".to_string(), source_for("vb")), ("validators/vc.ak".to_string(), source_for("vc")), ("validators/vd.ak".to_string(), source_for("vd"))]);
    sc.build(silent())
}

/// the two-module project (five validators) whose blueprint C20 mutates
pub fn build_initial_small() -> Result<String, String> {
    let sc = Scratch::new("c18s", &[("validators/va.ak".to_string(), source_for("va")), ("validators/vb.ak".to_string(), source_for("vb"))]);
    sc.build(silent())
}

pub fn ctx_mint(redeemer: &RData) -> RData {
    RData::Constr(0, vec![RData::I(0.into()), redeemer.clone(), RData::Constr(0, vec![RData::B(vec![0xab; 28])])])
}
fn ctx_spend(redeemer: &RData) -> RData {
    let out_ref = RData::Constr(0, vec![RData::B(vec![0; 32]), RData::I(0.into())]);
    RData::Constr(0, vec![RData::I(0.into()), redeemer.clone(), RData::Constr(1, vec![out_ref, RData::Constr(1, vec![])])])
}

/// a spending context whose script info carries `Some(datum)`
pub fn ctx_spend_with_datum(datum: &RData) -> RData {
    let out_ref = RData::Constr(0, vec![RData::B(vec![0; 32]), RData::I(0.into())]);
    RData::Constr(0, vec![RData::I(0.into()), RData::I(0.into()), RData::Constr(1, vec![out_ref, RData::Constr(0, vec![datum.clone()])])])
}

pub fn accepts(p: &Program<DeBruijn>, ctx: &RData) -> Result<bool, String> {
    let prog = p.clone().apply_data(rterm::to_impl_data(ctx));
    guarded(move || {
        let n: Program<NamedDeBruijn> = prog.into();
        n.eval(uplc::machine::cost_model::ExBudget::max()).result.is_ok()
    })
}

fn entries<'a>(bp: &'a Blueprint, v: &VDef) -> Vec<&'a aiken_project::blueprint::validator::Validator<uplc::ast::SerializableProgram>> {
    let prefix = format!("{}.{}.", v.module, v.name);
    bp.validators.iter().filter(|x| x.title.starts_with(&prefix)).collect()
}

/// invariants of one state; `applied` = the parameter values applied so far
fn check_state(run: &Run, initial_text: &str, json_text: &str, v: &VDef, applied: &[RData], case: &J, counters: &mut (u64, u64), lang_tag: u8) {
    // frame condition: applying parameters to one validator leaves every entry of every other
    // validator exactly as `aiken build` wrote it
    if !applied.is_empty() {
        let (t0, t1): (J, J) = (serde_json::from_str(initial_text).unwrap_or(J::Null), serde_json::from_str(json_text).unwrap_or(J::Null));
        let own = format!("{}.{}.", v.module, v.name);
        let empty = vec![];
        let (a0, a1) = (t0["validators"].as_array().unwrap_or(&empty), t1["validators"].as_array().unwrap_or(&empty));
        if a0.len() != a1.len() {
            run.violation(Violation { signature: "number-of-entries-changes".into(), what: format!("the blueprint has {} entries before and {} after applying parameters to {}.{}", a0.len(), a1.len(), v.module, v.name), case: case.clone() });
        }
        for (e0, e1) in a0.iter().zip(a1.iter()) {
            let title = e0["title"].as_str().unwrap_or("");
            if !title.starts_with(&own) && e0 != e1 {
                let what_changed: Vec<&str> = ["title", "compiledCode", "hash", "parameters", "redeemer", "datum"].into_iter().filter(|k| e0[*k] != e1[*k]).collect();
                run.violation(Violation {
                    signature: "application-changes-another-validator".into(),
                    what: format!("applying {} parameter(s) to {}.{} changed the entry {title} ({})", applied.len(), v.module, v.name, what_changed.join(", ")),
                    case: case.clone(),
                });
                break;
            }
        }
        if t0["definitions"] != t1["definitions"] || t0["preamble"] != t1["preamble"] {
            run.violation(Violation { signature: "application-changes-definitions-or-preamble".into(), what: format!("applying parameters to {}.{} changed the blueprint's definitions or preamble", v.module, v.name), case: case.clone() });
        }
    }
    if let Ok(t1) = serde_json::from_str::<J>(json_text) {
        let want = format!("v{lang_tag}");
        if t1["preamble"]["plutusVersion"].as_str() != Some(want.as_str()) {
            run.violation(Violation { signature: "plutus-version-changes".into(), what: format!("the preamble said Plutus {want} before the application and says {} after it", t1["preamble"]["plutusVersion"]), case: case.clone() });
        }
    }
    let bp = match parse_blueprint(json_text) {
        Ok(b) => b,
        Err(e) => {
            run.violation(Violation { signature: "blueprint-json-does-not-parse".into(), what: format!("the blueprint written after {} application(s) does not parse: {e}", applied.len()), case: case.clone() });
            return;
        }
    };
    // JSON round trip is the identity on text
    let again = serde_json::to_string_pretty(&bp).unwrap();
    if again != json_text {
        run.violation(Violation { signature: "blueprint-json-round-trip".into(), what: "parsing and re-serialising the blueprint changes its text".into(), case: case.clone() });
    }
    let es = entries(&bp, v);
    if es.len() != 3 {
        run.violation(Violation { signature: "handler-entries".into(), what: format!("expected 3 entries (mint, spend, else) for {}.{}, found {}", v.module, v.name, es.len()), case: case.clone() });
        return;
    }
    let txt: J = serde_json::from_str(json_text).unwrap();
    for e in &es {
        // remaining parameters = the tail
        if e.parameters.len() != v.params.len() - applied.len() {
            run.violation(Violation {
                signature: "parameters-not-the-tail".into(),
                what: format!("{}: after applying {} of {} parameters the entry lists {} remaining", e.title, applied.len(), v.params.len(), e.parameters.len()),
                case: case.clone(),
            });
        }
        // published hash = blake2b-224(0x03 || compiledCode)
        if let Some(j) = txt["validators"].as_array().and_then(|a| a.iter().find(|x| x["title"] == e.title.as_str())) {
            let code = hex::decode(j["compiledCode"].as_str().unwrap_or("")).unwrap_or_default();
            let mut pre = vec![lang_tag];
            pre.extend(&code);
            let h = hex::encode(blake2b_224(&pre));
            counters.1 += 1;
            if j["hash"].as_str() != Some(h.as_str()) {
                run.violation(Violation { signature: "hash-is-not-the-hash-of-the-code".into(), what: format!("{}: published hash {} but blake2b-224({:02x} || compiledCode) = {h} (the preamble says Plutus v{lang_tag})", e.title, j["hash"], lang_tag), case: case.clone() });
            }
        }
    }
    // all handlers of one validator share one program
    let p0 = es[0].program.inner();
    if es.iter().any(|e| e.program.inner() != p0) {
        run.violation(Violation { signature: "sibling-handlers-differ".into(), what: format!("the handlers of {}.{} no longer share one program after an application", v.module, v.name), case: case.clone() });
    }
    // behaviour: complete the application with every tuple of remaining conforming values and
    // check that the script accepts exactly the redeemer built from all parameter values
    let rest_types = &v.params[applied.len()..];
    let mut rests: Vec<Vec<RData>> = vec![vec![]];
    for t in rest_types {
        let u: Vec<RData> = values(t, 2).iter().take(2).map(|x| to_data(x, t)).collect();
        rests = rests.into_iter().flat_map(|pre| u.iter().map(move |x| [pre.as_slice(), &[x.clone()]].concat())).collect();
    }
    for rest in rests {
        let all: Vec<RData> = applied.iter().cloned().chain(rest.iter().cloned()).collect();
        let mut prog = p0.clone();
        for d in &rest {
            prog = prog.apply_data(rterm::to_impl_data(d));
        }
        let expected_mint = if all.len() == 1 { all[0].clone() } else { RData::List(all.clone()) };
        let expected_spend = RData::List(vec![all[all.len() - 1].clone(), all[0].clone()]);
        let mut probes: Vec<RData> = vec![expected_mint.clone(), expected_spend.clone(), RData::I(0.into()), RData::List(vec![])];
        if all.len() >= 2 {
            let mut sw = all.clone();
            sw.swap(0, 1);
            probes.push(RData::List(sw));
            probes.push(RData::List(all[1..].to_vec()));
        }
        for r in &probes {
            for (purpose, ctx, want) in [("mint", ctx_mint(r), *r == expected_mint), ("spend", ctx_spend(r), *r == expected_spend)] {
                counters.0 += 1;
                match accepts(&prog, &ctx) {
                    Ok(got) if got == want => {}
                    Ok(got) => run.violation(Violation {
                        signature: format!("applied-script-behaves-differently|{purpose}|{}", if want { "rejects-the-matching-redeemer" } else { "accepts-a-wrong-redeemer" }),
                        what: format!("{}.{} with parameters {} ({} applied through the blueprint): {purpose} with redeemer {} is {} but the function applied to those parameters {} it", v.module, v.name, all.iter().map(rterm::show_data).collect::<Vec<_>>().join(", "), applied.len(), rterm::show_data(r), if got { "accepted" } else { "rejected" }, if want { "accepts" } else { "rejects" }),
                        case: case.clone(),
                    }),
                    Err(p) => run.violation(Violation { signature: "evaluation-panics".into(), what: format!("evaluating the applied script panicked: {p}"), case: case.clone() }),
                }
            }
        }
    }
}

/// The same blueprint as an older release would have written it for Plutus V1 / V2: the
/// preamble's version and every hash (language tag || code) are rewritten; the reader tells the
/// language of each program from its hash.
fn relabel(initial: &str, lang_tag: u8) -> String {
    let mut t: J = serde_json::from_str(initial).unwrap();
    t["preamble"]["plutusVersion"] = json!(format!("v{lang_tag}"));
    if let Some(vs) = t["validators"].as_array_mut() {
        for v in vs {
            let code = hex::decode(v["compiledCode"].as_str().unwrap_or("")).unwrap_or_default();
            let mut pre = vec![lang_tag];
            pre.extend(&code);
            v["hash"] = json!(hex::encode(blake2b_224(&pre)));
        }
    }
    // through the real reader and writer once, so that the text is what the tool itself writes
    match parse_blueprint(&t.to_string()) {
        Ok(bp) => serde_json::to_string_pretty(&bp).unwrap(),
        Err(_) => t.to_string(),
    }
}

pub fn run(tier: Tier, replay: Option<String>) -> i32 {
    let _ = replay; // a replay re-runs the (small) search and reports the same signatures
    let mut run = Run::new("C18", tier);
    let initial_v3 = match build_initial() {
        Ok(j) => j,
        Err(e) => {
            run.machinery_error(format!("the purpose-built project does not build: {e}"));
            run.set("evaluations", 0);
            return run.finish();
        }
    };
    let per_step = if tier == Tier::Quick { 3 } else { 6 };
    let (mut states, mut transitions, mut rejected_ops, mut max_depth) = (0u64, 0u64, 0u64, 0usize);
    let mut counters = (0u64, 0u64);
    let mut outcomes: HashSet<String> = HashSet::new();
    // Plutus V3 as built; the first validators again under a V2 and a V1 label
    for lang_tag in [3u8, 2, 1] {
    let initial = if lang_tag == 3 { initial_v3.clone() } else { relabel(&initial_v3, lang_tag) };
    for (vi, v) in validators().iter().enumerate() {
        if lang_tag != 3 && vi >= (if tier == Tier::Quick { 3 } else { 14 }) {
            continue;
        }
        // BFS over application histories
        let mut frontier: VecDeque<(Vec<RData>, String)> = VecDeque::new();
        let mut seen: HashSet<String> = HashSet::new();
        frontier.push_back((vec![], initial.clone()));
        seen.insert(String::new());
        while let Some((hist, text)) = frontier.pop_front() {
            states += 1;
            max_depth = max_depth.max(hist.len());
            let case = json!({"engine":"c18","plutus_version":lang_tag,"validator":format!("{}.{}", v.module, v.name),"validator_index":vi,"history":hist.iter().map(crate::datau_json).collect::<Vec<_>>()});
            check_state(&run, &initial, &text, v, &hist, &case, &mut counters, lang_tag);
            if hist.len() == v.params.len() {
                // complete: compare with applying all parameters at once to the initial script
                let bp0 = parse_blueprint(&initial).unwrap();
                let bp = parse_blueprint(&text).unwrap();
                let (e0, e1) = (entries(&bp0, v)[0], entries(&bp, v)[0]);
                let params = RData::List(hist.clone());
                let params_cbor = vcore::flat_ref::data_cbor(&params);
                let script0 = e0.program.inner().to_cbor().unwrap();
                match uplc::tx::apply_params_to_script(&params_cbor, &script0) {
                    Ok(bytes) => {
                        if Some(bytes) != e1.program.inner().to_cbor().ok() {
                            run.violation(Violation { signature: "one-by-one-differs-from-all-at-once".into(), what: format!("{}.{}: applying {} one by one through the blueprint gives different script bytes than apply_params_to_script with all of them", v.module, v.name, hist.iter().map(rterm::show_data).collect::<Vec<_>>().join(", ")), case: case.clone() });
                        }
                    }
                    Err(e) => run.violation(Violation { signature: "apply-params-to-script-fails".into(), what: format!("{e:?}"), case: case.clone() }),
                }
                outcomes.insert(format!("{vi}:{}", text.len()));
                // one more application must be refused
                let mut bp = parse_blueprint(&text).unwrap();
                if bp.apply_parameter(Some(v.module), Some(v.name), &rterm::to_impl_data(&RData::I(0.into()))).is_ok() {
                    run.violation(Violation { signature: "applies-beyond-the-last-parameter".into(), what: format!("{}.{} accepts a parameter although none remains", v.module, v.name), case: case.clone() });
                }
                continue;
            }
            let ty = &v.params[hist.len()];
            // candidate values: conforming, mutation ball of the first conforming, other parameters' values
            let mut cands: Vec<RData> = values(ty, 2).iter().take(per_step).map(|x| to_data(x, ty)).collect();
            if let Some(first) = cands.first().cloned() {
                cands.extend(datau::mutation_ball(&first).into_iter().map(|(_, d)| d).take(if tier == Tier::Quick { 8 } else { 40 }));
            }
            for (i, t) in v.params.iter().enumerate() {
                if i != hist.len() {
                    cands.extend(values(t, 2).iter().take(1).map(|x| to_data(x, t)));
                }
            }
            let cands = datau::dedup(cands);
            for c in cands {
                transitions += 1;
                let conforming = from_data(&c, ty).is_some();
                let mut bp = parse_blueprint(&text).unwrap();
                let pd = rterm::to_impl_data(&c);
                let r = guarded(|| bp.apply_parameter(Some(v.module), Some(v.name), &pd).map_err(|e| format!("{e:?}")));
                let tcase = json!({"engine":"c18","validator":format!("{}.{}", v.module, v.name),"validator_index":vi,"history":hist.iter().map(crate::datau_json).collect::<Vec<_>>(),"candidate":crate::datau_json(&c)});
                match r {
                    Err(p) => run.violation(Violation { signature: format!("apply-parameter-panics|{}", vcore::evid::panic_site_file(&p)), what: format!("{}.{}: applying {} as parameter {} ({}) panicked: {p}", v.module, v.name, rterm::show_data(&c), hist.len(), show_ty(ty)), case: tcase }),
                    Ok(Ok(())) => {
                        if !conforming {
                            run.violation(Violation { signature: format!("non-conforming-parameter-accepted|{}", show_ty(ty)), what: format!("{}.{}: {} is not a {} but is accepted as parameter {}", v.module, v.name, rterm::show_data(&c), show_ty(ty), hist.len()), case: tcase });
                            continue;
                        }
                        let text2 = serde_json::to_string_pretty(&bp).unwrap();
                        let mut h2 = hist.clone();
                        h2.push(c.clone());
                        let key = h2.iter().map(|d| format!("{:?}", d)).collect::<Vec<_>>().join("|");
                        if seen.insert(key) {
                            frontier.push_back((h2, text2));
                        }
                    }
                    Ok(Err(e)) => {
                        rejected_ops += 1;
                        if conforming {
                            run.violation(Violation { signature: format!("conforming-parameter-rejected|{}", show_ty(ty)), what: format!("{}.{}: {} is a valid {} but is rejected as parameter {}: {}", v.module, v.name, rterm::show_data(&c), show_ty(ty), hist.len(), e.chars().take(200).collect::<String>()), case: tcase });
                        } else if serde_json::to_string_pretty(&bp).unwrap() != text {
                            run.violation(Violation { signature: "rejected-application-changes-the-blueprint".into(), what: format!("{}.{}: the rejected application of {} modified the blueprint", v.module, v.name, rterm::show_data(&c)), case: tcase });
                        }
                    }
                }
            }
        }
        if lang_tag == 3 {
            run.sample(json!({"validator": format!("{}.{}", v.module, v.name), "parameters": v.params.iter().map(show_ty).collect::<Vec<_>>()}));
        }
    }
    }
    run.set("validators", validators().len() as u64);
    run.set("states", states);
    run.set("transitions", transitions);
    run.set("rejected_applications", rejected_ops);
    run.set("max_depth", max_depth as u64);
    run.set("script_evaluations", counters.0);
    run.set("hashes_recomputed", counters.1);
    run.set("traces_validated_against_impl", states);
    run.set("evaluations", counters.0 + transitions);
    run.set("distinct_nontrivial", outcomes.len() as u64);
    run.set("rule", "state = blueprint JSON text after a history of parameter applications (re-parsed at every step); operations = apply_parameter with conforming values of the next parameter's type, the mutation ball of one of them, and values of the other parameters' types; in every state: JSON round trip, remaining parameters = tail, hash = independent blake2b-224 of (language tag of the preamble)||compiledCode, the preamble's version is unchanged, sibling handlers share the program, every entry of every other validator (incl. ones whose names extend or are extended by this one's) and the definitions are untouched, and for every completion with remaining conforming values both handlers accept exactly the redeemer built from all parameter values; complete states equal apply_params_to_script with all parameters at once; distinct_nontrivial = distinct fully applied blueprints");
    run.assume("the project configuration builds Plutus V3 only; Plutus V1/V2 blueprints are the V3 build relabelled (preamble version and hashes rewritten), which is how the reader recognises a program's language; script contexts are minimal hand-built Data values, sufficient because the handlers ignore everything but the redeemer and the purpose");
    if states < 20 || rejected_ops == 0 || counters.0 < 100 {
        run.machinery_error("vacuous: too few states / no rejected application / too few evaluations");
    }
    crate::pj::clean_work();
    run.finish()
}
