pub mod c02x;
pub mod c09;
pub mod c12;
pub mod c17;
pub mod c18;
pub mod c20;
pub use vcore::datau;
pub mod pj;

use vcore::evid::Tier;

pub fn datau_json(d: &vcore::rterm::RData) -> serde_json::Value {
    h_uplc::bvals::data_json(d)
}

pub fn dispatch(prop: &str, tier: Tier, replay: Option<String>) -> i32 {
    match prop {
        "C02" => c02x::run(tier, replay),
        "C09" => c09::run(tier, replay),
        "C12" => c12::run(tier, replay),
        "C17" => c17::run(tier, replay),
        "C18" => c18::run(tier, replay),
        "C20" => c20::run(tier, replay),
        other => {
            eprintln!("h_proj: unknown property {other}");
            2
        }
    }
}
