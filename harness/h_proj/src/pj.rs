//! Scratch Aiken projects driven through the real `aiken_project::Project` (the object the
//! CLI drives): write aiken.toml + sources under /verif/work/pj/<n>, compile, build the
//! blueprint, export functions, run tests.

use aiken_lang::ast::{TraceLevel, Tracing};
use aiken_project::{
    blueprint::Blueprint,
    options::BlueprintExport,
    telemetry::{Event, EventListener},
    Project,
};
use std::path::PathBuf;
use std::sync::atomic::{AtomicU64, Ordering};
use std::sync::{Arc, Mutex};

pub const WORK: &str = "/verif/work/pj";
static COUNTER: AtomicU64 = AtomicU64::new(0);

/// one finished test, reduced to what the properties talk about
#[derive(Debug, Clone, PartialEq)]
pub struct TestOutcome {
    pub module: String,
    pub title: String,
    pub success: bool,
    pub summary: String,
}

#[derive(Clone, Default)]
pub struct Listener {
    pub finished: Arc<Mutex<Vec<TestOutcome>>>,
}

impl EventListener for Listener {
    fn handle_event(&self, event: Event) {
        if let Event::FinishedTests { tests, .. } = event {
            let mut g = self.finished.lock().unwrap();
            for t in tests {
                g.push(TestOutcome { module: t.module().to_string(), title: t.title().to_string(), success: t.is_success(), summary: crate::c17::summarise(&t) });
            }
        }
    }
}

pub struct Scratch {
    pub dir: PathBuf,
}

impl Scratch {
    pub fn new(tag: &str, files: &[(String, String)]) -> Scratch {
        let n = COUNTER.fetch_add(1, Ordering::Relaxed);
        let dir = PathBuf::from(format!("{WORK}/{}_{}_{}", tag, std::process::id(), n));
        let _ = std::fs::remove_dir_all(&dir);
        std::fs::create_dir_all(&dir).expect("scratch dir");
        std::fs::write(dir.join("aiken.toml"), "name = \"verif/scratch\"\nversion = \"0.0.0\"\nplutus = \"v3\"\n").unwrap();
        for (path, text) in files {
            let p = dir.join(path);
            std::fs::create_dir_all(p.parent().unwrap()).unwrap();
            std::fs::write(p, text).unwrap();
        }
        Scratch { dir }
    }

    pub fn project(&self) -> Result<(Project<Listener>, Listener), String> {
        let l = Listener::default();
        let p = Project::new(self.dir.clone(), l.clone()).map_err(|e| format!("{e:?}"))?;
        Ok((p, l))
    }

    /// `aiken build`: returns the blueprint JSON text the project wrote.
    pub fn build(&self, tracing: Tracing) -> Result<String, String> {
        let (mut p, _) = self.project()?;
        let path = self.dir.join("plutus.json");
        p.build(false, tracing, path.clone(), BlueprintExport::OnlyBinaryInterface, None).map_err(|es| show_errors(&es))?;
        std::fs::read_to_string(path).map_err(|e| e.to_string())
    }
}

impl Drop for Scratch {
    fn drop(&mut self) {
        let _ = std::fs::remove_dir_all(&self.dir);
    }
}

/// compact description of a project error (the Debug impl renders a terminal diagnostic)
pub fn show_error(e: &aiken_project::error::Error) -> String {
    use aiken_project::error::Error;
    match e {
        Error::Parse { path, error, .. } => format!("parse error in {}: {:?}", path.display(), error),
        Error::Type { path, error, .. } => format!("type error in {}: {}", path.display(), format!("{:?}", error).chars().take(600).collect::<String>()),
        other => format!("{other}"),
    }
}

pub fn show_errors(es: &[aiken_project::error::Error]) -> String {
    es.iter().map(show_error).collect::<Vec<_>>().join("; ").chars().take(1500).collect()
}

pub fn silent() -> Tracing {
    Tracing::All(TraceLevel::Silent)
}

pub fn parse_blueprint(json: &str) -> Result<Blueprint, String> {
    serde_json::from_str(json).map_err(|e| e.to_string())
}

/// Remove the scratch projects of this process and those left behind by processes that no
/// longer exist (directory names are `<tag>_<pid>_<n>`).  Projects of other *live* checks are
/// left alone: removing the whole work directory made a concurrently running check fail with
/// "couldn't find any aiken.toml".
pub fn clean_work() {
    let me = std::process::id();
    let Ok(rd) = std::fs::read_dir(WORK) else { return };
    for e in rd.flatten() {
        let name = e.file_name().to_string_lossy().to_string();
        let pid = name.split('_').rev().nth(1).and_then(|p| p.parse::<u32>().ok());
        let stale = match pid {
            Some(p) if p == me => true,
            Some(p) => !std::path::Path::new(&format!("/proc/{p}")).exists(),
            None => false,
        };
        if stale {
            let _ = std::fs::remove_dir_all(e.path());
        }
    }
}
