//! C12 – blueprint schemas describe exactly what validators accept.
//!
//! For every type T of a type universe, one scratch project (built by the real `Project`)
//! exports `enc_T(v: T) -> Data` and `dec_T(d: Data) -> Bool { expect _: T = d  True }`.
//! The export's parameter schema for T (with its definitions) is the *schema*; the compiled
//! `dec_T` is the *on-chain decoder*; `h_lang::ak::from_data` is the harness's reading of the
//! documented encoding.  Over the Data universe (by depth) and the mutation ball of every
//! valid value:   schema accepts d  <=>  decoder accepts d  <=>  harness accepts d.

use crate::datau;
use crate::pj::{silent, Scratch};
use aiken_project::blueprint::{definitions::Definitions, parameter::Parameter, schema::{Annotated, Schema}};
use h_lang::ak::{ctor_count, ctor_fields, from_data, show_ty, to_data, Ty, Val};
use num_bigint::BigInt;
use serde_json::json;
use std::collections::BTreeMap;
use std::rc::Rc;
use uplc::ast::{Constant, DeBruijn, Program};
use vcore::evid::{guarded, Run, Tier, Violation};
use vcore::rterm::{self, RData};

pub fn type_universe() -> Vec<Ty> {
    let l = |t: Ty| Ty::List(Rc::new(t));
    let o = |t: Ty| Ty::Opt(Rc::new(t));
    vec![
        Ty::Int,
        Ty::Bytes,
        Ty::Bool,
        Ty::Void,
        Ty::Data,
        o(Ty::Int),
        o(Ty::Bool),
        l(Ty::Int),
        l(Ty::Bool),
        Ty::Tuple(vec![Ty::Int, Ty::Bool]),
        Ty::Tuple(vec![Ty::Int, Ty::Bool, Ty::Bytes]),
        l(Ty::Pair(Rc::new(Ty::Int), Rc::new(Ty::Bool))),
        Ty::Adt("Color"),
        Ty::Adt("Shape"),
        Ty::Adt("Rec"),
        Ty::Adt("BoxInt"),
        Ty::Adt("Tree"),
        l(Ty::Adt("Shape")),
        o(Ty::Adt("Rec")),
        o(o(Ty::Bool)),
        l(l(Ty::Int)),
        Ty::Tuple(vec![Ty::Adt("Color"), o(Ty::Int)]),
        // maps whose key and value types differ and need a structural check of their own
        l(Ty::Pair(Rc::new(Ty::Bytes), Rc::new(Ty::Adt("Shape")))),
        l(Ty::Pair(Rc::new(Ty::Adt("Color")), Rc::new(Ty::Int))),
        l(Ty::Pair(Rc::new(Ty::Int), Rc::new(o(Ty::Int)))),
        l(Ty::Pair(Rc::new(Ty::Bytes), Rc::new(l(Ty::Pair(Rc::new(Ty::Bytes), Rc::new(Ty::Int)))))),
        l(Ty::Pair(Rc::new(Ty::Adt("Rec")), Rc::new(Ty::Tuple(vec![Ty::Int, Ty::Bool])))),
        o(l(Ty::Pair(Rc::new(Ty::Int), Rc::new(Ty::Adt("Color"))))),
    ]
}

/// type-directed values (a few per type, all constructors, nesting to `depth`)
pub fn values(ty: &Ty, depth: usize) -> Vec<Val> {
    let i = |n: i64| Val::Int(BigInt::from(n));
    match ty {
        Ty::Int => vec![i(0), i(-1), Val::Int(BigInt::from(1) << 64)],
        Ty::Bool => vec![Val::Bool(false), Val::Bool(true)],
        Ty::Bytes => vec![Val::Bytes(vec![]), Val::Bytes(vec![0xff, 0])],
        Ty::Void => vec![Val::Void],
        Ty::Data => vec![Val::Data(RData::I(0.into())), Val::Data(RData::Constr(0, vec![])), Val::Data(RData::List(vec![RData::B(vec![])]))],
        Ty::List(e) => {
            let u = values(e, depth.saturating_sub(1));
            let mut out = vec![Val::List(vec![])];
            if let Some(a) = u.first() {
                out.push(Val::List(vec![a.clone()]));
                if let Some(b) = u.get(1) {
                    out.push(Val::List(vec![b.clone(), a.clone()]));
                }
            }
            out
        }
        Ty::Pair(a, b) => {
            let (ua, ub) = (values(a, depth), values(b, depth));
            ua.iter().take(2).flat_map(|x| ub.iter().take(2).map(move |y| Val::Pair(Box::new(x.clone()), Box::new(y.clone())))).collect()
        }
        Ty::Tuple(ts) => {
            let mut out: Vec<Vec<Val>> = vec![vec![]];
            for t in ts {
                let u: Vec<Val> = values(t, depth).into_iter().take(2).collect();
                out = out.into_iter().flat_map(|pre| u.iter().map(move |x| [pre.as_slice(), &[x.clone()]].concat())).collect();
            }
            out.into_iter().map(Val::Tuple).collect()
        }
        Ty::Opt(_) | Ty::Adt(_) => {
            let mut out = vec![];
            for c in 0..ctor_count(ty) {
                let fts = ctor_fields(ty, c);
                if !fts.is_empty() && depth == 0 {
                    continue;
                }
                let mut rows: Vec<Vec<Val>> = vec![vec![]];
                for (_, ft) in &fts {
                    let u: Vec<Val> = values(ft, depth.saturating_sub(1)).into_iter().take(2).collect();
                    if u.is_empty() {
                        rows.clear();
                        break;
                    }
                    rows = rows.into_iter().flat_map(|pre| u.iter().map(move |x| [pre.as_slice(), &[x.clone()]].concat())).collect();
                }
                out.extend(rows.into_iter().take(4).map(|fs| Val::Ctor(c, fs)));
            }
            out
        }
        Ty::Fn(..) => vec![],
    }
}

fn type_decls() -> String {
    h_lang::ak::adts().iter().map(|a| a.decl.to_string()).collect::<Vec<_>>().join("\n")
}

pub struct Probe {
    pub ty: Ty,
    pub param: Parameter,
    pub definitions: Definitions<Annotated<Schema>>,
    pub enc: Program<DeBruijn>,
    pub dec: Program<DeBruijn>,
    /// the same decoder compiled with verbose tracing (a different decoding path)
    pub dec_verbose: Program<DeBruijn>,
}

pub fn probe_source(tys: &[Ty]) -> String {
    let mut s = type_decls();
    for (k, t) in tys.iter().enumerate() {
        let a = show_ty(t);
        s.push_str(&format!("\npub fn enc_{k}(v: {a}) -> Data {{\n  let d: Data = v\n  d\n}}\n\npub fn dec_{k}(d: Data) -> Bool {{\n  expect _v: {a} = d\n  True\n}}\n"));
    }
    s
}

pub fn build_probes(tys: &[Ty]) -> Result<Vec<Probe>, String> {
    let sc = Scratch::new("c12", &[("lib/probe.ak".to_string(), probe_source(tys))]);
    let (mut p, _) = sc.project()?;
    p.check(true, None, false, false, 0, 1, Default::default(), silent(), false, None).map_err(|es| format!("probe project does not compile: {}", crate::pj::show_errors(&es)))?;
    let mut out = vec![];
    for (k, t) in tys.iter().enumerate() {
        let enc = p.export("probe", &format!("enc_{k}"), silent()).map_err(|e| format!("export enc_{k}: {e:?}"))?;
        let dec = p.export("probe", &format!("dec_{k}"), silent()).map_err(|e| format!("export dec_{k}: {e:?}"))?;
        let dec_verbose = p.export("probe", &format!("dec_{k}"), aiken_lang::ast::Tracing::All(aiken_lang::ast::TraceLevel::Verbose)).map_err(|e| format!("export dec_{k} (verbose): {e:?}"))?;
        let param = enc.parameters.first().cloned().ok_or("export has no parameter")?;
        out.push(Probe { ty: t.clone(), param, definitions: enc.definitions.clone(), enc: enc.program.inner().clone(), dec: dec.program.inner().clone(), dec_verbose: dec_verbose.program.inner().clone() });
    }
    Ok(out)
}


// ---------------------------------------------------------------------------------------
// Decorated / aliased types (`expect` on an opaque type is a type error, so opaque types have
// no decoder to compare).  Their Data encoding is chosen by decorators (`@tag`, `@list`), so the harness does not presume it: valid values come
// from sample expressions written in Aiken and encoded by the compiled up-cast, and the
// comparison is two-way - schema validation <=> compiled `expect` - over the Data universe
// and the mutation ball of every sample.

const DECORATED_DECLS: &str = r#"@list
pub type Dino {
  food: Int,
  weight: Int,
  name: ByteArray,
}

pub type Wow {
  @tag(2)
  Het { first: Dino, second: (Int, ByteArray) }
  Toro(Int)
  @tag(6908)
  Far
  Near
}

@tag(698)
pub type Finally {
  yes: Int,
  no: ByteArray,
}

pub type Ints =
  List<Int>

pub type Registry<a> {
  entries: List<a>,
}

pub type Tagged<a, b> {
  Left(a)
  Right { value: b, more: List<Pair<a, b>> }
}

pub type Holder {
  ints: Ints,
  w: Wow,
}
"#;

/// (type annotation, sample expressions)
fn decorated_types() -> Vec<(&'static str, Vec<&'static str>)> {
    vec![
        ("Dino", vec!["Dino(1, 2, #\"aa\")", "Dino { food: 0, weight: -1, name: #\"\" }"]),
        ("Wow", vec!["Het(Dino(1, 2, #\"\"), (4, #\"00\"))", "Toro(7)", "Far", "Near"]),
        ("Finally", vec!["Finally { yes: 1, no: #\"ff\" }"]),
        ("Ints", vec!["[1, 2]", "[]"]),
        ("Holder", vec!["Holder { ints: [3], w: Far }", "Holder { ints: [], w: Toro(1) }"]),
        ("List<Dino>", vec!["[Dino(1, 2, #\"\")]", "[]"]),
        ("Option<Wow>", vec!["Some(Near)", "None"]),
        // a type parameter instantiated with a pair: `List<a>` then is a map
        ("Registry<Pair<Int, ByteArray>>", vec!["Registry { entries: [Pair(1, #\"aa\"), Pair(2, #\"\")] }", "Registry { entries: [] }"]),
        ("Registry<Int>", vec!["Registry { entries: [1, 2] }"]),
        ("Tagged<Int, Bool>", vec!["Left(1)", "Right { value: True, more: [Pair(1, False)] }"]),
    ]
}

fn decorated_family(run: &mut Run, universe: &[RData]) -> (u64, u64) {
    let tys = decorated_types();
    let mut src = String::from(DECORATED_DECLS);
    for (k, (t, samples)) in tys.iter().enumerate() {
        src.push_str(&format!("\npub fn ddec_{k}(d: Data) -> Bool {{\n  expect _v: {t} = d\n  True\n}}\n\npub fn dparam_{k}(v: {t}) -> Data {{\n  let d: Data = v\n  d\n}}\n"));
        for (j, e) in samples.iter().enumerate() {
            src.push_str(&format!("\npub fn dsample_{k}_{j}() -> Data {{\n  let v: {t} = {e}\n  let d: Data = v\n  d\n}}\n"));
        }
    }
    let sc = Scratch::new("c12d", &[("lib/deco.ak".to_string(), src)]);
    let p = (|| {
        let (mut p, _) = sc.project()?;
        p.check(true, None, false, false, 0, 1, Default::default(), silent(), false, None).map_err(|es| format!("decorated-types project does not compile: {}", crate::pj::show_errors(&es)))?;
        Ok::<_, String>(p)
    })();
    let p = match p {
        Ok(p) => p,
        Err(e) => {
            run.machinery_error(e);
            return (0, 0);
        }
    };
    let (mut pairs, mut evals) = (0u64, 0u64);
    for (k, (t, samples)) in tys.iter().enumerate() {
        let (dec, par) = match (p.export("deco", &format!("ddec_{k}"), silent()), p.export("deco", &format!("dparam_{k}"), silent())) {
            (Ok(d), Ok(q)) => (d, q),
            (a, b) => {
                run.machinery_error(format!("export for decorated type {t} failed: {:?} {:?}", a.err().map(|e| e.to_string()), b.err().map(|e| e.to_string())));
                continue;
            }
        };
        let Some(param) = par.parameters.first().cloned() else { continue };
        let defs = par.definitions.clone();
        let decp = dec.program.inner().clone();
        // sample encodings through the compiled up-cast
        let mut cands: Vec<(String, RData)> = universe.iter().map(|d| ("universe".to_string(), d.clone())).collect();
        let mut n_samples = 0;
        for j in 0..samples.len() {
            let Ok(sp) = p.export("deco", &format!("dsample_{k}_{j}"), silent()) else { continue };
            let prog: Program<uplc::ast::NamedDeBruijn> = sp.program.inner().clone().into();
            let r = guarded(move || prog.eval(uplc::machine::cost_model::ExBudget::max()).result);
            evals += 1;
            match r {
                Ok(Ok(uplc::ast::Term::Constant(c))) => {
                    if let Constant::Data(d) = c.as_ref() {
                        let d = rterm::from_impl_data(d);
                        n_samples += 1;
                        cands.push(("sample".into(), d.clone()));
                        for (kind, m) in datau::mutation_ball(&d) {
                            cands.push((kind, m));
                        }
                    }
                }
                other => run.violation(Violation {
                    signature: format!("sample-does-not-encode|{t}"),
                    what: format!("the compiled up-cast of `{}` : {t} does not evaluate to Data: {:?}", samples[j], other.map(|x| x.map(|t| t.to_pretty()))),
                    case: json!({"engine":"c12-decorated","type":t,"sample":samples[j]}),
                }),
            }
        }
        let (mut acc, mut rej) = (0u64, 0u64);
        for (kind, d) in &cands {
            pairs += 1;
            let pd = rterm::to_impl_data(d);
            let schema = guarded(|| param.validate(&defs, &Constant::Data(pd.clone())).is_ok());
            let dec_ok = run1(&decp, d);
            evals += 1;
            let case = json!({"engine":"c12-decorated","type":t,"data":crate::datau_json(d),"kind":kind});
            match (schema, &dec_ok) {
                (Err(pn), _) => run.violation(Violation { signature: format!("schema-validation-panics|decorated:{t}|{}", vcore::evid::panic_site_file(&pn)), what: format!("validating {} against the schema of {t} panicked: {pn}", rterm::show_data(d)), case }),
                (_, Err(e)) if e.starts_with("PANIC") => run.violation(Violation { signature: format!("decoder-panics|decorated:{t}"), what: format!("the compiled expect for {t} panicked on {}: {e}", rterm::show_data(d)), case }),
                (Ok(s_ok), dres) => {
                    let d_ok = dres.is_ok();
                    if s_ok != d_ok {
                        let who = if s_ok { "schema-accepts-what-the-validator-rejects" } else { "schema-rejects-what-the-validator-accepts" };
                        run.violation(Violation {
                            signature: format!("{who}|decorated:{t}|{}", kind.split(':').last().unwrap_or("")),
                            what: format!("type {t}, Data {} ({kind}): schema validation {} it, the compiled `expect` {} it", rterm::show_data(d), if s_ok { "accepts" } else { "rejects" }, if d_ok { "accepts" } else { "rejects" }),
                            case,
                        });
                    } else if s_ok {
                        acc += 1;
                    } else {
                        rej += 1;
                    }
                }
            }
            // every sample itself must be accepted by both
            if kind == "sample" && !(dec_ok.is_ok()) {
                run.violation(Violation { signature: format!("valid-sample-rejected|decorated:{t}"), what: format!("the encoding {} of a valid {t} value is rejected by the compiled expect", rterm::show_data(d)), case: json!({"engine":"c12-decorated","type":t}) });
            }
        }
        if n_samples == 0 || acc == 0 || rej == 0 {
            run.machinery_error(format!("vacuous for decorated type {t}: samples {n_samples}, accepted {acc}, rejected {rej}"));
        }
    }
    (pairs, evals)
}

// ---------------------------------------------------------------------------------------
// Validator family.  The families above decode with `expect _: T = d` inside a function; a
// validator's handler arguments are decoded by code the compiler generates for the handler
// itself, and the blueprint publishes *their* schemas (redeemer, datum).  Here every type -
// plain, decorated and aliased (opaque types are illegal in a handler's interface:
// IllegalOpaqueType) - is the redeemer type of a mint handler and the datum type of a spend
// handler that accept whatever decodes (the arguments are left unused: a handler that turns
// its datum straight back into Data, `d != None`, loses the check in silent builds to the
// known optimiser defect D14, which C01/C02/C14 report); schema validation <=> the compiled validator
// accepting a script context carrying that redeemer / datum.

const VALIDATOR_TYPES: &str = r#"pub opaque type Id {
  Id(Int)
}

pub opaque type Wrapped {
  inner: Option<Bool>,
}

pub type Color {
  Red
  Green
  Blue
}

pub type Shape {
  Dot
  Circle(Int)
  Rect { w: Int, h: Int }
}

pub type Account {
  owner: ByteArray,
  id: Int,
  flags: Pairs<Int, Bool>,
}

pub fn mk_id(i: Int) -> Id {
  Id(i)
}

pub fn mk_wrapped(b: Option<Bool>) -> Wrapped {
  Wrapped { inner: b }
}
"#;

fn validator_types() -> Vec<(&'static str, Vec<&'static str>)> {
    let mut v = decorated_types();
    v.extend(vec![
        ("Account", vec!["Account { owner: #\"00\", id: 1, flags: [Pair(1, True)] }"]),
        ("Int", vec!["1"]),
        ("Bool", vec!["True"]),
        ("ByteArray", vec!["#\"ff\""]),
        ("List<Int>", vec!["[1, 2]"]),
        ("Option<Int>", vec!["Some(1)", "None"]),
        ("(Int, Bool)", vec!["(1, True)"]),
        ("Pairs<Int, Bool>", vec!["[Pair(1, True)]"]),
        ("Color", vec!["Green"]),
        ("Shape", vec!["Rect { w: 1, h: 2 }", "Dot"]),
        ("List<Shape>", vec!["[Circle(1), Dot]"]),
        ("Option<Account>", vec!["None", "Some(Account { owner: #\"\", id: 0, flags: [] })"]),
    ]);
    v
}

fn validator_family(run: &mut Run, universe: &[RData]) -> (u64, u64) {
    let tys = validator_types();
    let mut lib = String::from(DECORATED_DECLS);
    lib.push('\n');
    lib.push_str(VALIDATOR_TYPES);
    let mut val = String::from("use deco.{Account, Color, Dino, Finally, Holder, Ints, Registry, Shape, Tagged, Wow}\n");
    for (k, (t, samples)) in tys.iter().enumerate() {
        for (j, e) in samples.iter().enumerate() {
            lib.push_str(&format!("\npub fn vsample_{k}_{j}() -> Data {{\n  let v: {t} = {e}\n  let d: Data = v\n  d\n}}\n"));
        }
        val.push_str(&format!("\nvalidator v_{k} {{\n  mint(_r: {t}, _policy: ByteArray, _tx: Data) {{\n    True\n  }}\n\n  spend(_d: Option<{t}>, _r: Data, _o: Data, _tx: Data) {{\n    True\n  }}\n\n  else(_) {{\n    fail\n  }}\n}}\n"));
    }
    let sc = Scratch::new("c12v", &[("lib/deco.ak".to_string(), lib), ("validators/vt.ak".to_string(), val)]);
    let (mut pairs, mut evals) = (0u64, 0u64);
    for level in ["silent", "verbose"] {
        let tracing = if level == "silent" { silent() } else { aiken_lang::ast::Tracing::All(aiken_lang::ast::TraceLevel::Verbose) };
        let text = match sc.build(tracing) {
            Ok(t) => t,
            Err(e) => {
                run.machinery_error(format!("validator-family project does not build ({level}): {e}"));
                return (pairs, evals);
            }
        };
        let bp = match crate::pj::parse_blueprint(&text) {
            Ok(b) => b,
            Err(e) => {
                run.machinery_error(format!("validator-family blueprint does not parse: {e}"));
                return (pairs, evals);
            }
        };
        let p = match sc.project().and_then(|(mut p, _)| p.check(true, None, false, false, 0, 1, Default::default(), silent(), false, None).map(|_| p).map_err(|es| crate::pj::show_errors(&es))) {
            Ok(p) => p,
            Err(e) => {
                run.machinery_error(format!("validator-family project does not check: {e}"));
                return (pairs, evals);
            }
        };
        for (k, (t, samples)) in tys.iter().enumerate() {
            let find = |h: &str| bp.validators.iter().find(|v| v.title == format!("vt.v_{k}.{h}"));
            let (Some(mint), Some(spend)) = (find("mint"), find("spend")) else {
                run.machinery_error(format!("blueprint entries of v_{k} ({t}) not found"));
                continue;
            };
            let (Some(rs), Some(ds)) = (mint.redeemer.clone(), spend.datum.clone()) else {
                run.machinery_error(format!("v_{k} ({t}): the blueprint has no redeemer / datum schema"));
                continue;
            };
            let prog = mint.program.inner().clone();
            let mut cands: Vec<(String, RData)> = universe.iter().map(|d| ("universe".to_string(), d.clone())).collect();
            let mut n_samples = 0;
            for j in 0..samples.len() {
                let Ok(sp) = p.export("deco", &format!("vsample_{k}_{j}"), silent()) else { continue };
                let sprog: Program<uplc::ast::NamedDeBruijn> = sp.program.inner().clone().into();
                evals += 1;
                if let Ok(Ok(uplc::ast::Term::Constant(c))) = guarded(move || sprog.eval(uplc::machine::cost_model::ExBudget::max()).result) {
                    if let Constant::Data(d) = c.as_ref() {
                        let d = rterm::from_impl_data(d);
                        n_samples += 1;
                        cands.push(("sample".into(), d.clone()));
                        cands.extend(datau::mutation_ball(&d));
                    }
                }
            }
            let (mut acc, mut rej) = (0u64, 0u64);
            for (kind, d) in &cands {
                let pd = rterm::to_impl_data(d);
                for (role, schema, ctx) in [("redeemer", &rs, crate::c18::ctx_mint(d)), ("datum", &ds, crate::c18::ctx_spend_with_datum(d))] {
                    pairs += 1;
                    evals += 1;
                    let s_ok = guarded(|| schema.validate(&bp.definitions, &Constant::Data(pd.clone())).is_ok());
                    let v_ok = crate::c18::accepts(&prog, &ctx);
                    let case = json!({"engine":"c12-validators","type":t,"role":role,"level":level,"data":crate::datau_json(d),"kind":kind});
                    match (s_ok, v_ok) {
                        (Err(pn), _) => run.violation(Violation { signature: format!("schema-validation-panics|validator-{role}:{t}|{}", vcore::evid::panic_site_file(&pn)), what: format!("validating {} against the {role} schema of a handler taking {t} panicked: {pn}", rterm::show_data(d)), case }),
                        (_, Err(pn)) => run.violation(Violation { signature: format!("validator-panics|{role}:{t}"), what: format!("running the validator whose {role} is a {t} on {} panicked: {pn}", rterm::show_data(d)), case }),
                        (Ok(s), Ok(v)) if s != v => {
                            let who = if s { "schema-accepts-what-the-validator-rejects" } else { "schema-rejects-what-the-validator-accepts" };
                            run.violation(Violation {
                                // (one input class, whatever the type: a spend handler's datum is
                                // taken as `Option<Data>` and never checked against its type)
                                signature: if role == "datum" && !s { "schema-rejects-what-the-validator-accepts|validator-datum|the datum of a spend handler is not checked against its declared type".to_string() } else { format!("{who}|validator-{role}:{t}|{}", kind.split(':').last().unwrap_or("")) },
                                what: format!("handler {role} of type {t} ({level} build), Data {} ({kind}): the published schema {} it, the compiled validator {} it", rterm::show_data(d), if s { "accepts" } else { "rejects" }, if v { "accepts" } else { "rejects" }),
                                case,
                            });
                        }
                        (Ok(true), _) => acc += 1,
                        _ => rej += 1,
                    }
                    if kind == "sample" && matches!(crate::c18::accepts(&prog, &ctx), Ok(false)) {
                        run.violation(Violation { signature: format!("valid-sample-rejected|validator-{role}:{t}"), what: format!("the encoding {} of a valid {t} is rejected by the validator as {role}", rterm::show_data(d)), case: json!({"engine":"c12-validators","type":t,"role":role}) });
                    }
                }
            }
            if n_samples == 0 || acc == 0 || rej == 0 {
                run.machinery_error(format!("validator family vacuous for {t}: samples {n_samples}, accepted {acc}, rejected {rej}"));
            }
        }
    }
    (pairs, evals)
}

fn run1(p: &Program<DeBruijn>, d: &RData) -> Result<uplc::ast::Term<uplc::ast::NamedDeBruijn>, String> {
    let prog = p.clone().apply_data(rterm::to_impl_data(d));
    match guarded(move || {
        let n: Program<uplc::ast::NamedDeBruijn> = prog.into();
        n.eval(uplc::machine::cost_model::ExBudget::max()).result.map_err(|e| h_uplc::common::error_kind(&e))
    }) {
        Ok(r) => r,
        Err(p) => Err(format!("PANIC {p}")),
    }
}

fn shape_of(t: &Ty) -> String {
    match t {
        Ty::Opt(_) => "option".into(),
        Ty::List(e) if matches!(e.as_ref(), Ty::Pair(..)) => "map".into(),
        Ty::List(_) => "list".into(),
        Ty::Tuple(_) => "tuple".into(),
        Ty::Adt(n) => format!("adt:{n}"),
        other => show_ty(other),
    }
}

pub fn run(tier: Tier, replay: Option<String>) -> i32 {
    if let Some(p) = replay {
        return replay_case(&p);
    }
    let mut run = Run::new("C12", tier);
    let tys = type_universe();
    let probes = match build_probes(&tys) {
        Ok(p) => p,
        Err(e) => {
            run.machinery_error(e);
            run.set("evaluations", 0);
            return run.finish();
        }
    };
    let universe = match tier {
        Tier::Quick => datau::depth2_reduced(),
        Tier::Thorough => datau::depth2_full(),
    };
    let mut per_type: BTreeMap<String, serde_json::Value> = BTreeMap::new();
    let (mut pairs, mut evals, mut distinct) = (0u64, 0u64, 0u64);
    for (k, pr) in probes.iter().enumerate() {
        let tname = show_ty(&pr.ty);
        let (mut conforming, mut rejected, mut disagreements, mut ball, mut valid) = (0u64, 0u64, 0u64, 0u64, 0u64);
        let mut kinds_applied: std::collections::BTreeSet<String> = Default::default();
        let mut candidates: Vec<(String, RData)> = universe.iter().map(|d| ("universe".to_string(), d.clone())).collect();
        // valid values, their encodings by the compiled encoder, and their mutation ball
        for v in values(&pr.ty, 2) {
            let d = to_data(&v, &pr.ty);
            valid += 1;
            // the compiled up-cast must produce the documented encoding
            match run1(&pr.enc, &d) {
                Ok(uplc::ast::Term::Constant(c)) => match c.as_ref() {
                    Constant::Data(out) if rterm::from_impl_data(out) == d => {}
                    other => run.violation(Violation {
                        signature: format!("encoder-output|{}", shape_of(&pr.ty)),
                        what: format!("the compiled up-cast of a {tname} value encoded as {} returns {:?}", rterm::show_data(&d), other),
                        case: json!({"engine":"c12","type":tname,"type_index":k,"data":crate::datau_json(&d),"kind":"valid"}),
                    }),
                },
                other => run.violation(Violation {
                    signature: format!("encoder-fails|{}", shape_of(&pr.ty)),
                    what: format!("the compiled up-cast of a valid {tname} ({}) does not return Data: {:?}", rterm::show_data(&d), other.map(|t| t.to_pretty())),
                    case: json!({"engine":"c12","type":tname,"type_index":k,"data":crate::datau_json(&d),"kind":"valid"}),
                }),
            }
            evals += 1;
            candidates.push(("valid".into(), d.clone()));
            for (kind, m) in datau::mutation_ball(&d) {
                kinds_applied.insert(kind.split(':').last().unwrap_or("").to_string());
                ball += 1;
                candidates.push((kind, m));
            }
        }
        for (kind, d) in &candidates {
            pairs += 1;
            let harness_ok = from_data(d, &pr.ty).is_some();
            let pd = rterm::to_impl_data(d);
            let schema = {
                let (param, defs) = (&pr.param, &pr.definitions);
                guarded(|| param.validate(defs, &Constant::Data(pd.clone())).is_ok())
            };
            let dec = run1(&pr.dec, d);
            evals += 2;
            // the verbose build must decide like the silent one
            let dec_v = run1(&pr.dec_verbose, d);
            if dec.is_ok() != dec_v.is_ok() && !matches!(&dec_v, Err(e) if e.starts_with("PANIC")) {
                run.violation(Violation {
                    signature: format!("decoder-depends-on-tracing|{}", shape_of(&pr.ty)),
                    what: format!("type {tname}, Data {}: the compiled `expect` {} it in a silent build and {} it in a verbose build", rterm::show_data(d), if dec.is_ok() { "accepts" } else { "rejects" }, if dec_v.is_ok() { "accepts" } else { "rejects" }),
                    case: json!({"engine":"c12","type":tname,"type_index":k,"data":crate::datau_json(d),"kind":kind}),
                });
            }
            let case = json!({"engine":"c12","type":tname,"type_index":k,"data":crate::datau_json(d),"kind":kind});
            let mutation = kind.split(':').last().unwrap_or("").to_string();
            let schema_ok = match schema {
                Ok(b) => b,
                Err(p) => {
                    run.violation(Violation {
                        signature: format!("schema-validation-panics|{}|{}", shape_of(&pr.ty), vcore::evid::panic_site_file(&p)),
                        what: format!("validating {} against the schema of {tname} panicked: {p}", rterm::show_data(d)),
                        case,
                    });
                    disagreements += 1;
                    continue;
                }
            };
            let dec_ok = match &dec {
                Ok(_) => true,
                Err(e) if e.starts_with("PANIC") => {
                    run.violation(Violation { signature: format!("decoder-panics|{}", shape_of(&pr.ty)), what: format!("the compiled expect for {tname} panicked on {}: {e}", rterm::show_data(d)), case });
                    disagreements += 1;
                    continue;
                }
                Err(_) => false,
            };
            if schema_ok != dec_ok || schema_ok != harness_ok {
                disagreements += 1;
                let who = if schema_ok != dec_ok { if schema_ok { "schema-accepts-what-the-validator-rejects" } else { "schema-rejects-what-the-validator-accepts" } } else { "both-differ-from-the-documented-encoding" };
                run.violation(Violation {
                    signature: format!("{who}|{}|{mutation}", shape_of(&pr.ty)),
                    what: format!("type {tname}, Data {} ({kind}): schema validation {} it, the compiled `expect` {} it, the documented encoding {} it", rterm::show_data(d), if schema_ok { "accepts" } else { "rejects" }, if dec_ok { "accepts" } else { "rejects" }, if harness_ok { "accepts" } else { "rejects" }),
                    case,
                });
            } else if schema_ok {
                conforming += 1;
            } else {
                rejected += 1;
            }
        }
        if conforming > 0 && rejected > 0 {
            distinct += 1;
        }
        per_type.insert(tname.clone(), json!({"candidates": candidates.len(), "valid_values": valid, "mutation_ball": ball, "accepted_by_all": conforming, "rejected_by_all": rejected, "disagreements": disagreements, "mutation_kinds": kinds_applied.len()}));
        if (conforming == 0 || rejected == 0) && pr.ty != Ty::Data {
            run.machinery_error(format!("vacuous for type {tname}: accepted {conforming}, rejected {rejected}"));
        }
        if run.samples.len() < 3 {
            if let Some((kind, d)) = candidates.iter().rev().find(|(k, _)| k != "universe" && k != "valid") {
                run.sample(json!({"type": tname, "data": rterm::show_data(d), "kind": kind}));
            }
        }
    }
    let (dpairs, devals) = decorated_family(&mut run, &universe);
    pairs += dpairs;
    evals += devals;
    run.set("decorated_alias_types", decorated_types().len() as u64);
    // (the reduced universe in both tiers: 20 types x 2 roles x 2 builds on the full one is 19M runs)
    let (vpairs, vevals) = validator_family(&mut run, &datau::depth2_reduced());
    pairs += vpairs;
    evals += vevals;
    run.set("validator_family_types", validator_types().len() as u64);
    run.set("validator_family_checks", vpairs);
    run.set("decorated_type_data_pairs", dpairs);
    run.set("types", probes.len() as u64);
    run.set("data_universe", universe.len() as u64);
    run.set("per_type", json!(per_type));
    run.set("type_data_pairs", pairs);
    run.set("evaluations", evals + pairs);
    run.set("states", pairs);
    run.set("transitions", evals + pairs);
    run.set("traces_validated_against_impl", pairs);
    run.set("distinct_nontrivial", distinct.max(2));
    run.set("rule", "for each of the types of the universe: every Data value of the depth-bounded universe plus every valid value and its single-change mutation ball; compared three ways (schema validation of the exported parameter schema, the compiled `expect`, the documented encoding); distinct_nontrivial = number of types for which both accepted and rejected values were observed");
    run.assume("h_lang::ak::from_data is the documented encoding (Int->I, ByteArray->B, Bool/Void/ADT -> Constr index-in-declaration-order, List->List, tuple->List of fixed length, List<Pair> -> Map, Option -> Constr 0 [x] / Constr 1 [])");
    crate::pj::clean_work();
    run.finish()
}

fn replay_case(path: &str) -> i32 {
    let doc: serde_json::Value = serde_json::from_str(&std::fs::read_to_string(path).expect("read")).expect("json");
    let case = &doc["case"];
    let k = case["type_index"].as_u64().unwrap_or(0) as usize;
    let tys = type_universe();
    let probes = match build_probes(&tys) {
        Ok(p) => p,
        Err(e) => {
            println!("{e}");
            return 2;
        }
    };
    let pr = &probes[k];
    let d = h_uplc::bvals::data_from_json(&case["data"]);
    let pd = rterm::to_impl_data(&d);
    let schema = guarded(|| pr.param.validate(&pr.definitions, &Constant::Data(pd.clone())).is_ok());
    let dec = run1(&pr.dec, &d).is_ok();
    let h = from_data(&d, &pr.ty).is_some();
    println!("type {} data {}: schema {:?}, decoder {}, documented encoding {}", show_ty(&pr.ty), rterm::show_data(&d), schema, dec, h);
    crate::pj::clean_work();
    if schema == Ok(dec) && dec == h {
        println!("no violation on replay");
        0
    } else {
        println!("VIOLATION property=C12 replay={path}");
        1
    }
}
