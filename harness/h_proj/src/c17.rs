//! C17 – parallel test runs are isolated and schedule-independent.
//!
//! rayon's schedules cannot be enumerated, but they do not have to be: if no allocation
//! whose (non-atomic) reference count a worker may touch is reachable from two tests, or
//! from a test and anything the main thread retains, every pair of worker transitions
//! commutes and one run stands for all schedules.  The check decides that independence
//! relation exhaustively over test-set configurations (every subset of a collision-prone
//! test set, every trace level) with hook H2, which hands the harness the exact `Vec<Test>`
//! about to enter the parallel iterator; it then confirms on a spanning family that the
//! results are identical for RAYON_NUM_THREADS in {1,2,3,16} (child processes).

use crate::pj::{Scratch, TestOutcome};
use aiken_lang::ast::{TraceLevel, Tracing};
use aiken_lang::expr::UntypedExpr;
use aiken_lang::test_framework::{Test, TestResult};
use serde_json::json;
use std::collections::{BTreeMap, HashMap, HashSet};
use std::rc::Rc;
use std::sync::Mutex;
use uplc::ast::{Constant, Name, Program, Term, Type};
use vcore::evid::{Run, Tier, Violation};

pub fn summarise(t: &TestResult<UntypedExpr, UntypedExpr>) -> String {
    match t {
        TestResult::UnitTestResult(u) => format!("unit success={} cpu={} mem={} logs={:?} assertion={}", u.success, u.spent_budget.cpu, u.spent_budget.mem, u.logs, u.assertion.is_some()),
        TestResult::PropertyTestResult(p) => format!(
            "property success={} iterations={} labels={:?} counterexample={} logs={:?}",
            t.is_success(),
            p.iterations,
            p.labels,
            match &p.counterexample {
                Ok(None) => "none".to_string(),
                Ok(Some(e)) => aiken_lang::format::Formatter::new().expr(e, false).to_pretty_string(80),
                Err(e) => format!("error:{}", h_uplc::common::error_kind(e)),
            },
            p.logs
        ),
        TestResult::BenchmarkResult(_) => "bench".into(),
    }
}

// ---------------------------------------------------------------------------------------
// the project

pub const FUZZ_LIB: &str = r#"use aiken/builtin

pub fn byte() -> Fuzzer<Int> {
  fn(prng: PRNG) -> Option<(PRNG, Int)> {
    when prng is {
      Seeded { seed, choices } -> {
        let choice = builtin.index_bytearray(seed, 0)
        Some(
          (
            Seeded {
              seed: builtin.blake2b_256(seed),
              choices: builtin.cons_bytearray(choice, choices),
            },
            choice,
          ),
        )
      }
      Replayed { cursor, choices } ->
        if cursor >= 1 {
          let cursor = cursor - 1
          Some((Replayed { cursor, choices }, builtin.index_bytearray(choices, cursor)))
        } else {
          None
        }
    }
  }
}

pub fn constant(a: a) -> Fuzzer<a> {
  fn(prng) { Some((prng, a)) }
}

pub fn map(fuzz_a: Fuzzer<a>, f: fn(a) -> b) -> Fuzzer<b> {
  fn(prng) {
    when fuzz_a(prng) is {
      Some((prng2, a)) -> Some((prng2, f(a)))
      None -> None
    }
  }
}

pub fn and_then(fuzz_a: Fuzzer<a>, f: fn(a) -> Fuzzer<b>) -> Fuzzer<b> {
  fn(prng) {
    when fuzz_a(prng) is {
      Some((prng2, a)) -> f(a)(prng2)
      None -> None
    }
  }
}

pub fn list_of_n(n: Int, fuzz_a: Fuzzer<a>) -> Fuzzer<List<a>> {
  if n <= 0 {
    constant([])
  } else {
    and_then(fuzz_a, fn(x) { map(list_of_n(n - 1, fuzz_a), fn(xs) { [x, ..xs] }) })
  }
}

pub fn list_of(fuzz_a: Fuzzer<a>) -> Fuzzer<List<a>> {
  and_then(byte(), fn(n) { list_of_n(n % 4, fuzz_a) })
}
"#;

pub const COLL_LIB: &str = r#"use fuzz.{byte, list_of}

pub type Color {
  Red
  Green
  Blue
}

pub type Shape {
  Dot
  Circle(Int)
  Rect { w: Int, h: Int }
}

pub const shared_list: List<Int> = [1, 2, 3]

pub const shared_pair: Pair<Int, ByteArray> = Pair(1, #"ff")

pub const nested: List<(Int, List<Int>)> = [(1, [2, 3]), (4, [])]

pub const derived: Int = sum(shared_list)

pub const shapes: List<Shape> = [Dot, Circle(1), Rect { w: 2, h: 3 }]

pub fn sum(xs: List<Int>) -> Int {
  when xs is {
    [] -> 0
    [x, ..rest] -> x + sum(rest)
  }
}

pub fn length(xs: List<a>) -> Int {
  when xs is {
    [] -> 0
    [_, ..rest] -> 1 + length(rest)
  }
}

pub fn identity(x: a) -> a {
  x
}

pub fn area(s: Shape) -> Int {
  when s is {
    Dot -> 0
    Circle(r) -> 3 * r * r
    Rect { w, h } -> w * h
  }
}

test t_list_sum() {
  sum(shared_list) == 6
}

test t_list_len() {
  length(shared_list) == 3
}

test t_pair() {
  shared_pair.1st == 1
}

test t_nested() {
  length(nested) == 2
}

test t_derived() {
  derived == 6
}

test t_wrong() {
  sum(shared_list) == 7
}

test t_fail() fail {
  sum(shared_list) == 7
}

test t_generic_int() {
  identity(1) == 1
}

test t_generic_bytes() {
  identity(#"00") == #"00"
}

test t_color() {
  Red != Blue
}

test t_shapes() {
  when shapes is {
    [_, c, ..] -> area(c) == 3
    _ -> False
  }
}

test p_byte(x via byte()) {
  x >= 0
}

test p_sum(xs via list_of(byte())) {
  sum(xs) >= 0
}

test p_small(x via byte()) {
  x < 200
}

test p_small_expected(x via byte()) fail {
  x < 200
}

test p_shared(xs via list_of(byte())) {
  length(xs) <= length(shared_list)
}
"#;

pub const TEST_NAMES: [&str; 16] = [
    "t_list_sum", "t_list_len", "t_pair", "t_nested", "t_derived", "t_wrong", "t_fail", "t_generic_int", "t_generic_bytes", "t_color", "t_shapes", "p_byte", "p_sum", "p_small", "p_small_expected", "p_shared",
];


/// One module constant per *shape* of compiled constant (which reference-counted parts a
/// `Constant` has depends on its UPLC type: `list (pair ..)`, nested lists, pairs of pairs,
/// constants built by a function at compile time, ...), each referred to by two tests.
pub const KINDS_LIB: &str = r#"pub const prices: Pairs<ByteArray, Int> = [Pair("apple", 1), Pair("plum", 2)]

pub const grid: List<List<Int>> = [[1], [2, 3]]

pub const pp: Pair<Int, Pair<Int, Int>> = Pair(1, Pair(2, 3))

pub const maps: List<Pairs<Int, Int>> = [[Pair(1, 2)], []]

pub const mixed: Pair<List<Int>, Pairs<Int, Int>> = Pair([1], [Pair(1, 2)])

pub const tup: (Int, Pairs<Int, Int>) = (1, [Pair(1, 2)])

pub const built: Pairs<Int, Int> = build(3)

pub const text: String = @"hello"

pub const blob: ByteArray = #"00ff"

pub const opt: Option<Pairs<Int, Int>> = Some([Pair(1, 2)])

fn build(n: Int) -> Pairs<Int, Int> {
  if n <= 0 {
    []
  } else {
    [Pair(n, n), ..build(n - 1)]
  }
}

fn plen(xs: Pairs<a, b>) -> Int {
  when xs is {
    [] -> 0
    [_, ..rest] -> 1 + plen(rest)
  }
}

fn first_value(xs: Pairs<a, Int>) -> Int {
  when xs is {
    [] -> 0
    [Pair(_, v), ..] -> v
  }
}

fn llen(xs: List<a>) -> Int {
  when xs is {
    [] -> 0
    [_, ..rest] -> 1 + llen(rest)
  }
}

test k_prices_a() {
  plen(prices) == 2
}

test k_prices_b() {
  first_value(prices) == 1
}

test k_grid_a() {
  llen(grid) == 2
}

test k_grid_b() {
  when grid is {
    [row, ..] -> llen(row) == 1
    _ -> False
  }
}

test k_pp_a() {
  pp.1st == 1
}

test k_pp_b() {
  pp.2nd.2nd == 3
}

test k_maps_a() {
  llen(maps) == 2
}

test k_maps_b() {
  when maps is {
    [m, ..] -> first_value(m) == 2
    _ -> False
  }
}

test k_mixed_a() {
  llen(mixed.1st) == 1
}

test k_mixed_b() {
  first_value(mixed.2nd) == 2
}

test k_tup_a() {
  tup.1st == 1
}

test k_tup_b() {
  plen(tup.2nd) == 1
}

test k_built_a() {
  plen(built) == 3
}

test k_built_b() {
  first_value(built) == 3
}

test k_text_a() {
  text == @"hello"
}

test k_text_b() {
  text != @""
}

test k_blob_a() {
  blob == #"00ff"
}

test k_blob_b() {
  blob != #""
}

test k_opt_a() {
  opt != None
}

test k_opt_b() {
  when opt is {
    Some(m) -> plen(m) == 1
    None -> False
  }
}

test k_prices_c() {
  plen(prices) + first_value(prices) == 3
}

test k_grid_c() {
  llen(grid) + llen(grid) == 4
}

test k_pp_c() {
  pp.2nd.1st == 2
}

test k_maps_c() {
  llen(maps) != 0
}

test k_mixed_c() {
  llen(mixed.1st) + first_value(mixed.2nd) == 3
}

test k_tup_c() {
  tup.1st + plen(tup.2nd) == 2
}

test k_built_c() {
  plen(built) + first_value(built) == 6
}

test k_text_c() {
  text == text
}

test k_blob_c() {
  blob == blob
}

test k_opt_c() {
  opt == opt
}
"#;

pub const KIND_NAMES: [&str; 10] = ["prices", "grid", "pp", "maps", "mixed", "tup", "built", "text", "blob", "opt"];

pub fn scratch() -> Scratch {
    Scratch::new("c17", &[("lib/fuzz.ak".to_string(), FUZZ_LIB.to_string()), ("lib/coll.ak".to_string(), COLL_LIB.to_string()), ("lib/kinds.ak".to_string(), KINDS_LIB.to_string())])
}

// ---------------------------------------------------------------------------------------
// the audit (runs inside Project::run_runnables via hook H2)

#[derive(Default, Debug, Clone)]
pub struct AuditReport {
    pub tests: usize,
    pub allocations: usize,
    /// (test a, test b, what)
    pub shared: Vec<(String, String, String)>,
    /// (test, what, strong count, references from inside the test)
    pub co_owned: Vec<(String, String, usize, usize)>,
    pub assertion_left: Vec<String>,
}

static REPORTS: Mutex<Vec<AuditReport>> = Mutex::new(Vec::new());

#[derive(Default)]
struct Graph {
    /// allocation -> (references from inside this graph, strong count, description)
    nodes: HashMap<usize, (usize, usize, &'static str)>,
    /// short rendering of the allocations whose strong count exceeds 1 (diagnostics)
    desc: HashMap<usize, String>,
}

impl Graph {
    /// returns true when the allocation is seen for the first time (descend into it)
    fn edge<T: std::fmt::Debug>(&mut self, rc: &Rc<T>, what: &'static str) -> bool {
        let p = Rc::as_ptr(rc) as *const () as usize;
        if Rc::strong_count(rc) > 1 && !self.desc.contains_key(&p) {
            self.desc.insert(p, format!("{:?}", rc).chars().take(160).collect());
        }
        let e = self.nodes.entry(p).or_insert((0, Rc::strong_count(rc), what));
        e.0 += 1;
        e.0 == 1
    }
    fn ty(&mut self, t: &Type) {
        match t {
            Type::List(a) => {
                if self.edge(a, "type") {
                    self.ty(a)
                }
            }
            Type::Pair(a, b) => {
                if self.edge(a, "type") {
                    self.ty(a)
                }
                if self.edge(b, "type") {
                    self.ty(b)
                }
            }
            _ => {}
        }
    }
    fn constant(&mut self, c: &Constant) {
        match c {
            Constant::ProtoList(t, xs) => {
                self.ty(t);
                for x in xs {
                    self.constant(x);
                }
            }
            Constant::ProtoPair(ta, tb, a, b) => {
                self.ty(ta);
                self.ty(tb);
                if self.edge(a, "constant") {
                    self.constant(a)
                }
                if self.edge(b, "constant") {
                    self.constant(b)
                }
            }
            _ => {}
        }
    }
    fn term(&mut self, t: &Term<Name>) {
        match t {
            Term::Var(n) => {
                self.edge(n, "name");
            }
            Term::Delay(b) | Term::Force(b) => {
                if self.edge(b, "term") {
                    self.term(b)
                }
            }
            Term::Lambda { parameter_name, body } => {
                self.edge(parameter_name, "name");
                if self.edge(body, "term") {
                    self.term(body)
                }
            }
            Term::Apply { function, argument } => {
                if self.edge(function, "term") {
                    self.term(function)
                }
                if self.edge(argument, "term") {
                    self.term(argument)
                }
            }
            Term::Constant(c) => {
                if self.edge(c, "constant") {
                    self.constant(c)
                }
            }
            Term::Constr { fields, .. } => {
                for f in fields {
                    self.term(f)
                }
            }
            Term::Case { constr, branches } => {
                if self.edge(constr, "term") {
                    self.term(constr)
                }
                for b in branches {
                    self.term(b)
                }
            }
            Term::Error | Term::Builtin(_) => {}
        }
    }
    fn program(&mut self, p: &Program<Name>) {
        self.term(&p.term)
    }
}

fn test_name(t: &Test) -> String {
    match t {
        Test::UnitTest(u) => u.name.clone(),
        Test::PropertyTest(p) => p.name.clone(),
        Test::Benchmark(b) => b.name.clone(),
    }
}

fn audit(tests: &[Test]) {
    // Hook H1 (same cargo feature) keeps a copy of every pre-optimisation program on this
    // thread; those copies share constants with the programs under audit and exist only
    // because of the instrumentation, so they are dropped before counting owners.
    drop(aiken_lang::verif_hooks::drain_pre_optimisation());
    let mut report = AuditReport { tests: tests.len(), ..Default::default() };
    let mut owner: HashMap<usize, usize> = HashMap::new();
    for (i, t) in tests.iter().enumerate() {
        let mut g = Graph::default();
        match t {
            Test::UnitTest(u) => {
                g.program(&u.program);
                if u.assertion.is_some() {
                    report.assertion_left.push(u.name.clone());
                }
            }
            Test::PropertyTest(p) => {
                g.program(&p.program);
                g.program(&p.fuzzer.program);
            }
            Test::Benchmark(b) => {
                g.program(&b.program);
                g.program(&b.sampler.program);
            }
        }
        report.allocations += g.nodes.len();
        for (ptr, (refs, strong, what)) in &g.nodes {
            if let Some(j) = owner.get(ptr) {
                if report.shared.len() < 20 {
                    report.shared.push((test_name(&tests[*j]), test_name(t), what.to_string()));
                }
            } else {
                owner.insert(*ptr, i);
            }
            if strong != refs && report.co_owned.len() < 20 {
                report.co_owned.push((test_name(t), format!("{what} `{}`", g.desc.get(ptr).cloned().unwrap_or_default()), *strong, *refs));
            }
        }
    }
    REPORTS.lock().unwrap().push(report);
}

fn tracing_of(level: &str) -> Tracing {
    Tracing::All(match level {
        "silent" => TraceLevel::Silent,
        "compact" => TraceLevel::Compact,
        _ => TraceLevel::Verbose,
    })
}

/// run `aiken check` on the selection; returns the audit reports and the outcomes
pub fn check_selection(sc: &Scratch, selection: &[&str], level: &str, seed: u32) -> Result<(Vec<AuditReport>, Vec<TestOutcome>), String> {
    check_selection_in(sc, "coll", selection, level, seed)
}

pub fn check_selection_in(sc: &Scratch, module: &str, selection: &[&str], level: &str, seed: u32) -> Result<(Vec<AuditReport>, Vec<TestOutcome>), String> {
    let (mut p, l) = sc.project()?;
    REPORTS.lock().unwrap().clear();
    aiken_project::verif_hooks::set_pre_parallel_audit(Some(audit));
    let matches: Vec<String> = vec![format!("{module}.{{{}}}", selection.join(","))];
    let _ = p.check(false, Some(matches), false, true, seed, 30, Default::default(), tracing_of(level), false, None);
    aiken_project::verif_hooks::set_pre_parallel_audit(None);
    let reports = REPORTS.lock().unwrap().clone();
    let outcomes = l.finished.lock().unwrap().clone();
    Ok((reports, outcomes))
}

/// child mode: `h_proj c17-child <dir> <level> <seed> <names,comma>` prints one JSON line
pub fn child_main(args: &[String]) -> i32 {
    let sc = Scratch { dir: std::path::PathBuf::from(&args[0]) };
    let names: Vec<&str> = args[3].split(',').collect();
    let r = check_selection(&sc, &names, &args[1], args[2].parse().unwrap_or(0));
    std::mem::forget(sc); // the parent owns the directory
    match r {
        Ok((_, outs)) => {
            println!("{}", json!(outs.iter().map(|o| json!({"module":o.module,"title":o.title,"success":o.success,"summary":o.summary})).collect::<Vec<_>>()));
            0
        }
        Err(e) => {
            println!("{}", json!({"error": e}));
            2
        }
    }
}

pub fn run(tier: Tier, _replay: Option<String>) -> i32 {
    let mut run = Run::new("C17", tier);
    let sc = scratch();
    let max_subset = if tier == Tier::Quick { 2 } else { 3 };
    // every subset of size 1..=max_subset of the collision-prone tests, plus the whole set,
    // under each trace level
    let n = TEST_NAMES.len();
    // constant-shape family first: the whole module, and the two tests of each constant
    // (three tests per constant: the first reference fills the generator's cache, the second and
    // third are served from it)
    let kind_tests: Vec<String> = KIND_NAMES.iter().flat_map(|k| [format!("k_{k}_a"), format!("k_{k}_b"), format!("k_{k}_c")]).collect();
    let mut selections: Vec<(&str, Vec<&str>)> = vec![("kinds", kind_tests.iter().map(|s| s.as_str()).collect())];
    for k in 0..KIND_NAMES.len() {
        selections.push(("kinds", vec![kind_tests[3 * k].as_str(), kind_tests[3 * k + 1].as_str(), kind_tests[3 * k + 2].as_str()]));
        selections.push(("kinds", vec![kind_tests[3 * k + 1].as_str(), kind_tests[3 * k + 2].as_str()]));
    }
    let n_kind_selections = selections.len();
    selections.push(("coll", TEST_NAMES.to_vec()));
    for a in 0..n {
        selections.push(("coll", vec![TEST_NAMES[a]]));
        for b in a + 1..n {
            selections.push(("coll", vec![TEST_NAMES[a], TEST_NAMES[b]]));
            if max_subset >= 3 {
                for c in b + 1..n {
                    selections.push(("coll", vec![TEST_NAMES[a], TEST_NAMES[b], TEST_NAMES[c]]));
                }
            }
        }
    }
    let levels: &[&str] = if tier == Tier::Quick { &["silent", "verbose"] } else { &["silent", "compact", "verbose"] };
    let (mut audits, mut allocations, mut tests_audited) = (0u64, 0u64, 0u64);
    let mut reference: BTreeMap<(String, String), String> = BTreeMap::new();
    let mut outcomes_seen: HashSet<String> = HashSet::new();
    let start = std::time::Instant::now();
    let cap = if tier == Tier::Quick { 40 } else { 1500 };
    let mut done_selections = 0u64;
    'outer: for level in levels {
        for (module, sel) in &selections {
            if start.elapsed().as_secs() > cap {
                run.cap_hit(&format!("wall cap: {done_selections} of {} (selection, level) configurations audited", selections.len() * levels.len()));
                break 'outer;
            }
            done_selections += 1;
            let (reports, outs) = match check_selection_in(&sc, module, sel, level, 42) {
                Ok(x) => x,
                Err(e) => {
                    run.machinery_error(format!("the collision project does not compile: {e}"));
                    break 'outer;
                }
            };
            let case = json!({"engine":"c17","module":module,"selection":sel,"level":level});
            if reports.len() != 1 {
                run.machinery_error(format!("hook H2 fired {} times for one check (expected once); selection {:?}", reports.len(), sel));
                continue;
            }
            let r = &reports[0];
            if r.tests != sel.len() {
                run.machinery_error(format!("selection {:?} matched {} tests", sel, r.tests));
            }
            audits += 1;
            allocations += r.allocations as u64;
            tests_audited += r.tests as u64;
            for (a, b, what) in &r.shared {
                run.violation(Violation {
                    signature: format!("allocation-shared-between-tests|{what}"),
                    what: format!("tests {a} and {b} entering the parallel iterator share a reference-counted {what} (trace level {level}, selection {:?}): two workers can touch its non-atomic count", sel),
                    case: case.clone(),
                });
            }
            for (t, what, strong, refs) in &r.co_owned {
                run.violation(Violation {
                    signature: format!("allocation-co-owned-outside-its-test|{}", what.split(' ').next().unwrap_or("")),
                    what: format!("test {t}: a {what} reachable from its program has strong count {strong} but only {refs} reference(s) from inside the test: something the main thread retains co-owns it (trace level {level}, selection {:?})", sel),
                    case: case.clone(),
                });
            }
            for t in &r.assertion_left {
                run.violation(Violation { signature: "assertion-crosses-into-workers".into(), what: format!("unit test {t} still carries its assertion (typed AST, shared with the module) into the parallel section"), case: case.clone() });
            }
            // a test's result must not depend on which other tests run with it
            for o in &outs {
                outcomes_seen.insert(o.summary.clone());
                let key = (level.to_string(), o.title.clone());
                match reference.get(&key) {
                    None => {
                        reference.insert(key, o.summary.clone());
                    }
                    Some(s) if *s == o.summary => {}
                    Some(s) => run.violation(Violation {
                        signature: "result-depends-on-the-selection".into(),
                        what: format!("test {} (level {level}) reports `{}` when run with {:?} but `{s}` in another selection", o.title, o.summary, sel),
                        case: case.clone(),
                    }),
                }
            }
            if outs.len() != sel.len() {
                run.violation(Violation { signature: "results-missing".into(), what: format!("selection {:?} produced {} results", sel, outs.len()), case: case.clone() });
            }
        }
    }
    // thread counts, in child processes, on the spanning family (whole set + every pair with a property test)
    let exe = std::env::current_exe().unwrap();
    let mut family: Vec<Vec<&str>> = vec![TEST_NAMES.to_vec()];
    if tier == Tier::Thorough {
        for a in 0..n {
            family.push(vec![TEST_NAMES[a], TEST_NAMES[(a + 5) % n], TEST_NAMES[(a + 11) % n]]);
        }
    } else {
        family.push(vec!["t_list_sum", "p_sum", "p_small", "t_derived"]);
    }
    let mut thread_runs = 0u64;
    for sel in &family {
        for level in levels {
            let mut base: Option<String> = None;
            for threads in ["1", "2", "3", "16"] {
                let out = std::process::Command::new(&exe)
                    .args(["c17-child", sc.dir.to_str().unwrap(), level, "42", &sel.join(",")])
                    .env("RAYON_NUM_THREADS", threads)
                    .output();
                thread_runs += 1;
                let case = json!({"engine":"c17-threads","selection":sel,"level":level,"threads":threads});
                match out {
                    Ok(o) if o.status.success() => {
                        let line = String::from_utf8_lossy(&o.stdout).lines().last().unwrap_or("").to_string();
                        match &base {
                            None => base = Some(line),
                            Some(b) if *b == line => {}
                            Some(b) => run.violation(Violation {
                                signature: "results-depend-on-the-number-of-threads".into(),
                                what: format!("selection {:?} (level {level}): {threads} threads report {} but 1 thread reports {}", sel, line.chars().take(400).collect::<String>(), b.chars().take(400).collect::<String>()),
                                case,
                            }),
                        }
                    }
                    Ok(o) => run.violation(Violation {
                        signature: "test-run-crashes".into(),
                        what: format!("running {:?} with {threads} threads exits with {:?}: {}", sel, o.status.code(), String::from_utf8_lossy(&o.stderr).chars().take(300).collect::<String>()),
                        case,
                    }),
                    Err(e) => run.machinery_error(format!("cannot spawn child: {e}")),
                }
            }
        }
    }
    run.sample(json!({"selection": ["t_list_sum", "p_sum"], "level": "verbose"}));
    run.set("constant_shape_selections", (n_kind_selections * levels.len()) as u64);
    run.set("configurations_audited", audits);
    run.set("tests_audited", tests_audited);
    run.set("reference_counted_allocations_walked", allocations);
    run.set("thread_count_runs", thread_runs);
    run.set("states", audits);
    run.set("transitions", tests_audited);
    run.set("traces_validated_against_impl", thread_runs);
    run.set("evaluations", audits + thread_runs);
    run.set("distinct_nontrivial", outcomes_seen.len() as u64);
    run.set("excluded_by_reading", json!(["Fuzzer.type_info / stripped_type_info (Rc<Type> shared with the module AST): Test::run neither reads, clones nor drops them; they are used by reify on the main thread after the parallel section"]));
    run.set("rule", "(a) ten module constants, one per shape of compiled constant (list of pairs, list of lists, pair of pairs, list of maps, pair of list and map, tuple holding a map, a map built by a function at compile time, string, bytes, option of a map), each referred to by three tests: the whole module, each constant's three tests, and its last two; (b) every subset (size <= 2 quick / 3 thorough, plus the whole set) of 16 collision-prone tests (shared list/pair/nested/derived constants, a hoisted generic function, shared user types, shared fuzzers, expected failures) x trace levels: hook H2 hands over the Vec<Test> entering rayon; every Rc reachable from each test's programs is walked; invariants: pairwise disjoint, strong count = references from inside the test, no assertion left; each test's result must be the same in every selection; a spanning family is re-run with 1/2/3/16 threads in child processes; distinct_nontrivial = distinct result summaries");
    run.assume("rayon's indexed parallel iterator preserves order and runs each element's closure on some worker thread (its contract)");
    if audits < 20 || allocations == 0 {
        run.machinery_error("vacuous: fewer than 20 configurations audited");
    }
    drop(sc);
    crate::pj::clean_work();
    run.finish()
}
