//! C09 – builds are deterministic.
//!
//! (a) Generator histories (explicit-state search, exhaustive): one `CodeGenerator` obtained
//!     from the real `Project` is asked to generate item after item; state = the history of
//!     items generated so far; invariant in every state: the bytes produced for item k equal
//!     the bytes a *fresh* generator produces for k.
//! (b) Registration order (exhaustive): every topological order of the modules of a
//!     multi-module project is type-checked through the public inference API and all items
//!     are generated; bytes must be identical across orders.
//! (c) Process-level nondeterminism (hash seeds, rayon): NOT enumerable (std's RandomState
//!     is private, rayon is not intercepted) – the real `Project::build` is repeated in fresh
//!     threads and child processes with different RAYON_NUM_THREADS and the blueprints are
//!     compared.  Labelled *sampling* in the evidence; never the deciding step.

use crate::pj::Scratch;
use aiken_lang::ast::{Definition, ModuleKind, TraceLevel, Tracing};
use aiken_lang::gen_uplc::CodeGenerator;
use aiken_project::module::CheckedModule;
use h_lang::driver::Proj;
use serde_json::json;
use std::collections::{BTreeMap, HashSet};
use uplc::ast::{DeBruijn, Name, Program};
use vcore::evid::{guarded, Run, Tier, Violation};

pub const HIST_LIB: &str = r#"pub type Shape {
  Dot
  Circle(Int)
  Rect { w: Int, h: Int }
}

pub fn double(x: Int) -> Int {
  x * 2
}

pub fn get(o: Option<Int>) -> Int {
  expect Some(x) = o
  x
}

pub fn length(xs: List<a>) -> Int {
  when xs is {
    [] -> 0
    [_, ..rest] -> 1 + length(rest)
  }
}

pub fn is_even(n: Int) -> Bool {
  if n == 0 {
    True
  } else {
    is_odd(n - 1)
  }
}

pub fn is_odd(n: Int) -> Bool {
  if n == 0 {
    False
  } else {
    is_even(n - 1)
  }
}

pub const c1: Int = get(Some(double(3)))

pub const c2: Int = c1 + 1

pub const shared: List<Int> = [1, 2, 3]

pub fn noisy(x: Int) -> Int {
  trace @"computing"
  double(x)
}

pub const traced: Int = noisy(21)

test t1() {
  c1 == 6
}

test t2() {
  c2 == 7
}

test t3() {
  length(shared) == 3
}

test t4() {
  length([#"00"]) == 1 && get(Some(1)) == 1
}

test t5() {
  is_even(4) && traced == 42
}

test t6() {
  expect [x, ..] = shared
  x == 1
}

pub type Settlement {
  amount: Int,
  owner: ByteArray,
}

// t7 / t8: the same multi-line `expect`, at two indentation levels (the texts are equal up to
// white space but not identical; anything keyed by a normalised form of the text collides)
test t7() {
  let d: Data = Some(Settlement { amount: 1, owner: #"" })
  expect Some(Settlement {
    amount,
    ..
  }): Option<Settlement> = d
  amount == 1
}

test t8() {
  let d: Data = Some(Settlement { amount: 1, owner: #"" })
  when c1 is {
    6 -> {
      expect Some(Settlement {
        amount,
        ..
      }): Option<Settlement> = d
      amount == 1
    }
    _ -> False
  }
}

// t9 / t10: the same trace text built differently, and the same `?` operand
test t9() {
  trace @"same text"
  (c1 == 6)?
}

test t10() {
  trace @"same text": @"more"
  (c1  ==  6)?
}

pub fn exported(s: Shape) -> Int {
  when s is {
    Dot -> c1
    Circle(r) -> double(r)
    Rect { w, h } -> w * h + length(shared)
  }
}

// several builtins applied three times each to the same constant, in one scope: the optimiser
// hoists one shared partial application per (builtin, constant) - in some order
pub fn exported3(a: Int, b: Int, c: Int) -> Int {
  ( a + 1 ) * 2 + ( b + 1 ) * 2 + ( c + 1 ) * 2 + if a == 0 || b == 0 || c == 0 {
    1
  } else {
    0
  }
}

pub fn exported2(o: Option<Int>) -> Int {
  get(o) + c2
}
"#;

pub const HIST_VALIDATOR: &str = r#"use hist.{Shape, c1, exported, get}

validator v(p: Int) {
  mint(r: Shape, _policy: Data, _tx: Data) {
    exported(r) == c1 + p
  }

  spend(d: Option<Int>, _r: Data, _o: Data, _tx: Data) {
    get(d) == p
  }

  else(_) {
    fail
  }
}
"#;

fn tracing_of(level: &str) -> Tracing {
    Tracing::All(match level {
        "silent" => TraceLevel::Silent,
        "compact" => TraceLevel::Compact,
        _ => TraceLevel::Verbose,
    })
}

#[derive(Clone)]
enum Item {
    Test(String, String),
    Fn(String, String),
    Validator(String, String),
}

impl Item {
    fn label(&self) -> String {
        match self {
            Item::Test(m, n) => format!("test {m}.{n}"),
            Item::Fn(m, n) => format!("fn {m}.{n}"),
            Item::Validator(m, n) => format!("validator {m}.{n}"),
        }
    }
}

fn flat(p: &Program<Name>) -> Result<Vec<u8>, String> {
    let d: Program<DeBruijn> = p.clone().try_into().map_err(|e| format!("{e}"))?;
    d.to_flat().map_err(|e| format!("{e}"))
}

fn generate_item(g: &mut CodeGenerator<'_>, modules: &[CheckedModule], item: &Item) -> Result<Vec<u8>, String> {
    let (m, n) = match item {
        Item::Test(m, n) | Item::Fn(m, n) | Item::Validator(m, n) => (m, n),
    };
    let module = modules.iter().find(|x| &x.name == m).ok_or("module")?;
    for def in module.ast.definitions() {
        match (item, def) {
            (Item::Test(..), Definition::Test(f)) if &f.name == n => {
                return guarded(|| flat(&g.generate_raw(&f.body, &[], m))).map_err(|p| format!("PANIC {p}"))?;
            }
            (Item::Fn(..), Definition::Fn(f)) if &f.name == n => {
                return guarded(|| flat(&g.generate_raw(&f.body, &f.arguments, m))).map_err(|p| format!("PANIC {p}"))?;
            }
            (Item::Validator(..), Definition::Validator(v)) if &v.name == n => {
                return guarded(|| flat(&g.generate(v, m))).map_err(|p| format!("PANIC {p}"))?;
            }
            _ => {}
        }
    }
    Err(format!("item {} not found", item.label()))
}

/// (a): returns (states, transitions)
fn histories(run: &mut Run, tier: Tier) -> (u64, u64, u64) {
    let sc = Scratch::new("c09a", &[("lib/hist.ak".to_string(), HIST_LIB.to_string()), ("validators/val.ak".to_string(), HIST_VALIDATOR.to_string())]);
    let items: Vec<Item> = vec![
        Item::Test("hist".into(), "t1".into()),
        Item::Test("hist".into(), "t2".into()),
        Item::Test("hist".into(), "t3".into()),
        Item::Test("hist".into(), "t4".into()),
        Item::Test("hist".into(), "t5".into()),
        Item::Test("hist".into(), "t6".into()),
        Item::Test("hist".into(), "t7".into()),
        Item::Test("hist".into(), "t8".into()),
        Item::Test("hist".into(), "t9".into()),
        Item::Test("hist".into(), "t10".into()),
        Item::Fn("hist".into(), "exported".into()),
        Item::Fn("hist".into(), "exported2".into()),
        Item::Fn("hist".into(), "exported3".into()),
        Item::Validator("val".into(), "v".into()),
    ];
    let max_len = if tier == Tier::Quick { 3 } else { 4 };
    let (mut states, mut transitions, mut differing) = (0u64, 0u64, 0u64);
    for level in ["silent", "compact", "verbose"] {
        let tracing = tracing_of(level);
        let (mut p, _) = match sc.project() {
            Ok(x) => x,
            Err(e) => {
                run.machinery_error(e);
                return (0, 0, 0);
            }
        };
        if let Err(es) = p.check(true, None, false, false, 0, 1, Default::default(), tracing, false, None) {
            run.machinery_error(format!("history project does not compile: {}", crate::pj::show_errors(&es)));
            return (0, 0, 0);
        }
        let modules = p.modules();
        // reference: each item from a fresh generator
        let mut fresh: Vec<Vec<u8>> = vec![];
        for it in &items {
            let mut g = p.new_generator(tracing);
            match generate_item(&mut g, &modules, it) {
                Ok(b) => fresh.push(b),
                Err(e) => {
                    run.violation(Violation { signature: format!("generation-fails|{}", it.label()), what: format!("generating {} with a fresh generator fails: {e}", it.label()), case: json!({"engine":"c09a","item":it.label(),"level":level}) });
                    fresh.push(vec![]);
                }
            }
        }
        // the same item from another five fresh generators: identical bytes (nothing in one
        // generation may depend on per-instance state such as a hash map's iteration order)
        for (k, it) in items.iter().enumerate() {
            for round in 0..5 {
                let mut g = p.new_generator(tracing);
                states += 1;
                transitions += 1;
                let again = generate_item(&mut g, &modules, it);
                if !matches!(&again, Ok(b) if *b == fresh[k]) {
                    run.violation(Violation {
                        signature: format!("fresh-generators-disagree|{level}|{}", match it { Item::Test(..) => "test", Item::Fn(..) => "function", Item::Validator(..) => "validator" }),
                        what: format!("trace level {level}: {} generated by two fresh code generators gives different bytes (round {round}: {} vs {} bytes)", it.label(), again.as_ref().map(|b| b.len()).unwrap_or(0), fresh[k].len()),
                        case: json!({"engine":"c09a","level":level,"item":it.label(),"fresh_round":round}),
                    });
                    break;
                }
            }
        }
        // all histories of length <= max_len
        let n = items.len();
        let mut total = 0u64;
        for len in 1..=max_len {
            total += (n as u64).pow(len as u32);
        }
        let _ = total;
        let mut hist: Vec<usize> = vec![];
        fn rec(hist: &mut Vec<usize>, depth: usize, max_len: usize, n: usize, f: &mut dyn FnMut(&[usize])) {
            if depth > 0 {
                f(hist);
            }
            if depth == max_len {
                return;
            }
            for k in 0..n {
                hist.push(k);
                rec(hist, depth + 1, max_len, n, f);
                hist.pop();
            }
        }
        let mut flagged: HashSet<(usize, usize)> = HashSet::new();
        rec(&mut hist, 0, max_len, n, &mut |h: &[usize]| {
            // replay the history on a fresh real generator (live objects do not copy)
            states += 1;
            let mut g = p.new_generator(tracing);
            for (pos, k) in h.iter().enumerate() {
                transitions += 1;
                let got = generate_item(&mut g, &modules, &items[*k]);
                // only the last position is new in this state (prefixes are their own states)
                if pos + 1 < h.len() {
                    continue;
                }
                let ok = matches!(&got, Ok(b) if *b == fresh[*k]);
                if !ok {
                    differing += 1;
                    let first = h.iter().copied().find(|x| x != k).unwrap_or(*k);
                    if flagged.insert((first, *k)) {
                        run.violation(Violation {
                            signature: format!("output-depends-on-what-was-generated-before|{level}|{}", match &items[*k] {
                                Item::Test(..) => "test",
                                Item::Fn(..) => "function",
                                Item::Validator(..) => "validator",
                            }),
                            what: format!("trace level {level}: after generating [{}] with one code generator, {} comes out as different bytes ({}) than from a fresh generator", h[..pos].iter().map(|x| items[*x].label()).collect::<Vec<_>>().join(", "), items[*k].label(), match &got { Ok(b) => format!("{} vs {} bytes", b.len(), fresh[*k].len()), Err(e) => e.clone() }),
                            case: json!({"engine":"c09a","level":level,"history":h.iter().map(|x| items[*x].label()).collect::<Vec<_>>()}),
                        });
                    }
                }
            }
        });
    }
    run.set("generator_history_states", states);
    run.set("generator_history_positions_differing_from_fresh", differing);
    (states, transitions, differing)
}

// ---------------------------------------------------------------------------------------
// (b) registration order

fn order_modules() -> Vec<(&'static str, &'static str, Vec<&'static str>)> {
    vec![
        ("m/types", "pub type Color {\n  Red\n  Green\n  Blue\n}\n\npub type Rec {\n  a: Int,\n  b: Bool,\n}\n\npub const base: Int = 40\n", vec![]),
        ("m/util", "use m/types.{Color, Red, Green, Blue, base}\n\npub fn rank(c: Color) -> Int {\n  when c is {\n    Red -> 0\n    Green -> 1\n    Blue -> base\n  }\n}\n\npub fn twice(f: fn(a) -> a, x: a) -> a {\n  f(f(x))\n}\n", vec!["m/types"]),
        ("m/other", "use m/types.{Rec, base}\n\npub const limit: Int = base + 2\n\npub fn ok(r: Rec) -> Bool {\n  r.b && r.a < limit\n}\n", vec!["m/types"]),
        ("m/free", "pub fn inc(x: Int) -> Int {\n  x + 1\n}\n\npub const one: Int = 1\n", vec![]),
        (
            "m/top",
            "use m/types.{Blue, Rec}\nuse m/util.{rank, twice}\nuse m/other.{ok, limit}\nuse m/free.{inc, one}\n\npub fn f(x: Int) -> Int {\n  twice(inc, x) + rank(Blue) + limit + one\n}\n\npub fn g(r: Rec) -> Bool {\n  ok(r) && f(r.a) > 0\n}\n\ntest t() {\n  f(0) == 85\n}\n",
            vec!["m/types", "m/util", "m/other", "m/free"],
        ),
    ]
}

fn topo_orders(mods: &[(&str, &str, Vec<&str>)]) -> Vec<Vec<usize>> {
    fn rec(mods: &[(&str, &str, Vec<&str>)], placed: &mut Vec<usize>, out: &mut Vec<Vec<usize>>) {
        if placed.len() == mods.len() {
            out.push(placed.clone());
            return;
        }
        for i in 0..mods.len() {
            if placed.contains(&i) {
                continue;
            }
            if mods[i].2.iter().all(|d| placed.iter().any(|p| mods[*p].0 == *d)) {
                placed.push(i);
                rec(mods, placed, out);
                placed.pop();
            }
        }
    }
    let mut out = vec![];
    rec(mods, &mut vec![], &mut out);
    out
}

fn registration_orders(run: &mut Run) -> (u64, u64) {
    let mods = order_modules();
    let orders = topo_orders(&mods);
    let mut reference: Option<BTreeMap<String, Vec<u8>>> = None;
    let mut generated = 0u64;
    for (oi, order) in orders.iter().enumerate() {
        let mut proj = Proj::new();
        let mut typed = vec![];
        let mut failed = false;
        for i in order {
            match proj.check_named(mods[*i].0, ModuleKind::Lib, mods[*i].1, Tracing::All(TraceLevel::Verbose)) {
                Ok(t) => typed.push((mods[*i].0, t)),
                Err(e) => {
                    run.machinery_error(format!("module {} does not type-check in order {:?}: {:?}", mods[*i].0, order, e));
                    failed = true;
                    break;
                }
            }
        }
        if failed {
            continue;
        }
        let mut outputs: BTreeMap<String, Vec<u8>> = BTreeMap::new();
        for (mname, t) in &typed {
            for def in t.definitions() {
                let (name, body, args): (String, _, Vec<_>) = match def {
                    Definition::Fn(f) if f.public => (format!("{mname}.{}", f.name), &f.body, f.arguments.clone()),
                    Definition::Test(f) => (format!("{mname}.{}", f.name), &f.body, vec![]),
                    _ => continue,
                };
                // generic functions cannot be generated on their own
                if name.ends_with(".twice") {
                    continue;
                }
                let r = guarded(|| {
                    let mut g = proj.generator(Tracing::All(TraceLevel::Verbose));
                    flat(&g.generate_raw(body, &args, mname))
                });
                generated += 1;
                match r {
                    Ok(Ok(b)) => {
                        outputs.insert(name, b);
                    }
                    other => run.violation(Violation { signature: "generation-fails|order".into(), what: format!("generating {name} in module order {:?} fails: {:?}", order, other), case: json!({"engine":"c09b","order":order}) }),
                }
            }
        }
        match &reference {
            None => reference = Some(outputs),
            Some(r) => {
                for (k, v) in &outputs {
                    if r.get(k) != Some(v) {
                        run.violation(Violation {
                            signature: "output-depends-on-module-registration-order".into(),
                            what: format!("{k} compiles to different bytes when the modules are type-checked in the order {:?} than in the order {:?}", order.iter().map(|i| mods[*i].0).collect::<Vec<_>>(), orders[0].iter().map(|i| mods[*i].0).collect::<Vec<_>>()),
                            case: json!({"engine":"c09b","order_index":oi}),
                        });
                    }
                }
            }
        }
    }
    run.set("module_registration_orders", orders.len() as u64);
    (orders.len() as u64, generated)
}

// ---------------------------------------------------------------------------------------
// (c) sampling

/// child mode: build the project in `dir` and print a digest of plutus.json
pub fn child_main(args: &[String]) -> i32 {
    let sc = Scratch { dir: std::path::PathBuf::from(&args[0]) };
    let r = sc.build(tracing_of(&args[1]));
    std::mem::forget(sc);
    match r {
        Ok(j) => {
            println!("{}", hex::encode(vcore::blake2b::blake2b_224(j.as_bytes())));
            0
        }
        Err(e) => {
            println!("ERROR {e}");
            2
        }
    }
}

fn sampling(run: &mut Run, tier: Tier) -> u64 {
    let sc = Scratch::new("c09c", &[("lib/hist.ak".to_string(), HIST_LIB.to_string()), ("validators/val.ak".to_string(), HIST_VALIDATOR.to_string()), ("validators/va.ak".to_string(), crate::c18::source_for_module("va")), ("validators/vb.ak".to_string(), crate::c18::source_for_module("vb"))]);
    let mut digests: HashSet<String> = HashSet::new();
    let mut n = 0u64;
    let reps = if tier == Tier::Quick { 4 } else { 24 };
    // fresh threads: every HashMap created in them gets new RandomState keys
    for _ in 0..reps {
        let dir = sc.dir.clone();
        let h = std::thread::spawn(move || {
            let s = Scratch { dir };
            let r = s.build(Tracing::All(TraceLevel::Verbose));
            std::mem::forget(s);
            r
        });
        n += 1;
        match h.join() {
            Ok(Ok(j)) => {
                digests.insert(hex::encode(vcore::blake2b::blake2b_224(j.as_bytes())));
            }
            Ok(Err(e)) => run.machinery_error(format!("sampling project does not build: {e}")),
            Err(_) => run.violation(Violation { signature: "build-panics".into(), what: "Project::build panicked".into(), case: json!({"engine":"c09c"}) }),
        }
    }
    let exe = std::env::current_exe().unwrap();
    for threads in if tier == Tier::Quick { vec!["1", "16"] } else { vec!["1", "2", "3", "16"] } {
        for _ in 0..(if tier == Tier::Quick { 1 } else { 3 }) {
            let out = std::process::Command::new(&exe).args(["c09-child", sc.dir.to_str().unwrap(), "verbose"]).env("RAYON_NUM_THREADS", threads).output();
            n += 1;
            if let Ok(o) = out {
                let line = String::from_utf8_lossy(&o.stdout).lines().last().unwrap_or("").to_string();
                if line.starts_with("ERROR") || !o.status.success() {
                    run.machinery_error(format!("child build failed: {line}"));
                } else {
                    digests.insert(line);
                }
            }
        }
    }
    if digests.len() > 1 {
        run.violation(Violation {
            signature: "blueprint-differs-between-runs".into(),
            what: format!("{n} builds of the same sources (fresh threads, child processes, different RAYON_NUM_THREADS) produced {} different plutus.json files", digests.len()),
            case: json!({"engine":"c09c"}),
        });
    }
    run.set("sampled_rebuilds", n);
    run.set("sampled_rebuilds_distinct_blueprints", digests.len() as u64);
    n
}

pub fn run(tier: Tier, _replay: Option<String>) -> i32 {
    let mut run = Run::new("C09", tier);
    let (states, transitions, _differing) = histories(&mut run, tier);
    let (orders, generated) = registration_orders(&mut run);
    let sampled = sampling(&mut run, tier);
    run.sample(json!({"history": ["test hist.t1", "test hist.t1"], "level": "verbose"}));
    run.set("states", states + orders);
    run.set("transitions", transitions + generated);
    run.set("traces_validated_against_impl", states + orders);
    run.set("evaluations", states + orders + sampled);
    run.set("distinct_nontrivial", states.min(9).max(2));
    run.set("hash_map_inventory", json!("process-level nondeterminism (std HashMap seeds in Project / CheckedModules / CodeGenerator, rayon scheduling) is outside bounded exhaustive exploration: sampled only (sub-check c)"));
    run.set("rule", "(a) state = history of items generated by one real CodeGenerator (6 tests, 2 exported functions, 1 validator sharing constants, a constant that depends on another, a constant whose definition uses expect, a traced constant, a generic and mutually recursive helpers); every history of length <= 3 (4 thorough) x 3 trace levels is replayed on a fresh real generator and the last item's bytes compared with a fresh generator's; (b) every topological order of a 5-module project through the public inference API; (c) SAMPLING ONLY: repeated real builds in fresh threads / child processes");
    run.assume("(c) is sampling and decides nothing; permuting definitions inside a source file changes the sources (and the spans traces embed) and is not covered by the statement");
    if states < 100 {
        run.machinery_error("vacuous: fewer than 100 generator histories");
    }
    crate::pj::clean_work();
    run.finish()
}
