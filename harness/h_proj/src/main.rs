use vcore::evid::{parse_args, silence_panics};

fn main() {
    let args: Vec<String> = std::env::args().collect();
    if args.get(1).map(|s| s.as_str()) == Some("c17-child") {
        std::process::exit(h_proj::c17::child_main(&args[2..]));
    }
    if args.get(1).map(|s| s.as_str()) == Some("c20-child") {
        std::process::exit(h_uplc::c20::child_main(&args[2..]));
    }
    if args.get(1).map(|s| s.as_str()) == Some("c09-child") {
        std::process::exit(h_proj::c09::child_main(&args[2..]));
    }
    if args.get(1).map(|s| s.as_str()) == Some("c17-debug") {
        let sc = h_proj::c17::scratch();
        let names: Vec<&str> = args[3].split(',').collect();
        let (reports, outs) = h_proj::c17::check_selection(&sc, &names, &args[2], 42).unwrap();
        println!("{:#?}", reports);
        for o in outs {
            println!("{} {}", o.title, o.summary);
        }
        return;
    }
    let (prop, tier, replay) = parse_args();
    silence_panics();
    let h = std::thread::Builder::new()
        .stack_size(512 * 1024 * 1024)
        .spawn(move || h_proj::dispatch(&prop, tier, replay))
        .unwrap();
    std::process::exit(h.join().unwrap_or(2));
}
