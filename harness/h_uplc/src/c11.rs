//! C11 – variable binding survives name/index conversions.

use crate::common::*;
use serde_json::json;
use std::collections::BTreeMap;
use std::time::Duration;
use uplc::ast::{DeBruijn, Name, NamedDeBruijn, Term};
use uplc::optimize::interner::CodeGenInterner;
use vcore::cek_ref::{self, Outcome, Variant};
use vcore::evid::{guarded, Run, Tier, Violation};
use vcore::nterm::{self, Key, NEnum, NTerm, NameSet};
use vcore::par::par_indices;
use vcore::rterm::{self, Enumerator, RTerm};

#[derive(Default)]
struct Local {
    cases: u64,
    closed: u64,
    open: u64,
    checks: u64,
    shadowing: u64,
    outcomes: BTreeMap<String, u64>,
    violations: Vec<Violation>,
    samples: Vec<String>,
}

fn viol(l: &mut Local, sig: &str, what: String, case: serde_json::Value) {
    l.violations.push(Violation { signature: sig.to_string(), what, case });
}

fn texts_preserved(orig: &Term<Name>, conv: &Term<NamedDeBruijn>) -> bool {
    match (orig, conv) {
        (Term::Var(a), Term::Var(b)) => a.text == b.text,
        (Term::Lambda { parameter_name: a, body: x }, Term::Lambda { parameter_name: b, body: y }) => {
            a.text == b.text && texts_preserved(x, y)
        }
        (Term::Apply { function: f, argument: a }, Term::Apply { function: g, argument: b }) => {
            texts_preserved(f, g) && texts_preserved(a, b)
        }
        (Term::Delay(a), Term::Delay(b)) | (Term::Force(a), Term::Force(b)) => texts_preserved(a, b),
        (Term::Constr { fields: a, .. }, Term::Constr { fields: b, .. }) => {
            a.len() == b.len() && a.iter().zip(b).all(|(x, y)| texts_preserved(x, y))
        }
        (Term::Case { constr: s, branches: a }, Term::Case { constr: t, branches: b }) => {
            texts_preserved(s, t) && a.len() == b.len() && a.iter().zip(b).all(|(x, y)| texts_preserved(x, y))
        }
        _ => true,
    }
}

fn has_shadowing(t: &NTerm, scope: &mut Vec<usize>) -> bool {
    match t {
        NTerm::Lam(i, b) => {
            let sh = scope.contains(i);
            scope.push(*i);
            let r = has_shadowing(b, scope);
            scope.pop();
            sh || r
        }
        NTerm::App(f, a) => has_shadowing(f, scope) || has_shadowing(a, scope),
        NTerm::Delay(b) | NTerm::Force(b) => has_shadowing(b, scope),
        NTerm::Constr(_, fs) => fs.iter().any(|f| has_shadowing(f, scope)),
        NTerm::Case(s, bs) => has_shadowing(s, scope) || bs.iter().any(|f| has_shadowing(f, scope)),
        _ => false,
    }
}

fn check_named(t: &NTerm, names: &NameSet, set_name: &str, key: Key, direct: bool, idx: u64, max: usize, l: &mut Local) {
    l.cases += 1;
    let want = nterm::resolve(t, names, key, &mut vec![]);
    let impl_t = nterm::to_impl(t, names);
    let case = json!({"engine":"c11-named","nameset":set_name,"max_size":max,"index":idx,"term":nterm::show(t, names)});
    if has_shadowing(t, &mut vec![]) {
        l.shadowing += 1;
    }
    match &want {
        Ok(_) => l.closed += 1,
        Err(_) => l.open += 1,
    }
    let shown = || nterm::show(t, names);
    if direct {
        // Name -> DeBruijn
        l.checks += 1;
        let it = impl_t.clone();
        match guarded(move || Term::<DeBruijn>::try_from(it)) {
            Err(p) => viol(l, "panic|name->debruijn", format!("Name->DeBruijn of {} panicked: {}", shown(), p), case.clone()),
            Ok(Ok(d)) => match &want {
                Ok(w) => {
                    if &rterm::from_impl(&d) != w {
                        viol(l, "wrong-binder|name->debruijn", format!("Name->DeBruijn of {} gives {} but binder resolution gives {}", shown(), rterm::show(&rterm::from_impl(&d)), rterm::show(w)), case.clone());
                    }
                }
                Err(free) => viol(l, "free-variable-accepted|name->debruijn", format!("{} has the free variable {}#{} but Name->DeBruijn accepted it as {}", shown(), names[*free].0, names[*free].1, rterm::show(&rterm::from_impl(&d))), case.clone()),
            },
            Ok(Err(_)) => {
                if want.is_ok() {
                    viol(l, "closed-term-rejected|name->debruijn", format!("{} is closed but Name->DeBruijn rejected it", shown()), case.clone());
                }
            }
        }
        // Name -> NamedDeBruijn
        l.checks += 1;
        let it = impl_t.clone();
        match guarded(move || Term::<NamedDeBruijn>::try_from(it)) {
            Err(p) => viol(l, "panic|name->named-debruijn", format!("Name->NamedDeBruijn of {} panicked: {}", shown(), p), case.clone()),
            Ok(Ok(d)) => match &want {
                Ok(w) => {
                    if &rterm::from_impl(&d) != w {
                        viol(l, "wrong-binder|name->named-debruijn", format!("Name->NamedDeBruijn of {} gives {} but binder resolution gives {}", shown(), rterm::show(&rterm::from_impl(&d)), rterm::show(w)), case.clone());
                    } else if !texts_preserved(&impl_t, &d) {
                        viol(l, "text-lost|name->named-debruijn", format!("Name->NamedDeBruijn of {} changed a name's text", shown()), case.clone());
                    }
                    // and back: NamedDeBruijn -> Name -> DeBruijn
                    l.checks += 1;
                    let dd = d.clone();
                    match guarded(move || Term::<Name>::try_from(dd).map(Term::<DeBruijn>::try_from)) {
                        Ok(Ok(Ok(back))) => {
                            if &rterm::from_impl(&back) != w {
                                viol(l, "round-trip|named-debruijn->name->debruijn", format!("{}: NamedDeBruijn->Name->DeBruijn gives {} instead of {}", shown(), rterm::show(&rterm::from_impl(&back)), rterm::show(w)), case.clone());
                            }
                        }
                        Ok(_) => viol(l, "round-trip-rejected|named-debruijn->name->debruijn", format!("{}: closed term rejected on the way back", shown()), case.clone()),
                        Err(p) => viol(l, "panic|named-debruijn->name", format!("{}: panicked {}", shown(), p), case.clone()),
                    }
                }
                Err(_) => viol(l, "free-variable-accepted|name->named-debruijn", format!("{} has a free variable but Name->NamedDeBruijn accepted it", shown()), case.clone()),
            },
            Ok(Err(_)) => {
                if want.is_ok() {
                    viol(l, "closed-term-rejected|name->named-debruijn", format!("{} is closed but Name->NamedDeBruijn rejected it", shown()), case.clone());
                }
            }
        }
    }
    // CodeGenInterner then Name -> DeBruijn
    l.checks += 1;
    let mut it = impl_t.clone();
    match guarded(move || {
        CodeGenInterner::new().term(&mut it);
        Term::<DeBruijn>::try_from(it)
    }) {
        Err(p) => viol(l, "panic|interner", format!("CodeGenInterner / conversion of {} panicked: {}", shown(), p), case.clone()),
        Ok(Ok(d)) => match &want {
            Ok(w) => {
                if &rterm::from_impl(&d) != w {
                    viol(l, "wrong-binder|interner", format!("after CodeGenInterner, {} converts to {} but binder resolution gives {}", shown(), rterm::show(&rterm::from_impl(&d)), rterm::show(w)), case.clone());
                }
            }
            Err(_) => viol(l, "free-variable-accepted|interner", format!("{} has a free variable but was accepted after CodeGenInterner as {}", shown(), rterm::show(&rterm::from_impl(&d))), case.clone()),
        },
        Ok(Err(_)) => {
            if want.is_ok() {
                viol(l, "closed-term-rejected|interner", format!("{} is closed but was rejected after CodeGenInterner", shown()), case.clone());
            }
        }
    }
    // evaluation is unchanged: the named program evaluated through its conversion gives what
    // the resolved de Bruijn term gives
    if let Ok(w) = &want {
        if direct {
            l.checks += 1;
            let r = cek_ref::eval(w, Variant::E, 100_000); // Program::eval is PlutusV3 at the current protocol
            let it = impl_t.clone();
            let got = guarded(move || {
                let p: uplc::ast::Program<NamedDeBruijn> =
                    uplc::ast::Program { version: (1, 1, 0), term: it }.to_named_debruijn().map_err(|_| ())?;
                Ok::<_, ()>(p.eval(huge_budget()).result.map(|t| rterm::from_impl(&t)).map_err(|_| ()))
            });
            match (r.outcome, r.term, got) {
                (Outcome::Value, Some(wv), Ok(Ok(Ok(g)))) => {
                    *l.outcomes.entry("value".into()).or_default() += 1;
                    if wv != g {
                        viol(l, "eval-differs", format!("{} evaluates to {} through the named form, {} through its de Bruijn image", shown(), rterm::show(&g), rterm::show(&wv)), case.clone());
                    }
                }
                (Outcome::Failure, _, Ok(Ok(Err(())))) => *l.outcomes.entry("failure".into()).or_default() += 1,
                (Outcome::Horizon, _, _) | (Outcome::Unsupported, _, _) => {}
                (o, _, g) => viol(l, "eval-verdict-differs", format!("{}: reference {:?}, implementation {:?}", shown(), o, g.map(|x| x.map(|y| y.is_ok()))), case.clone()),
            }
        }
    }
    if l.samples.len() < 2 && idx % 4099 == 5 {
        l.samples.push(format!("{} => {}", shown(), match &want { Ok(w) => rterm::show(w), Err(f) => format!("free {}#{}", names[*f].0, names[*f].1) }));
    }
}

fn well_scoped(t: &RTerm, depth: usize) -> bool {
    match t {
        RTerm::Var(i) => *i >= 1 && *i <= depth,
        RTerm::Lam(b) => well_scoped(b, depth + 1),
        RTerm::Delay(b) | RTerm::Force(b) => well_scoped(b, depth),
        RTerm::App(f, a) => well_scoped(f, depth) && well_scoped(a, depth),
        RTerm::Constr(_, fs) => fs.iter().all(|f| well_scoped(f, depth)),
        RTerm::Case(s, bs) => well_scoped(s, depth) && bs.iter().all(|f| well_scoped(f, depth)),
        _ => true,
    }
}

fn has_index0(t: &RTerm) -> bool {
    match t {
        RTerm::Var(i) => *i == 0,
        RTerm::Lam(b) | RTerm::Delay(b) | RTerm::Force(b) => has_index0(b),
        RTerm::App(f, a) => has_index0(f) || has_index0(a),
        RTerm::Constr(_, fs) => fs.iter().any(has_index0),
        RTerm::Case(s, bs) => has_index0(s) || bs.iter().any(has_index0),
        _ => false,
    }
}

fn check_debruijn(t: &RTerm, idx: u64, max: usize, l: &mut Local) {
    l.cases += 1;
    let ok = well_scoped(t, 0);
    if ok { l.closed += 1 } else { l.open += 1 }
    let case = json!({"engine":"c11-debruijn","max_size":max,"index":idx,"term":rterm::show(t)});
    let class = if has_index0(t) { "index-0" } else { "index>depth" };
    // DeBruijn -> Name (-> DeBruijn)
    l.checks += 1;
    let d = rterm::to_debruijn(t);
    match guarded(move || Term::<Name>::try_from(d).map(|n| Term::<DeBruijn>::try_from(n))) {
        Err(p) => viol(l, "panic|debruijn->name", format!("DeBruijn->Name of {} panicked: {}", rterm::show(t), p), case.clone()),
        Ok(Ok(back)) => {
            if !ok {
                viol(l, &format!("free-index-accepted|debruijn->name|{class}"), format!("{} has a free de Bruijn index but DeBruijn->Name accepted it (and converts back to {})", rterm::show(t), back.map(|b| rterm::show(&rterm::from_impl(&b))).unwrap_or_else(|_| "an error".into())), case.clone());
            } else {
                match back {
                    Ok(b) if &rterm::from_impl(&b) == t => {}
                    Ok(b) => viol(l, "round-trip|debruijn->name->debruijn", format!("{} round-trips to {}", rterm::show(t), rterm::show(&rterm::from_impl(&b))), case.clone()),
                    Err(_) => viol(l, "round-trip-rejected|debruijn->name->debruijn", format!("{}: the named form was rejected on the way back", rterm::show(t)), case.clone()),
                }
            }
        }
        Ok(Err(_)) => {
            if ok {
                viol(l, "closed-term-rejected|debruijn->name", format!("{} is well-scoped but DeBruijn->Name rejected it", rterm::show(t)), case.clone());
            }
        }
    }
    // NamedDeBruijn -> Name
    l.checks += 1;
    let d = rterm::to_named_debruijn(t);
    match guarded(move || Term::<Name>::try_from(d).map(|n| Term::<NamedDeBruijn>::try_from(n))) {
        Err(p) => viol(l, "panic|named-debruijn->name", format!("NamedDeBruijn->Name of {} panicked: {}", rterm::show(t), p), case.clone()),
        Ok(Ok(back)) => {
            if !ok {
                viol(l, &format!("free-index-accepted|named-debruijn->name|{class}"), format!("{} has a free de Bruijn index but NamedDeBruijn->Name accepted it", rterm::show(t)), case.clone());
            } else {
                match back {
                    Ok(b) if &rterm::from_impl(&b) == t => {}
                    _ => viol(l, "round-trip|named-debruijn->name->named-debruijn", format!("{} does not round-trip", rterm::show(t)), case.clone()),
                }
            }
        }
        Ok(Err(_)) => {
            if ok {
                viol(l, "closed-term-rejected|named-debruijn->name", format!("{} is well-scoped but NamedDeBruijn->Name rejected it", rterm::show(t)), case.clone());
            }
        }
    }
    if l.samples.len() < 2 && idx % 4099 == 5 {
        l.samples.push(format!("{} well-scoped={}", rterm::show(t), ok));
    }
}

fn n1() -> NameSet {
    vec![("x", 0), ("x", 1), ("y", 2)]
}
fn n2() -> NameSet {
    vec![("x", 0), ("y", 0)]
}

pub fn run(tier: Tier, replay: Option<String>) -> i32 {
    let max = match tier {
        Tier::Quick => 6,
        Tier::Thorough => 7,
    };
    if let Some(path) = replay {
        return replay_case(&path);
    }
    let mut run = Run::new("C11", tier);
    let cap = Some(match tier {
        Tier::Quick => Duration::from_secs(45),
        Tier::Thorough => Duration::from_secs(1200),
    });
    let t1 = NEnum::new(3, 2, 2).total(max);
    let t2 = NEnum::new(2, 2, 2).total(max);
    let t3 = Enumerator::new(small_alphabet(1, true)).total(max + 1);
    let total = t1 + t2 + t3;
    let out = par_indices(
        total,
        1024,
        cap,
        |_| (NEnum::new(3, 2, 2), NEnum::new(2, 2, 2), Enumerator::new(small_alphabet(1, true)), Local::default()),
        |(e1, e2, e3, l), idx| {
            if idx < t1 {
                let t = e1.unrank_global(max, idx);
                check_named(&t, &n1(), "N1", Key::Unique, true, idx, max, l);
            } else if idx < t1 + t2 {
                let t = e2.unrank_global(max, idx - t1);
                check_named(&t, &n2(), "N2", Key::Pair, false, idx - t1, max, l);
            } else {
                let t = e3.unrank_global(max + 1, idx - t1 - t2);
                check_debruijn(&t, idx - t1 - t2, max + 1, l);
            }
        },
        |(_, _, _, l)| l,
    );
    let mut tot = Local::default();
    for l in out.results {
        tot.cases += l.cases;
        tot.closed += l.closed;
        tot.open += l.open;
        tot.checks += l.checks;
        tot.shadowing += l.shadowing;
        for (k, v) in l.outcomes {
            *tot.outcomes.entry(k).or_default() += v;
        }
        run.violations_extend(l.violations);
        for s in l.samples {
            run.sample(s);
        }
    }
    if out.capped {
        run.cap_hit(&format!("wall cap: {} of {} terms", out.done, total));
    }
    run.set("named_terms_unique_keyed", t1);
    run.set("named_terms_pair_keyed", t2);
    run.set("debruijn_terms", t3);
    run.set("max_size_named", max as u64);
    run.set("max_size_debruijn", (max + 1) as u64);
    run.set("states", tot.cases);
    run.set("transitions", tot.checks);
    run.set("traces_validated_against_impl", tot.checks);
    run.set("evaluations", tot.cases);
    run.set("distinct_nontrivial", tot.shadowing);
    run.set("rule", "every named term of size <= bound over names {x#0,x#1,y#2} (binder = unique) and {x#0,y#0} (binder = (text,unique), through CodeGenInterner), and every de Bruijn term with indices 0..depth+1; distinct_nontrivial = terms containing a shadowing binder");
    run.set("well_scoped", tot.closed);
    run.set("with_free_variable", tot.open);
    run.set("eval_outcomes", json!(tot.outcomes));
    run.assume("a binder is identified by its unique in the de Bruijn converter and by (text, unique) in CodeGenInterner, as their doc comments state; name sets are chosen so that both notions coincide where both are applied");
    if tot.open == 0 || tot.closed == 0 || tot.shadowing == 0 {
        run.machinery_error("vacuous: need closed, open and shadowing terms");
    }
    run.finish()
}

fn replay_case(path: &str) -> i32 {
    let doc: serde_json::Value = serde_json::from_str(&std::fs::read_to_string(path).expect("read")).expect("json");
    let case = &doc["case"];
    let max = case["max_size"].as_u64().unwrap() as usize;
    let idx = case["index"].as_u64().unwrap();
    let mut l = Local::default();
    match case["engine"].as_str() {
        Some("c11-debruijn") => {
            let t = Enumerator::new(small_alphabet(1, true)).unrank_global(max, idx);
            check_debruijn(&t, idx, max, &mut l);
        }
        _ => {
            if case["nameset"].as_str() == Some("N2") {
                let t = NEnum::new(2, 2, 2).unrank_global(max, idx);
                check_named(&t, &n2(), "N2", Key::Pair, false, idx, max, &mut l);
            } else {
                let t = NEnum::new(3, 2, 2).unrank_global(max, idx);
                check_named(&t, &n1(), "N1", Key::Unique, true, idx, max, &mut l);
            }
        }
    }
    if l.violations.is_empty() {
        println!("no violation on replay");
        0
    } else {
        for v in &l.violations {
            println!("VIOLATION property=C11 replay={path}\n  {}", v.what);
        }
        1
    }
}
