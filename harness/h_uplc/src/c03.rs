//! C03 – the evaluator implements UPLC's operational semantics.
//! Every closed term up to a size bound over the C03 alphabet, under each semantics variant,
//! is evaluated by the implementation and by the independent reference CEK machine.

use crate::common::*;
use serde_json::json;
use std::collections::HashSet;
use std::time::Duration;
use strum::IntoEnumIterator;
use uplc::builtins::DefaultFunction;
use vcore::cek_ref::{self, Outcome, Variant, RULES};
use vcore::evid::{fnv, Run, Tier, Violation};
use vcore::par::par_indices;
use vcore::rterm::{self, Enumerator, RTerm};

#[derive(Default)]
pub struct Local {
    cases: u64,
    ref_steps: u64,
    ok: u64,
    fail: u64,
    undefined: u64,
    rules: [u64; 16],
    rules_e: [u64; 16],
    distinct: HashSet<u64>,
    violations: Vec<Violation>,
    samples: Vec<String>,
}

fn root(t: &RTerm) -> &'static str {
    match t {
        RTerm::Var(_) => "var",
        RTerm::Lam(_) => "lam",
        RTerm::App(..) => "apply",
        RTerm::Delay(_) => "delay",
        RTerm::Force(_) => "force",
        RTerm::Error => "error",
        RTerm::Con(_) => "con",
        RTerm::Builtin(_) => "builtin",
        RTerm::Constr(..) => "constr",
        RTerm::Case(..) => "case",
    }
}

/// Where two terms first differ (path of constructor names) – the input class of a
/// value mismatch.
fn diff_path(a: &RTerm, b: &RTerm) -> String {
    use RTerm::*;
    match (a, b) {
        (Lam(x), Lam(y)) | (Delay(x), Delay(y)) | (Force(x), Force(y)) => {
            format!("{}/{}", root(a), diff_path(x, y))
        }
        (App(f, x), App(g, y)) => {
            if f != g {
                format!("apply.f/{}", diff_path(f, g))
            } else {
                format!("apply.a/{}", diff_path(x, y))
            }
        }
        (Constr(t1, f1), Constr(t2, f2)) if t1 == t2 && f1.len() == f2.len() => {
            for (x, y) in f1.iter().zip(f2) {
                if x != y {
                    return format!("constr/{}", diff_path(x, y));
                }
            }
            "constr".into()
        }
        (Case(s1, b1), Case(s2, b2)) if b1.len() == b2.len() => {
            if s1 != s2 {
                return format!("case.scrut/{}", diff_path(s1, s2));
            }
            for (x, y) in b1.iter().zip(b2) {
                if x != y {
                    return format!("case.branch/{}", diff_path(x, y));
                }
            }
            "case".into()
        }
        _ => format!("{}!={}", root(a), root(b)),
    }
}

pub fn check_term(t: &RTerm, alphabet: &str, idx: u64, max_size: usize, l: &mut Local) {
    let r_plain = cek_ref::eval(t, Variant::C, 200_000);
    let r_e = cek_ref::eval(t, Variant::E, 200_000);
    for v in Variant::all() {
        let r = if v == Variant::E { &r_e } else { &r_plain };
        l.cases += 1;
        l.ref_steps += r.stats.steps.iter().sum::<u64>();
        match r.outcome {
            Outcome::Horizon | Outcome::Unsupported => {
                l.undefined += 1;
                continue;
            }
            _ => {}
        }
        let rules = if v == Variant::E { &mut l.rules_e } else { &mut l.rules };
        for (i, n) in r.stats.rules.iter().enumerate() {
            rules[i] += n;
        }
        let (got, _) = impl_eval(t, v, huge_budget());
        let case = json!({"engine":"c03","alphabet":alphabet,"max_size":max_size,"index":idx,"variant":v.name(),"term":rterm::show(t)});
        match (&r.outcome, &r.term, &got) {
            (Outcome::Value, Some(want), ImplOutcome::Value(g)) => {
                l.ok += 1;
                l.distinct.insert(fnv(&rterm::show(want)));
                if want != g {
                    l.violations.push(Violation {
                        signature: format!("value-mismatch|{}", diff_path(want, g)),
                        what: format!(
                            "variant {}: {} evaluates to {} but the specification's CEK machine gives {}",
                            v.name(),
                            rterm::show(t),
                            rterm::show(g),
                            rterm::show(want)
                        ),
                        case,
                    });
                }
            }
            (Outcome::Failure, _, ImplOutcome::Failure(_)) => {
                l.fail += 1;
            }
            (Outcome::Value, Some(want), ImplOutcome::Failure(e)) => {
                l.violations.push(Violation {
                    signature: format!("fails-but-spec-succeeds|{}|{}", e, root(t)),
                    what: format!(
                        "variant {}: {} fails with {} but the specification gives {}",
                        v.name(),
                        rterm::show(t),
                        e,
                        rterm::show(want)
                    ),
                    case,
                });
            }
            (Outcome::Failure, _, ImplOutcome::Value(g)) => {
                l.violations.push(Violation {
                    signature: format!("succeeds-but-spec-fails|{}|{}", root(t), v.name()),
                    what: format!(
                        "variant {}: {} evaluates to {} but the specification's machine fails",
                        v.name(),
                        rterm::show(t),
                        rterm::show(g)
                    ),
                    case,
                });
            }
            (_, _, ImplOutcome::Panic(p)) => {
                l.violations.push(Violation {
                    signature: format!("panic|{}", vcore::evid::panic_site_file(p)),
                    what: format!("variant {}: evaluating {} panicked: {}", v.name(), rterm::show(t), p),
                    case,
                });
            }
            _ => unreachable!(),
        }
    }
    if l.samples.len() < 3 && idx % 9973 == 7 {
        l.samples.push(format!(
            "{}  =>  {}",
            rterm::show(t),
            r_plain.term.as_ref().map(rterm::show).unwrap_or_else(|| "failure".into())
        ));
    }
}


/// Captured-environment family: `[[(lam (lam BODY)) c1] c2]` (and the 3-binder analogue)
/// where BODY ranges over every term of size <= max with the d outer binders in scope.
/// The whole-term enumeration only reaches closures over one captured value at its size
/// bound; discharging a closure over several *different* captured values is a distinct
/// shortcut in the code (environment indexing from either end), so it gets its own family.
fn env_family_total(en: &mut Enumerator, d: usize, max: usize) -> u64 {
    (1..=max).map(|s| en.count(s, d)).sum()
}

fn env_family_term(en: &mut Enumerator, d: usize, max: usize, mut idx: u64) -> RTerm {
    use std::rc::Rc;
    let mut body = None;
    for s in 1..=max {
        let c = en.count(s, d);
        if idx < c {
            body = Some(en.unrank(s, d, idx));
            break;
        }
        idx -= c;
    }
    let mut t = body.expect("index in range");
    for _ in 0..d {
        t = RTerm::Lam(Rc::new(t));
    }
    let consts = [rterm::RConst::int(0), rterm::RConst::int(1), rterm::RConst::Bool(true)];
    for c in consts.iter().take(d) {
        t = RTerm::App(Rc::new(t), Rc::new(RTerm::Con(Rc::new(c.clone()))));
    }
    t
}

pub fn run(tier: Tier, replay: Option<String>) -> i32 {
    let max_size = match tier {
        Tier::Quick => 5,
        Tier::Thorough => 6,
    };
    if let Some(path) = replay {
        return replay_case(&path);
    }
    let mut run = Run::new("C03", tier);
    if let Err(e) = cek_ref::self_test() {
        run.machinery_error(format!("reference machine self test failed: {e}"));
        return run.finish();
    }

    // (1) arity / force count of every builtin vs the specification table
    let mut nb = 0u64;
    for f in DefaultFunction::iter() {
        nb += 1;
        let (q, a) = cek_ref::spec_signature(f).unwrap();
        if f.arity() != a || f.force_count() != q {
            run.violation(Violation {
                signature: format!("builtin-signature|{:?}", f),
                what: format!(
                    "builtin {:?}: arity/forces = {}/{} but the specification says {}/{}",
                    f,
                    f.arity(),
                    f.force_count(),
                    a,
                    q
                ),
                case: json!({"engine":"c03","builtin": format!("{:?}", f)}),
            });
        }
    }
    run.set("builtin_signatures_checked", nb);

    // (2) exhaustive enumeration: the full C03 alphabet to max_size, then a small alphabet
    //     two sizes deeper (closures under several binders, longer argument stacks)
    let small_max = max_size + 2;
    let mut e0 = Enumerator::new(c03_alphabet(0, false));
    let total_full = e0.total(max_size);
    let sizes = e0.sizes(max_size);
    let mut e1 = Enumerator::new(small_alphabet(0, false));
    let total_small = e1.total(small_max);
    let sizes_small = e1.sizes(small_max);
    // (3) captured-environment family, bodies one size below the full bound
    let env_max = max_size - 1;
    let mut e2 = Enumerator::new(c03_alphabet(0, false));
    let total_env2 = env_family_total(&mut e2, 2, env_max);
    let total_env3 = env_family_total(&mut e2, 3, env_max - 1);
    let total = total_full + total_small + total_env2 + total_env3;
    let cap = match tier {
        Tier::Quick => Duration::from_secs(50),
        Tier::Thorough => Duration::from_secs(1500),
    };
    let out = par_indices(
        total,
        2048,
        Some(cap),
        |_| (Enumerator::new(c03_alphabet(0, false)), Enumerator::new(small_alphabet(0, false)), Local::default()),
        |(en, en_small, l), idx| {
            if idx < total_full {
                let t = en.unrank_global(max_size, idx);
                check_term(&t, "c03-closed", idx, max_size, l);
            } else if idx < total_full + total_small {
                let t = en_small.unrank_global(small_max, idx - total_full);
                check_term(&t, "small-closed", idx - total_full, small_max, l);
            } else if idx < total_full + total_small + total_env2 {
                let i = idx - total_full - total_small;
                let t = env_family_term(en, 2, env_max, i);
                check_term(&t, "env2", i, env_max, l);
            } else {
                let i = idx - total_full - total_small - total_env2;
                let t = env_family_term(en, 3, env_max - 1, i);
                check_term(&t, "env3", i, env_max - 1, l);
            }
        },
        |(_, _, l)| l,
    );
    let mut cases = 0;
    let mut steps = 0;
    let (mut ok, mut fail, mut undef) = (0, 0, 0);
    let mut rules = [0u64; 16];
    let mut rules_e = [0u64; 16];
    let mut distinct: HashSet<u64> = HashSet::new();
    for l in out.results {
        cases += l.cases;
        steps += l.ref_steps;
        ok += l.ok;
        fail += l.fail;
        undef += l.undefined;
        for i in 0..16 {
            rules[i] += l.rules[i];
            rules_e[i] += l.rules_e[i];
        }
        distinct.extend(l.distinct);
        run.violations_extend(l.violations);
        for s in l.samples {
            run.sample(s);
        }
    }
    if out.capped {
        run.cap_hit(&format!("wall cap {}s: {} of {} terms done", cap.as_secs(), out.done, total));
    }
    run.set("terms_enumerated", out.done);
    run.set("terms_in_space", total);
    run.set("max_size", max_size as u64);
    run.set("terms_per_size", json!(sizes));
    run.set("captured_environment_family_terms", json!({"two_binders": total_env2, "three_binders": total_env3, "body_max_size": env_max}));
    run.set("small_alphabet_max_size", small_max as u64);
    run.set("small_alphabet_terms_per_size", json!(sizes_small));
    run.set("states", cases);
    run.set("transitions", steps);
    run.set("traces_validated_against_impl", ok + fail);
    run.set("evaluations", cases);
    run.set("distinct_nontrivial", distinct.len() as u64);
    run.set("rule", "every closed term of size <= max_size over the C03 alphabet (9 constants, 8 builtins one per force/arity class, constr tags {0,1} with <=2 fields, case with <=2 branches) x 5 semantics variants, plus every closed term of size <= max_size+2 over a small alphabet (2 constants, 2 builtins, 1 tag, <=1 field, <=1 branch), plus the captured-environment family [[(lam (lam BODY)) 0] 1] / [[[(lam (lam (lam BODY))) 0] 1] True] for every BODY of size < max_size with the outer binders in scope; distinct_nontrivial = number of distinct result values");
    run.set("both_succeed", ok);
    run.set("both_fail", fail);
    run.set("oracle_undefined", undef);
    run.set(
        "reference_rules_fired_variants_A_D",
        json!(RULES.iter().zip(rules.iter()).map(|(r, n)| json!({*r: n})).collect::<Vec<_>>()),
    );
    run.set(
        "reference_rules_fired_variant_E",
        json!(RULES.iter().zip(rules_e.iter()).map(|(r, n)| json!({*r: n})).collect::<Vec<_>>()),
    );
    run.assume("the reference machine (vcore::cek_ref) is a faithful transcription of the Plutus Core specification's CEK machine for the constructs and the 8 builtins of the alphabet");
    run.assume("builtin argument types are checked when the application is saturated (deferred unlifting, the behaviour of every protocol version aiken supports)");
    // vacuity guards
    if undef > 0 {
        run.machinery_error(format!("{undef} cases where the reference hit its horizon: closed terms of this size must terminate"));
    }
    for (i, r) in RULES.iter().enumerate() {
        let n = rules[i] + rules_e[i];
        // stuck-* / open-var are not all reachable with closed terms; the others must fire
        if n == 0 && !["open-var"].contains(r) {
            run.machinery_error(format!("vacuous: reference rule {r} never fired"));
        }
    }
    if rules_e[8] == 0 {
        run.machinery_error("vacuous: case on constants never exercised under variant E");
    }
    if distinct.len() < 100 {
        run.machinery_error("vacuous: fewer than 100 distinct result values");
    }
    run.finish()
}

fn replay_case(path: &str) -> i32 {
    let doc: serde_json::Value = serde_json::from_str(&std::fs::read_to_string(path).expect("read replay")).expect("json");
    let case = &doc["case"];
    let max_size = case["max_size"].as_u64().unwrap_or(5) as usize;
    let idx = case["index"].as_u64().expect("index");
    let alphabet = case["alphabet"].as_str().unwrap_or("c03-closed").to_string();
    let mut en = Enumerator::new(if alphabet == "small-closed" { small_alphabet(0, false) } else { c03_alphabet(0, false) });
    let t = match alphabet.as_str() {
        "env2" => env_family_term(&mut en, 2, max_size, idx),
        "env3" => env_family_term(&mut en, 3, max_size, idx),
        _ => en.unrank_global(max_size, idx),
    };
    let mut l = Local::default();
    check_term(&t, &alphabet, idx, max_size, &mut l);
    println!("replaying term #{idx}: {}", rterm::show(&t));
    if l.violations.is_empty() {
        println!("no violation on replay");
        0
    } else {
        for v in &l.violations {
            println!("VIOLATION property=C03 replay={path}\n  {}", v.what);
        }
        1
    }
}
