//! Helpers shared by the h_uplc checks.
use std::rc::Rc;
use uplc::ast::{NamedDeBruijn, Program, Term};
use uplc::machine::cost_model::ExBudget;
use vcore::cek_ref::Variant;
use vcore::evid::guarded;
use vcore::rterm::{self, RConst, RTerm};
use uplc::builtins::DefaultFunction as F;

pub fn huge_budget() -> ExBudget {
    ExBudget { mem: i64::MAX / 4, cpu: i64::MAX / 4 }
}

#[derive(Debug, Clone, PartialEq)]
pub enum ImplOutcome {
    Value(RTerm),
    Failure(String),
    Panic(String),
}

/// Evaluate through the public entry point callers use to pick (language, protocol).
pub fn impl_eval(t: &RTerm, variant: Variant, budget: ExBudget) -> (ImplOutcome, ExBudget) {
    let term: Term<NamedDeBruijn> = rterm::to_named_debruijn(t);
    let program = Program { version: (1, 1, 0), term };
    let (lang, pv) = variant.selector();
    match guarded(move || {
        let r = program.eval_version_with_protocol(budget, &lang, pv);
        let cost = r.cost();
        (r.result, cost)
    }) {
        Ok((Ok(term), cost)) => (ImplOutcome::Value(rterm::from_impl(&term)), cost),
        Ok((Err(e), cost)) => (ImplOutcome::Failure(error_kind(&e)), cost),
        Err(p) => (ImplOutcome::Panic(p), ExBudget { mem: 0, cpu: 0 }),
    }
}

/// The name of the error variant (Debug text up to the first delimiter).
pub fn error_kind(e: &uplc::machine::Error) -> String {
    let s = format!("{:?}", e);
    s.split(|c: char| c == '(' || c == ' ' || c == '{').next().unwrap_or("").to_string()
}

pub fn c03_alphabet(free_extra: usize, index0: bool) -> rterm::Alphabet {
    let c = |x: RConst| Rc::new(x);
    rterm::Alphabet {
        consts: vec![
            c(RConst::Unit),
            c(RConst::Bool(true)),
            c(RConst::Bool(false)),
            c(RConst::int(0)),
            c(RConst::int(1)),
            c(RConst::List(rterm::RType::Integer, vec![])),
            c(RConst::List(rterm::RType::Integer, vec![RConst::int(0)])),
            c(RConst::Pair(Box::new(RConst::int(0)), Box::new(RConst::Bool(true)))),
            c(RConst::String("s".into())),
        ],
        builtins: vec![
            F::AddInteger,
            F::IfThenElse,
            F::HeadList,
            F::FstPair,
            F::ChooseList,
            F::MkCons,
            F::Trace,
            F::ChooseData,
        ],
        constr_tags: vec![0, 1],
        max_fields: 2,
        max_branches: 2,
        free_extra,
        index0,
    }
}

/// A deliberately small alphabet so that larger terms (deeper closures, discharge under
/// several binders, longer argument stacks) can still be enumerated completely.
pub fn small_alphabet(free_extra: usize, index0: bool) -> rterm::Alphabet {
    let c = |x: RConst| Rc::new(x);
    rterm::Alphabet {
        consts: vec![c(RConst::int(1)), c(RConst::Bool(true))],
        builtins: vec![F::AddInteger, F::IfThenElse],
        constr_tags: vec![0],
        max_fields: 1,
        max_branches: 1,
        free_extra,
        index0,
    }
}
