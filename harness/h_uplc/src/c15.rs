//! C15 – UPLC text round-trips: parse(print(p)) == p and print(parse(print(p))) == print(p).

use crate::bvals::{self, BType, BVal};
use crate::common::*;
use num_bigint::BigInt;
use serde_json::json;
use std::rc::Rc;
use std::time::Duration;
use strum::IntoEnumIterator;
use uplc::ast::{Constant, DeBruijn, Name, Program, Term, Unique};
use uplc::builtins::DefaultFunction;
use uplc::machine::runtime::Compressable;
use vcore::evid::{guarded, Run, Tier, Violation};
use vcore::par::par_indices;
use vcore::rterm::{self, Alphabet, Enumerator, RConst, RData, RTerm, RType};

/// Identifier-alphabet names by binder depth; text determines the unique (as with names
/// the parser itself produces).
const NAMES: [&str; 6] = ["x", "i_0", "a-b'~", "_", "0x", "lam"];

fn name_at(level: usize) -> Rc<Name> {
    let text = if level < NAMES.len() {
        NAMES[level].to_string()
    } else {
        format!("v{level}")
    };
    Rc::new(Name { text, unique: Unique::new(level as isize) })
}

/// de Bruijn RTerm -> named implementation term (closed terms only)
fn to_named(t: &RTerm, depth: usize) -> Term<Name> {
    match t {
        RTerm::Var(i) => Term::Var(name_at(depth - *i)),
        RTerm::Lam(b) => Term::Lambda { parameter_name: name_at(depth), body: Rc::new(to_named(b, depth + 1)) },
        RTerm::App(f, a) => Term::Apply { function: Rc::new(to_named(f, depth)), argument: Rc::new(to_named(a, depth)) },
        RTerm::Delay(b) => Term::Delay(Rc::new(to_named(b, depth))),
        RTerm::Force(b) => Term::Force(Rc::new(to_named(b, depth))),
        RTerm::Error => Term::Error,
        RTerm::Con(c) => Term::Constant(Rc::new(rterm::to_impl_const(c))),
        RTerm::Builtin(b) => Term::Builtin(*b),
        RTerm::Constr(tag, fs) => Term::Constr { tag: *tag, fields: fs.iter().map(|f| to_named(f, depth)).collect() },
        RTerm::Case(s, bs) => Term::Case { constr: Rc::new(to_named(s, depth)), branches: bs.iter().map(|f| to_named(f, depth)).collect() },
    }
}

/// Comparable image of a constant: Data by its abstract value (the text syntax has no way to
/// say definite vs indefinite), BLS elements by their compressed bytes.
fn const_image(c: &Constant) -> String {
    match c {
        Constant::Bls12_381G1Element(p) => format!("g1:{}", hex::encode(p.compress())),
        Constant::Bls12_381G2Element(p) => format!("g2:{}", hex::encode(p.compress())),
        Constant::ProtoList(t, xs) => format!("[{}|{}]", t, xs.iter().map(const_image).collect::<Vec<_>>().join(",")),
        Constant::ProtoPair(a, b, x, y) => format!("({}|{}|{},{})", a, b, const_image(x), const_image(y)),
        Constant::Data(d) => format!("data:{}", rterm::show_data(&rterm::from_impl_data(d))),
        Constant::Integer(i) => format!("int:{i}"),
        Constant::ByteString(b) => format!("bs:{}", hex::encode(b)),
        Constant::String(s) => format!("str:{:?}", s),
        Constant::Unit => "unit".into(),
        Constant::Bool(b) => format!("bool:{b}"),
        Constant::Bls12_381MlResult(_) => "mlresult".into(),
    }
}

fn term_image(t: &Term<DeBruijn>) -> String {
    match t {
        Term::Var(i) => format!("v{}", i.inner()),
        Term::Lambda { body, .. } => format!("(lam {})", term_image(body)),
        Term::Apply { function, argument } => format!("[{} {}]", term_image(function), term_image(argument)),
        Term::Delay(b) => format!("(delay {})", term_image(b)),
        Term::Force(b) => format!("(force {})", term_image(b)),
        Term::Error => "(error)".into(),
        Term::Constant(c) => format!("(con {})", const_image(c)),
        Term::Builtin(b) => format!("(builtin {:?})", b),
        Term::Constr { tag, fields } => format!("(constr {}{})", tag, fields.iter().map(|f| format!(" {}", term_image(f))).collect::<String>()),
        Term::Case { constr, branches } => format!("(case {}{})", term_image(constr), branches.iter().map(|f| format!(" {}", term_image(f))).collect::<String>()),
    }
}

fn program_image(p: &Program<Name>) -> Result<String, String> {
    let d: Program<DeBruijn> = p.clone().to_debruijn().map_err(|e| format!("{e}"))?;
    Ok(format!("{}.{}.{} {}", p.version.0, p.version.1, p.version.2, term_image(&d.term)))
}

#[derive(Default)]
pub struct Local {
    cases: u64,
    violations: Vec<Violation>,
    samples: Vec<String>,
    distinct_texts: std::collections::HashSet<u64>,
}

/// The round trip of one named program. `class` is the input class used in signatures.
pub fn check_program(p: &Program<Name>, class: &str, case: serde_json::Value, l: &mut Local) {
    l.cases += 1;
    let pp = p.clone();
    let printed = match guarded(move || pp.to_pretty()) {
        Ok(s) => s,
        Err(e) => {
            l.violations.push(Violation { signature: format!("print-panics|{class}"), what: format!("printing a program panicked: {e}"), case });
            return;
        }
    };
    l.distinct_texts.insert(vcore::evid::fnv(&printed));
    let txt = printed.clone();
    let parsed = match guarded(move || uplc::parser::program(&txt)) {
        Err(e) => {
            l.violations.push(Violation { signature: format!("parser-panics-on-printed-text|{class}"), what: format!("the parser panicked on printer output {:?}: {}", short(&printed), e), case });
            return;
        }
        Ok(Err(e)) => {
            l.violations.push(Violation { signature: format!("parser-rejects-printed-text|{class}"), what: format!("the parser rejects printer output {:?}: {}", short(&printed), e), case });
            return;
        }
        Ok(Ok(q)) => q,
    };
    let (a, b) = (program_image(p), program_image(&parsed));
    match (a, b) {
        (Ok(a), Ok(b)) => {
            if a != b {
                l.violations.push(Violation { signature: format!("reads-back-differently|{class}"), what: format!("printed as {:?}; read back as {} instead of {}", short(&printed), short(&b), short(&a)), case: case.clone() });
                return;
            }
        }
        (Ok(_), Err(e)) => {
            l.violations.push(Violation { signature: format!("reads-back-open|{class}"), what: format!("printed as {:?}; the text read back is not closed: {}", short(&printed), e), case: case.clone() });
            return;
        }
        (Err(e), _) => {
            // the harness only builds closed programs
            l.violations.push(Violation { signature: "machinery|open-input".into(), what: e, case: case.clone() });
            return;
        }
    }
    let again = parsed.to_pretty();
    if again != printed {
        l.violations.push(Violation { signature: format!("print-not-idempotent|{class}"), what: format!("print(parse(t)) != t for t = {:?}: got {:?}", short(&printed), short(&again)), case });
    }
}

fn short(s: &str) -> String {
    let s = s.replace('\n', " ");
    let s = s.split_whitespace().collect::<Vec<_>>().join(" ");
    if s.chars().count() > 160 { format!("{}…", s.chars().take(160).collect::<String>()) } else { s }
}

fn prog(term: Term<Name>) -> Program<Name> {
    Program { version: (1, 1, 0), term }
}

// ---------------------------------------------------------------------------------------
// constant universe

fn data_values() -> Vec<RData> {
    let two = |n: u32| BigInt::from(1) << n;
    vec![
        RData::I(0.into()),
        RData::I((-1).into()),
        RData::I(two(64)),
        RData::I(-two(64) - 1),
        RData::B(vec![]),
        RData::B(vec![0xff, 0x00]),
        RData::Constr(0, vec![]),
        RData::Constr(6, vec![RData::I(1.into())]),
        RData::Constr(7, vec![]),
        RData::Constr(127, vec![RData::B(vec![1])]),
        RData::Constr(128, vec![]),
        RData::Constr(1 << 32, vec![RData::I(2.into())]),
        RData::List(vec![]),
        RData::List(vec![RData::I(1.into()), RData::B(vec![0])]),
        RData::Map(vec![]),
        RData::Map(vec![(RData::I(1.into()), RData::List(vec![])), (RData::B(vec![]), RData::Constr(1, vec![]))]),
        RData::Constr(1, vec![RData::Constr(2, vec![RData::Map(vec![(RData::I(0.into()), RData::I(0.into()))])])]),
    ]
}

fn g1_inf() -> Vec<u8> {
    let mut v = vec![0u8; 48];
    v[0] = 0xc0;
    v
}
fn g2_inf() -> Vec<u8> {
    let mut v = vec![0u8; 96];
    v[0] = 0xc0;
    v
}

fn base_types() -> Vec<BType> {
    vec![BType::Int, BType::Bytes, BType::Str, BType::Unit, BType::Bool, BType::Data, BType::G1, BType::G2]
}

fn base_values(t: &BType) -> Vec<BVal> {
    let two = |n: u32| BigInt::from(1) << n;
    match t {
        BType::Int => vec![BVal::Int(0.into()), BVal::Int((-1).into()), BVal::Int(two(64)), BVal::Int(-two(128))],
        BType::Bytes => vec![BVal::Bytes(vec![]), BVal::Bytes(vec![0, 0xff])],
        BType::Str => vec![BVal::Str(String::new()), BVal::Str("a\"\\\n'".into())],
        BType::Unit => vec![BVal::Unit],
        BType::Bool => vec![BVal::Bool(true), BVal::Bool(false)],
        BType::Data => data_values().into_iter().map(BVal::Data).collect(),
        BType::G1 => vec![BVal::G1(bvals::g1_generator()), BVal::G1(g1_inf())],
        BType::G2 => vec![BVal::G2(bvals::g2_generator()), BVal::G2(g2_inf())],
        _ => unreachable!(),
    }
}

/// at most `n` values of type `t`
fn values(t: &BType, n: usize) -> Vec<BVal> {
    match t {
        BType::List(e) => {
            let ev = values(e, 2);
            let mut out = vec![BVal::List((**e).clone(), vec![])];
            if n > 1 {
                out.push(BVal::List((**e).clone(), ev.clone()));
            }
            out
        }
        BType::Pair(a, b) => {
            let av = values(a, 2);
            let bv = values(b, 2);
            let mut out = vec![BVal::Pair(Box::new(av[0].clone()), Box::new(bv[0].clone()))];
            if n > 1 {
                out.push(BVal::Pair(Box::new(av[av.len() - 1].clone()), Box::new(bv[bv.len() - 1].clone())));
            }
            out
        }
        base => {
            let v = base_values(base);
            v.into_iter().take(n.max(1)).collect()
        }
    }
}

fn types(depth: usize) -> Vec<BType> {
    if depth == 0 {
        return base_types();
    }
    let inner = types(depth - 1);
    let mut out = base_types();
    for t in &inner {
        out.push(BType::List(Box::new(t.clone())));
    }
    for a in &inner {
        for b in &inner {
            out.push(BType::Pair(Box::new(a.clone()), Box::new(b.clone())));
        }
    }
    out
}

fn const_term(v: &BVal) -> Term<Name> {
    Term::Constant(Rc::new(bvals::to_impl_const(v).expect("constant")))
}

fn mixed_alphabet() -> Alphabet {
    let c = |x: RConst| Rc::new(x);
    Alphabet {
        consts: vec![
            c(RConst::Integer(-(BigInt::from(1) << 70u32))),
            c(RConst::ByteString(vec![0xde, 0xad])),
            c(RConst::String("q\"\\".into())),
            c(RConst::Unit),
            c(RConst::Bool(false)),
            c(RConst::Data(RData::Constr(128, vec![RData::I((-5).into()), RData::Map(vec![(RData::B(vec![]), RData::List(vec![]))])]))),
            c(RConst::List(RType::Pair(Box::new(RType::Integer), Box::new(RType::List(Box::new(RType::Bool)))), vec![RConst::Pair(Box::new(RConst::int(1)), Box::new(RConst::List(RType::Bool, vec![RConst::Bool(true)])))])),
        ],
        builtins: vec![DefaultFunction::IfThenElse, DefaultFunction::VerifyEd25519Signature, DefaultFunction::Bls12_381_G2_MultiScalarMul],
        constr_tags: vec![0, 3],
        max_fields: 2,
        max_branches: 2,
        free_extra: 0,
        index0: false,
    }
}

pub fn part(run: &mut Run, tier: Tier) {
    let mut l = Local::default();

    // (a) every builtin
    let mut nb = 0u64;
    for f in DefaultFunction::iter() {
        nb += 1;
        check_program(&prog(Term::Builtin(f)), &format!("builtin-{:?}", f), json!({"engine":"c15-builtin","builtin":format!("{:?}",f)}), &mut l);
    }
    run.set("builtins_round_tripped", nb);

    // (b) constants of every type nesting
    let depth = 2;
    let tys = types(depth);
    let mut nconst = 0u64;
    for t in &tys {
        for v in values(t, 2) {
            nconst += 1;
            let class = format!("constant-{}", type_class_top(t));
            check_program(&prog(const_term(&v)), &class, json!({"engine":"c15-constant","value":v.to_json()}), &mut l);
        }
    }
    for t in base_types() {
        for v in base_values(&t) {
            nconst += 1;
            let class = format!("constant-{}", type_class_top(&t));
            check_program(&prog(const_term(&v)), &class, json!({"engine":"c15-constant","value":v.to_json()}), &mut l);
        }
    }
    run.set("constant_types", tys.len() as u64);
    run.set("constants_round_tripped", nconst);

    // (c) strings: quick = a boundary set of scalars + all 2-character combinations of
    //     the characters with special treatment; thorough = every Unicode scalar value
    let specials: Vec<char> = vec!['"', '\\', '\n', 'x', 'é', '\'', '\t', '\r', ' ', '\u{0}'];
    let mut nstr = 0u64;
    for a in &specials {
        for b in &specials {
            let s: String = [*a, *b].iter().collect();
            nstr += 1;
            check_program(&prog(Term::Constant(Rc::new(Constant::String(s.clone())))), &string_class(&s), json!({"engine":"c15-string","string":s}), &mut l);
        }
    }
    let scalars: Vec<u32> = match tier {
        Tier::Quick | Tier::Thorough => (0..=0x10ffffu32).collect(),
    };
    let mut nscalars = 0u64;
    {
        // parallel over scalars
        let sc = &scalars;
        let out = par_indices(
            sc.len() as u64,
            4096,
            None,
            |_| Local::default(),
            |ll, i| {
                if let Some(ch) = char::from_u32(sc[i as usize]) {
                    let s = ch.to_string();
                    check_program(&prog(Term::Constant(Rc::new(Constant::String(s.clone())))), &string_class(&s), json!({"engine":"c15-string","string":s,"scalar":sc[i as usize]}), ll);
                }
            },
            |ll| ll,
        );
        for ll in out.results {
            nscalars += ll.cases;
            l.cases += ll.cases;
            l.violations.extend(ll.violations);
            l.distinct_texts.extend(ll.distinct_texts);
        }
    }
    run.set("string_pairs_round_tripped", nstr);
    run.set("unicode_scalars_round_tripped", nscalars);

    // (d) programs: every closed term up to a size bound over a mixed-leaf alphabet,
    //     with identifier-alphabet names, three version triples
    let max_size = match tier {
        Tier::Quick => 5,
        Tier::Thorough => 6,
    };
    let total = Enumerator::new(mixed_alphabet()).total(max_size);
    let cap = Some(match tier {
        Tier::Quick => Duration::from_secs(40),
        Tier::Thorough => Duration::from_secs(1200),
    });
    let out = par_indices(
        total,
        512,
        cap,
        |_| (Enumerator::new(mixed_alphabet()), Local::default()),
        |(en, ll), idx| {
            let t = en.unrank_global(max_size, idx);
            let version = [(1, 1, 0), (1, 0, 0), (0, 0, 0), (4294967296, 0, 1)][(idx % 4) as usize];
            let p = Program { version, term: to_named(&t, 0) };
            check_program(&p, "program", json!({"engine":"c15-program","max_size":max_size,"index":idx,"term":rterm::show(&t)}), ll);
            if ll.samples.len() < 2 && idx % 50021 == 17 {
                ll.samples.push(short(&p.to_pretty()));
            }
        },
        |(_, ll)| ll,
    );
    let mut nprog = 0;
    for ll in out.results {
        nprog += ll.cases;
        l.cases += ll.cases;
        l.violations.extend(ll.violations);
        l.distinct_texts.extend(ll.distinct_texts);
        for s in ll.samples {
            run.sample(s);
        }
    }
    if out.capped {
        run.cap_hit(&format!("C15 programs: wall cap, {} of {}", out.done, total));
    }
    run.set("programs_round_tripped", nprog);
    run.set("programs_max_size", max_size as u64);
    run.add("states", l.cases);
    run.add("transitions", 2 * l.cases);
    run.add("traces_validated_against_impl", l.cases);
    run.add("evaluations", l.cases);
    run.add("distinct_nontrivial", l.distinct_texts.len() as u64);
    run.violations_extend(std::mem::take(&mut l.violations));
    run.sample(json!("(program 1.1.0 (con string \"é\"))"));
    run.assume("Data constants are compared by abstract value: the concrete syntax cannot express definite vs indefinite CBOR arrays");
    run.assume("Bls12_381MlResult has no concrete syntax by specification and is excluded; binders are compared by their de Bruijn image");
}

fn type_class_top(t: &BType) -> String {
    match t {
        BType::List(e) => format!("list<{}>", type_class_leaf(e)),
        BType::Pair(a, b) => format!("pair<{},{}>", type_class_leaf(a), type_class_leaf(b)),
        o => type_class_leaf(o),
    }
}
fn type_class_leaf(t: &BType) -> String {
    match t {
        BType::Int => "integer".into(),
        BType::Bytes => "bytestring".into(),
        BType::Str => "string".into(),
        BType::Unit => "unit".into(),
        BType::Bool => "bool".into(),
        BType::Data => "data".into(),
        BType::G1 => "g1".into(),
        BType::G2 => "g2".into(),
        BType::List(_) => "list".into(),
        BType::Pair(..) => "pair".into(),
    }
}

fn string_class(s: &str) -> String {
    if s.chars().any(|c| !c.is_ascii()) {
        "string-non-ascii".into()
    } else if s.chars().any(|c| c.is_ascii_control()) {
        "string-control".into()
    } else {
        "string-ascii".into()
    }
}

pub fn run(tier: Tier, replay: Option<String>) -> i32 {
    if let Some(path) = replay {
        return replay_case(&path);
    }
    let mut run = Run::new("C15", tier);
    part(&mut run, tier);
    run.set("rule", "every builtin; constants of every type nesting to depth 2; strings (every Unicode scalar value as a one-character string, and all 2-character combinations of special characters); every closed program up to the size bound over a mixed-leaf alphabet with identifier-alphabet names; distinct_nontrivial = distinct printed texts");
    run.finish()
}

fn replay_case(path: &str) -> i32 {
    let doc: serde_json::Value = serde_json::from_str(&std::fs::read_to_string(path).expect("read")).expect("json");
    let case = &doc["case"];
    let mut l = Local::default();
    match case["engine"].as_str() {
        Some("c15-builtin") => {
            let f = DefaultFunction::iter().find(|f| Some(format!("{:?}", f).as_str()) == case["builtin"].as_str()).unwrap();
            check_program(&prog(Term::Builtin(f)), "replay", case.clone(), &mut l);
        }
        Some("c15-constant") => {
            let v = BVal::from_json(&case["value"]);
            check_program(&prog(const_term(&v)), "replay", case.clone(), &mut l);
        }
        Some("c15-string") => {
            let s = case["string"].as_str().unwrap().to_string();
            check_program(&prog(Term::Constant(Rc::new(Constant::String(s)))), "replay", case.clone(), &mut l);
        }
        _ => {
            let max_size = case["max_size"].as_u64().unwrap() as usize;
            let idx = case["index"].as_u64().unwrap();
            let t = Enumerator::new(mixed_alphabet()).unrank_global(max_size, idx);
            let version = [(1, 1, 0), (1, 0, 0), (0, 0, 0), (4294967296, 0, 1)][(idx % 4) as usize];
            check_program(&Program { version, term: to_named(&t, 0) }, "replay", case.clone(), &mut l);
        }
    }
    if l.violations.is_empty() {
        println!("no violation on replay");
        0
    } else {
        for v in &l.violations {
            println!("VIOLATION property=C15 replay={path}\n  {}", v.what);
        }
        1
    }
}
