//! C10 (evaluator half) – evaluation never crashes: open / ill-scoped / ill-typed terms under
//! finite budgets, and every builtin applied to every kind of value.

use crate::bvals::{self, BType, BVal};
use crate::common::*;
use num_bigint::BigInt;
use num_traits::Signed;
use serde_json::json;
use std::collections::BTreeMap;
use std::time::Duration;
use strum::IntoEnumIterator;
use uplc::ast::{NamedDeBruijn, Program, Term};
use uplc::builtins::DefaultFunction;
use uplc::machine::cost_model::ExBudget;
use vcore::cek_ref::Variant;
use vcore::evid::{guarded, Run, Tier, Violation};
use vcore::par::par_indices;
use vcore::rterm::{self, Enumerator, RData};

pub fn budgets() -> Vec<(&'static str, ExBudget)> {
    vec![
        ("zero", ExBudget { mem: 0, cpu: 0 }),
        ("one-step", ExBudget { mem: 200, cpu: 16100 }),
        ("1e4-steps", ExBudget { mem: 1_000_100, cpu: 160_000_100 }),
        ("huge", huge_budget()),
    ]
}

pub fn int_class(i: &BigInt) -> &'static str {
    let two = |n: u32| BigInt::from(1) << n;
    if i.is_negative() {
        if i < &-two(63) { "int<-2^63" } else { "int<0" }
    } else if i >= &two(128) {
        "int>=2^128"
    } else if i >= &two(64) {
        "int>=2^64"
    } else if i >= &two(63) {
        "int>=2^63"
    } else {
        "int-small"
    }
}

pub fn val_class(v: &BVal) -> String {
    match v {
        BVal::Int(i) => int_class(i).to_string(),
        BVal::Bytes(b) => if b.is_empty() { "bytes-empty".into() } else { "bytes".into() },
        BVal::Str(_) => "string".into(),
        BVal::Unit => "unit".into(),
        BVal::Bool(_) => "bool".into(),
        BVal::List(t, xs) => format!("list<{}>{}", type_class(t), if xs.is_empty() { "-empty" } else { "" }),
        BVal::Pair(..) => "pair".into(),
        BVal::Data(d) => match d {
            RData::Constr(..) => "data-constr".into(),
            RData::Map(..) => "data-map".into(),
            RData::List(..) => "data-list".into(),
            RData::I(_) => "data-int".into(),
            RData::B(_) => "data-bytes".into(),
        },
        BVal::G1(_) => "g1".into(),
        BVal::G2(_) => "g2".into(),
        BVal::Lam | BVal::Delay | BVal::Constr0 | BVal::BuiltinAdd => "non-constant".into(),
    }
}

fn type_class(t: &BType) -> String {
    match t {
        BType::Int => "int".into(),
        BType::Bytes => "bytes".into(),
        BType::Str => "string".into(),
        BType::Unit => "unit".into(),
        BType::Bool => "bool".into(),
        BType::Data => "data".into(),
        BType::G1 => "g1".into(),
        BType::G2 => "g2".into(),
        BType::List(t) => format!("list<{}>", type_class(t)),
        BType::Pair(a, b) => format!("pair<{},{}>", type_class(a), type_class(b)),
    }
}

/// One representative of every kind of value, plus the integer boundaries every
/// `try_into().unwrap()` in the builtin runtime is sensitive to.
pub fn kinds() -> Vec<BVal> {
    let two = |n: u32| BigInt::from(1) << n;
    vec![
        BVal::Int(0.into()),
        BVal::Int(1.into()),
        BVal::Int((-1).into()),
        BVal::Int(8.into()),
        BVal::Int(127.into()),
        BVal::Int(128.into()),
        BVal::Int(two(63)),
        BVal::Int(two(64)),
        BVal::Int(two(128)),
        BVal::Int(-two(63) - 1),
        BVal::Bytes(vec![]),
        BVal::Bytes(vec![0xff]),
        BVal::Str("a".into()),
        BVal::Unit,
        BVal::Bool(true),
        BVal::Bool(false),
        BVal::List(BType::Int, vec![]),
        BVal::List(BType::Int, vec![BVal::Int(1.into())]),
        BVal::List(BType::Data, vec![BVal::Data(RData::I(0.into()))]),
        BVal::List(
            BType::Pair(Box::new(BType::Data), Box::new(BType::Data)),
            vec![BVal::Pair(
                Box::new(BVal::Data(RData::I(0.into()))),
                Box::new(BVal::Data(RData::B(vec![]))),
            )],
        ),
        // lists whose element type agrees with what a builtin expects only in part
        BVal::List(BType::Pair(Box::new(BType::Int), Box::new(BType::Data)), vec![BVal::Pair(Box::new(BVal::Int(1.into())), Box::new(BVal::Data(RData::I(2.into()))))]),
        BVal::List(BType::Pair(Box::new(BType::Data), Box::new(BType::Int)), vec![BVal::Pair(Box::new(BVal::Data(RData::I(2.into()))), Box::new(BVal::Int(1.into())))]),
        BVal::List(BType::List(Box::new(BType::Data)), vec![BVal::List(BType::Data, vec![])]),
        BVal::Pair(Box::new(BVal::Data(RData::I(0.into()))), Box::new(BVal::Int(1.into()))),
        BVal::List(BType::G1, vec![BVal::G1(bvals::g1_generator())]),
        BVal::Pair(Box::new(BVal::Int(0.into())), Box::new(BVal::Bool(true))),
        BVal::Data(RData::I(0.into())),
        BVal::Data(RData::Constr(0, vec![RData::I(1.into())])),
        BVal::Data(RData::Constr(128, vec![])),
        BVal::G1(bvals::g1_generator()),
        BVal::G2(bvals::g2_generator()),
        BVal::Lam,
        BVal::Delay,
        BVal::Constr0,
    ]
}

struct Local {
    cases: u64,
    outcomes: BTreeMap<String, u64>,
    violations: Vec<Violation>,
    samples: Vec<String>,
}

fn run_program(term: Term<NamedDeBruijn>, v: Variant, budget: ExBudget) -> Result<Result<(), String>, String> {
    let (lang, pv) = v.selector();
    let program = Program { version: (1, 1, 0), term };
    guarded(move || {
        let r = program.eval_version_with_protocol(budget, &lang, pv);
        match &r.result {
            Ok(t) => {
                // the value is something callers print (and feed to further builtins): both
                // must terminate without a crash as well
                // (a Miller-loop result has no concrete syntax by specification: not rendered)
                let printable = !matches!(t, Term::Constant(c) if matches!(c.as_ref(), uplc::ast::Constant::Bls12_381MlResult(_)));
                if printable {
                    let _ = t.to_pretty();
                }
                let follow: &[DefaultFunction] = match t {
                    Term::Constant(c) => match c.as_ref() {
                        uplc::ast::Constant::Data(_) => &[DefaultFunction::UnConstrData, DefaultFunction::UnMapData, DefaultFunction::UnListData, DefaultFunction::UnIData, DefaultFunction::UnBData, DefaultFunction::SerialiseData],
                        uplc::ast::Constant::ProtoList(..) => &[DefaultFunction::HeadList, DefaultFunction::TailList, DefaultFunction::NullList, DefaultFunction::ListData, DefaultFunction::MapData],
                        uplc::ast::Constant::ProtoPair(..) => &[DefaultFunction::FstPair, DefaultFunction::SndPair],
                        uplc::ast::Constant::ByteString(_) => &[DefaultFunction::LengthOfByteString, DefaultFunction::BData, DefaultFunction::DecodeUtf8, DefaultFunction::Bls12_381_G1_Uncompress],
                        uplc::ast::Constant::Integer(_) => &[DefaultFunction::IData],
                        _ => &[],
                    },
                    _ => &[],
                };
                for f in follow {
                    let mut next: Term<NamedDeBruijn> = Term::Builtin(*f);
                    for _ in 0..f.force_count() {
                        next = Term::Force(std::rc::Rc::new(next));
                    }
                    let next = Term::Apply { function: std::rc::Rc::new(next), argument: std::rc::Rc::new(t.clone()) };
                    let r2 = Program { version: (1, 1, 0), term: next }.eval_version_with_protocol(budget, &lang, pv);
                    match &r2.result {
                        Ok(t2) => {
                            if !matches!(t2, Term::Constant(c) if matches!(c.as_ref(), uplc::ast::Constant::Bls12_381MlResult(_))) {
                                let _ = t2.to_pretty();
                            }
                        }
                        Err(e) => {
                            let _ = e.to_string();
                        }
                    }
                }
                Ok(())
            }
            Err(e) => {
                // the error is a value callers print: rendering it must not crash either
                let _ = e.to_string();
                Err(error_kind(e))
            }
        }
    })
}

pub fn part(run: &mut Run, tier: Tier) {
    // ---- (1) open / ill-scoped terms x budgets x variants
    let max_size = match tier {
        Tier::Quick => 5,
        Tier::Thorough => 6,
    };
    let mk = || Enumerator::new(c03_alphabet(2, true));
    let total = mk().total(max_size);
    let buds = budgets();
    let cap = match tier {
        Tier::Quick => Duration::from_secs(40),
        Tier::Thorough => Duration::from_secs(1200),
    };
    let out = par_indices(
        total,
        1024,
        Some(cap),
        |_| (mk(), Local { cases: 0, outcomes: BTreeMap::new(), violations: vec![], samples: vec![] }),
        |(en, l), idx| {
            let t = en.unrank_global(max_size, idx);
            let open = !t.is_closed();
            for v in Variant::all() {
                for (bname, b) in &buds {
                    l.cases += 1;
                    let term = rterm::to_named_debruijn(&t);
                    match run_program(term, v, *b) {
                        Ok(Ok(())) => *l.outcomes.entry("ok".into()).or_default() += 1,
                        Ok(Err(k)) => *l.outcomes.entry(k).or_default() += 1,
                        Err(p) => {
                            *l.outcomes.entry("PANIC".into()).or_default() += 1;
                            l.violations.push(Violation {
                                signature: format!(
                                    "panic|evaluator|{}|{}",
                                    if open { "open-term" } else { "closed-term" },
                                    vcore::evid::panic_site_file(&p)
                                ),
                                what: format!(
                                    "evaluating {} (variant {}, budget {}) panicked: {}",
                                    rterm::show(&t),
                                    v.name(),
                                    bname,
                                    p
                                ),
                                case: json!({"engine":"c10-terms","max_size":max_size,"index":idx,"variant":v.name(),"budget":bname,"term":rterm::show(&t)}),
                            });
                        }
                    }
                }
            }
            if open && l.samples.len() < 2 && idx % 7919 == 3 {
                l.samples.push(rterm::show(&t));
            }
        },
        |(_, l)| l,
    );
    let mut outcomes: BTreeMap<String, u64> = BTreeMap::new();
    let mut cases = 0;
    for l in out.results {
        cases += l.cases;
        for (k, v) in l.outcomes {
            *outcomes.entry(k).or_default() += v;
        }
        run.violations_extend(l.violations);
        for s in l.samples {
            run.sample(json!({"open_term": s}));
        }
    }
    if out.capped {
        run.cap_hit(&format!("C10 open terms: wall cap, {} of {} done", out.done, total));
    }
    run.set("open_terms_enumerated", out.done);
    run.set("open_terms_max_size", max_size as u64);
    run.set("open_term_cases", cases);
    run.set("open_term_outcomes", json!(outcomes));
    if !outcomes.contains_key("OpenTermEvaluated") && !outcomes.contains_key("PANIC") {
        run.machinery_error("vacuous: no open-term evaluation error observed");
    }
    if !outcomes.contains_key("OutOfExError") {
        run.machinery_error("vacuous: no budget exhaustion observed");
    }

    // ---- (2) every builtin applied to every kind of value
    let ks = kinds();
    let funs: Vec<DefaultFunction> = DefaultFunction::iter().collect();
    // index space: per builtin, |ks|^min(arity,3)
    let mut offsets = vec![];
    let mut total2 = 0u64;
    for f in &funs {
        let a = f.arity().min(3) as u32;
        offsets.push(total2);
        total2 += (ks.len() as u64).pow(a);
    }
    let out2 = par_indices(
        total2,
        256,
        Some(cap),
        |_| Local { cases: 0, outcomes: BTreeMap::new(), violations: vec![], samples: vec![] },
        |l, idx| {
            let fi = match offsets.binary_search(&idx) {
                Ok(i) => i,
                Err(i) => i - 1,
            };
            let f = funs[fi];
            let mut rem = idx - offsets[fi];
            let a = f.arity();
            let mut args = vec![];
            for _ in 0..a.min(3) {
                args.push(ks[(rem % ks.len() as u64) as usize].clone());
                rem /= ks.len() as u64;
            }
            while args.len() < a {
                args.push(BVal::Unit);
            }
            for v in Variant::all() {
                l.cases += 1;
                let term = bvals::application(f, f.force_count(), &args);
                match run_program(term, v, huge_budget()) {
                    Ok(Ok(())) => *l.outcomes.entry("ok".into()).or_default() += 1,
                    Ok(Err(k)) => *l.outcomes.entry(k).or_default() += 1,
                    Err(p) => {
                        *l.outcomes.entry("PANIC".into()).or_default() += 1;
                        let classes: Vec<String> = args.iter().map(val_class).collect();
                        let _ = classes;
                        l.violations.push(Violation {
                            signature: format!("panic|builtin|{:?}|{}", f, vcore::evid::panic_site_file(&p)),
                            what: format!(
                                "[(builtin {:?}) {}] (variant {}) panicked: {}",
                                f,
                                args.iter().map(|a| a.short()).collect::<Vec<_>>().join(" "),
                                v.name(),
                                p
                            ),
                            case: json!({"engine":"c10-builtin","builtin":format!("{:?}",f),"args":args.iter().map(|a|a.to_json()).collect::<Vec<_>>(),"variant":v.name()}),
                        });
                    }
                }
            }
            if l.samples.len() < 2 && idx % 104729 == 11 {
                l.samples.push(format!("[(builtin {:?}) {}]", f, args.iter().map(|a| a.short()).collect::<Vec<_>>().join(" ")));
            }
        },
        |l| l,
    );
    let mut outcomes2: BTreeMap<String, u64> = BTreeMap::new();
    let mut cases2 = 0;
    for l in out2.results {
        cases2 += l.cases;
        for (k, v) in l.outcomes {
            *outcomes2.entry(k).or_default() += v;
        }
        run.violations_extend(l.violations);
        for s in l.samples {
            run.sample(json!({"builtin_application": s}));
        }
    }
    if out2.capped {
        run.cap_hit(&format!("C10 builtin applications: wall cap, {} of {} done", out2.done, total2));
    }
    run.set("builtin_applications", out2.done);
    run.set("builtin_application_cases", cases2);
    run.set("builtin_application_outcomes", json!(outcomes2));
    run.set("builtins_covered", funs.len() as u64);
    run.set("value_kinds", ks.len() as u64);
    run.add("states", cases + cases2);
    run.add("transitions", cases + cases2);
    run.add("evaluations", cases + cases2);
    run.add("distinct_nontrivial", (outcomes.len() + outcomes2.len()) as u64);
    run.assume("a hang would show as the check itself not terminating (closed and open terms of the enumerated sizes cannot loop; finite budgets bound everything else)");
}

pub fn run(tier: Tier, replay: Option<String>) -> i32 {
    if let Some(path) = replay {
        return replay_case(&path);
    }
    let mut run = Run::new("C10", tier);
    part(&mut run, tier);
    run.set("rule", "all terms (open, index 0, ill-typed) of size <= bound over the C03 alphabet x 4 budgets x 5 variants; every builtin x every tuple of value kinds (30 kinds incl. integer boundaries and constructor-tag encoding boundaries) x 5 variants; distinct_nontrivial = distinct outcome classes (error variants) observed");
    run.set("traces_validated_against_impl", run.get("states"));
    run.finish()
}

pub fn replay_case(path: &str) -> i32 {
    let doc: serde_json::Value = serde_json::from_str(&std::fs::read_to_string(path).expect("read")).expect("json");
    let case = &doc["case"];
    let variant = Variant::all().into_iter().find(|v| Some(v.name()) == case["variant"].as_str()).unwrap_or(Variant::E);
    let res = match case["engine"].as_str() {
        Some("c10-builtin") => {
            let f = DefaultFunction::iter().find(|f| Some(format!("{:?}", f).as_str()) == case["builtin"].as_str()).expect("builtin");
            let args: Vec<BVal> = case["args"].as_array().unwrap().iter().map(BVal::from_json).collect();
            run_program(bvals::application(f, f.force_count(), &args), variant, huge_budget())
        }
        _ => {
            let max_size = case["max_size"].as_u64().unwrap() as usize;
            let idx = case["index"].as_u64().unwrap();
            let t = Enumerator::new(c03_alphabet(2, true)).unrank_global(max_size, idx);
            let b = budgets().into_iter().find(|(n, _)| Some(*n) == case["budget"].as_str()).map(|x| x.1).unwrap_or(huge_budget());
            run_program(rterm::to_named_debruijn(&t), variant, b)
        }
    };
    match res {
        Err(p) => {
            println!("VIOLATION property=C10 replay={path}\n  panicked: {p}");
            1
        }
        Ok(r) => {
            println!("no panic on replay: {:?}", r);
            0
        }
    }
}
