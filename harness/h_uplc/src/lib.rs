pub mod bls;
pub mod bvals;
pub mod c03;
pub mod c04;
pub mod c05;
pub mod c08;
pub mod c10;
pub mod c11;
pub mod c15;
pub mod c19;
pub mod c19b;
pub mod c20;
pub mod common;

use vcore::evid::Tier;

pub fn dispatch(prop: &str, tier: Tier, replay: Option<String>) -> i32 {
    match prop {
        "selftest" => match vcore::cek_ref::self_test() {
            Ok(()) => {
                println!("selftest ok");
                0
            }
            Err(e) => {
                println!("selftest FAILED: {e}");
                2
            }
        },
        "C03" => c03::run(tier, replay),
        "C04" => c04::run(tier, replay),
        "C05" => c05::run(tier, replay),
        "C08" => c08::run(tier, replay),
        "C10" => c10::run(tier, replay),
        "C11" => c11::run(tier, replay),
        "C15" => c15::run(tier, replay),
        "C19" => c19::run(tier, replay),
        other => {
            eprintln!("h_uplc: unknown property {other}");
            2
        }
    }
}
