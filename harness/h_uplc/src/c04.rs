//! C04 – every builtin computes its specified function on its whole domain.
//!
//! (a) vector part: the Python oracle (/verif/oracle, denotations written from the builtin
//!     specification) emits, for every builtin outside the BLS family, the expected result of
//!     the full cartesian product of its per-position boundary sets (incl. wrong-typed and
//!     non-constant arguments); every line is evaluated on the real machine under each of
//!     the five semantics variants and compared (value / failure).
//! (b) BLS12-381 part (bls.rs): algebraic laws over a point x scalar alphabet.
//!
//! Determinism clause: every application is evaluated twice under variant A and the two
//! outcomes (result and cost) must be identical.

use crate::bvals::{self, BVal};
use crate::common::*;
use serde_json::{json, Value as J};
use std::collections::BTreeMap;
use std::str::FromStr;
use std::time::Duration;
use uplc::ast::{NamedDeBruijn, Program, Term};
use uplc::builtins::DefaultFunction;
use vcore::cek_ref::{self, Variant};
use vcore::evid::{guarded, Run, Tier, Violation};
use vcore::par::par_indices;

#[derive(Default)]
struct PerBuiltin {
    tuples: u64,
    ok: u64,
    fail: u64,
    undefined: u64,
    unrepresentable: u64,
}

#[derive(Default)]
struct Local {
    per: BTreeMap<String, PerBuiltin>,
    evaluations: u64,
    compared: u64,
    budget_exhausted: u64,
    distinct_results: std::collections::HashSet<u64>,
    violations: Vec<Violation>,
    machinery: Vec<String>,
    samples: Vec<String>,
}

/// true if some `{"constr":[n, ..]}` inside has a tag that does not fit u64 (the harness's
/// and the implementation's Data representation cannot express it)
fn has_big_tag(j: &J) -> bool {
    match j {
        J::Object(o) => o.iter().any(|(k, v)| {
            if k == "constr" {
                v[0].as_u64().is_none() || has_big_tag(&v[1])
            } else if k == "int" || k == "bytes" || k == "str" {
                false
            } else {
                has_big_tag(v)
            }
        }),
        J::Array(a) => a.iter().any(has_big_tag),
        _ => false,
    }
}

pub fn vectors_path(tier: Tier) -> String {
    format!("/verif/work/c04_vectors_{}.jsonl", tier.as_str())
}

/// (Re)generate the vector file when it is absent or older than the oracle sources.
pub fn ensure_vectors(tier: Tier) -> Result<String, String> {
    let path = vectors_path(tier);
    let newest_src = std::fs::read_dir("/verif/oracle")
        .map_err(|e| e.to_string())?
        .filter_map(|e| e.ok())
        .filter(|e| e.path().extension().map(|x| x == "py").unwrap_or(false))
        .filter_map(|e| e.metadata().ok()?.modified().ok())
        .max();
    let fresh = match (std::fs::metadata(&path).and_then(|m| m.modified()), newest_src) {
        (Ok(v), Some(s)) => v > s,
        _ => false,
    };
    if fresh {
        return Ok(path);
    }
    let _ = std::fs::create_dir_all("/verif/work");
    let tmp = format!("{path}.tmp{}", std::process::id());
    let out = std::process::Command::new("python3")
        .args(["/verif/oracle/builtins_spec.py", "gen", "--tier", tier.as_str(), "--out", &tmp])
        .output()
        .map_err(|e| format!("cannot run the Python oracle: {e}"))?;
    if !out.status.success() {
        return Err(format!("oracle generation failed: {}", String::from_utf8_lossy(&out.stderr).chars().take(600).collect::<String>()));
    }
    std::fs::rename(&tmp, &path).map_err(|e| e.to_string())?;
    Ok(path)
}

#[derive(Debug, Clone, PartialEq)]
enum Got {
    Value(Term<NamedDeBruijn>),
    Failure(String),
    Panic(String),
}

fn eval(f: DefaultFunction, forces: u32, args: &[BVal], v: Variant) -> (Got, i64, i64) {
    let term = bvals::application(f, forces, args);
    let program = Program { version: (1, 1, 0), term };
    let (lang, pv) = v.selector();
    match guarded(move || {
        let r = program.eval_version_with_protocol(huge_budget(), &lang, pv);
        let c = r.cost();
        (r.result, c)
    }) {
        Ok((Ok(t), c)) => (Got::Value(t), c.cpu, c.mem),
        Ok((Err(e), c)) => (Got::Failure(error_kind(&e)), c.cpu, c.mem),
        Err(p) => (Got::Panic(p), 0, 0),
    }
}

/// every Data value inside a result constant
fn data_parts(c: &uplc::ast::Constant, out: &mut Vec<uplc::PlutusData>) {
    use uplc::ast::Constant as K;
    match c {
        K::Data(d) => out.push(d.clone()),
        K::ProtoList(_, xs) => xs.iter().for_each(|x| data_parts(x, out)),
        K::ProtoPair(_, _, a, b) => {
            data_parts(a, out);
            data_parts(b, out);
        }
        _ => {}
    }
}

/// `serialiseData` of the implementation applied to this very representation of a Data value
fn impl_serialise(d: &uplc::PlutusData) -> Result<Vec<u8>, String> {
    let term: Term<NamedDeBruijn> = Term::Apply {
        function: std::rc::Rc::new(Term::Builtin(DefaultFunction::SerialiseData)),
        argument: std::rc::Rc::new(Term::Constant(std::rc::Rc::new(uplc::ast::Constant::Data(d.clone())))),
    };
    let program = Program { version: (1, 1, 0), term };
    match guarded(move || program.eval(huge_budget()).result) {
        Ok(Ok(Term::Constant(c))) => match c.as_ref() {
            uplc::ast::Constant::ByteString(b) => Ok(b.clone()),
            other => Err(format!("{:?}", other)),
        },
        Ok(Ok(t)) => Err(t.to_pretty()),
        Ok(Err(e)) => Err(error_kind(&e)),
        Err(p) => Err(p),
    }
}

fn short_term(t: &Term<NamedDeBruijn>) -> String {
    let s = t.to_pretty().split_whitespace().collect::<Vec<_>>().join(" ");
    if s.chars().count() > 160 { format!("{}…", s.chars().take(160).collect::<String>()) } else { s }
}

fn check_line(line: &str, l: &mut Local) {
    let rec: J = match serde_json::from_str(line) {
        Ok(j) => j,
        Err(e) => {
            l.machinery.push(format!("vector line does not parse: {e}"));
            return;
        }
    };
    let name = rec["f"].as_str().unwrap_or("");
    let Ok(f) = DefaultFunction::from_str(name) else {
        l.machinery.push(format!("the implementation does not know builtin {name}"));
        return;
    };
    let forces = cek_ref::force_count(f).unwrap_or(0);
    let pb = l.per.entry(name.to_string()).or_default();
    pb.tuples += 1;
    if has_big_tag(&rec["args"]) {
        pb.unrepresentable += 1;
        return;
    }
    let args: Vec<BVal> = rec["args"].as_array().unwrap().iter().map(BVal::from_json).collect();
    let case = |variant: &str| json!({"engine":"c04","f":name,"args":rec["args"],"variant":variant});
    let argtxt = || args.iter().map(|a| a.short()).collect::<Vec<_>>().join(" ");
    for v in Variant::all() {
        let expect = if rec.get("expect").is_some() { &rec["expect"] } else { &rec["expect_by_variant"][v.name()] };
        let (got, cpu, mem) = eval(f, forces, &args, v);
        l.evaluations += 1;
        if v == Variant::A {
            // determinism
            let (again, cpu2, mem2) = eval(f, forces, &args, v);
            l.evaluations += 1;
            if again != got || cpu2 != cpu || mem2 != mem {
                l.violations.push(Violation {
                    signature: format!("nondeterministic|{name}"),
                    what: format!("[(builtin {name}) {}] evaluated twice gives different outcomes/costs: {:?} ({cpu},{mem}) vs {:?} ({cpu2},{mem2})", argtxt(), got, again),
                    case: case(v.name()),
                });
            }
        }
        if let Got::Panic(p) = &got {
            l.violations.push(Violation {
                signature: format!("panic|{name}|{}", vcore::evid::panic_site_file(p)),
                what: format!("[(builtin {name}) {}] panicked under variant {}: {p}", argtxt(), v.name()),
                case: case(v.name()),
            });
            continue;
        }
        let pb = l.per.get_mut(name).unwrap();
        match expect {
            J::String(s) if s == "undefined" => {
                pb.undefined += 1;
            }
            J::String(s) if s == "fail" => {
                pb.fail += 1;
                l.compared += 1;
                if let Got::Value(t) = &got {
                    l.violations.push(Violation {
                        signature: format!("spec-mismatch|{name}|expected-failure-got-value"),
                        what: format!("[(builtin {name}) {}] must fail by the specification but returns {} (variant {})", argtxt(), short_term(t), v.name()),
                        case: case(v.name()),
                    });
                }
            }
            J::Object(o) if o.contains_key("ok") => {
                let want_j = &o["ok"];
                if has_big_tag(want_j) {
                    // the specified result is a Constr whose tag the implementation's Data type cannot hold
                    pb.unrepresentable += 1;
                    if let Got::Failure(_) = &got {
                        l.violations.push(Violation {
                            signature: format!("spec-mismatch|{name}|tag outside [0,2^64)"),
                            what: format!("[(builtin {name}) {}] is specified to return a Constr with that tag but fails", argtxt()),
                            case: case(v.name()),
                        });
                    }
                    continue;
                }
                pb.ok += 1;
                l.compared += 1;
                let want = BVal::from_json(want_j);
                let want_term = bvals::to_impl_term(&want);
                match &got {
                    // the literal-size cost of the call exceeds even the harness's budget
                    // (i64::MAX/4): a statement about cost, not about the denotation
                    Got::Failure(k) if k == "OutOfExError" => l.budget_exhausted += 1,
                    Got::Failure(k) => l.violations.push(Violation {
                        signature: format!("spec-mismatch|{name}|expected-value-got-failure"),
                        what: format!("[(builtin {name}) {}] must return {} by the specification but fails with {k} (variant {})", argtxt(), want.short(), v.name()),
                        case: case(v.name()),
                    }),
                    Got::Value(t) => {
                        let same = match t {
                            Term::Constant(c) => bvals::from_impl_const(c) == want,
                            other => *other == want_term,
                        };
                        if !same {
                            l.violations.push(Violation {
                                signature: format!("spec-mismatch|{name}|wrong-value"),
                                what: format!("[(builtin {name}) {}] must return {} by the specification but returns {} (variant {})", argtxt(), want.short(), short_term(t), v.name()),
                                case: case(v.name()),
                            });
                        } else {
                            l.distinct_results.insert(vcore::evid::fnv(&format!("{name}{}", want_j)));
                            // The value is right; is it *represented* the way the rest of the
                            // machine expects (Data has several encodings of one value: compact
                            // vs general constructor tags, small vs big integers)?  Observable
                            // through serialiseData: the result as the builtin built it must
                            // serialise like the same value built from scratch.
                            if v == Variant::A {
                                if let Term::Constant(c) = t {
                                    let mut parts = vec![];
                                    data_parts(c, &mut parts);
                                    for d in parts.iter().take(4) {
                                        l.evaluations += 2;
                                        let fresh = vcore::rterm::to_impl_data(&vcore::rterm::from_impl_data(d));
                                        let (a, b) = (impl_serialise(d), impl_serialise(&fresh));
                                        if a != b {
                                            l.violations.push(Violation {
                                                signature: format!("spec-mismatch|{name}|result-data-not-in-canonical-representation"),
                                                what: format!("[(builtin {name}) {}] returns the right Data value {} but in a representation that serialiseData encodes as {:?} instead of {:?}", argtxt(), vcore::rterm::show_data(&vcore::rterm::from_impl_data(d)), a.map(hex::encode), b.map(hex::encode)),
                                                case: case(v.name()),
                                            });
                                            break;
                                        }
                                    }
                                }
                            }
                        }
                    }
                    Got::Panic(_) => unreachable!(),
                }
            }
            other => l.machinery.push(format!("unrecognised expectation {other}")),
        }
    }
    if l.samples.len() < 2 && l.evaluations % 4099 < 6 {
        l.samples.push(format!("[(builtin {name}) {}] => {}", argtxt(), rec.get("expect").map(|e| e.to_string()).unwrap_or_else(|| rec["expect_by_variant"].to_string())));
    }
}

pub fn run(tier: Tier, replay: Option<String>) -> i32 {
    if let Some(p) = replay {
        return replay_case(&p);
    }
    let mut run = Run::new("C04", tier);
    let path = match ensure_vectors(tier) {
        Ok(p) => p,
        Err(e) => {
            run.machinery_error(e);
            run.set("evaluations", 0);
            return run.finish();
        }
    };
    let text = std::fs::read_to_string(&path).expect("vector file");
    let lines: Vec<&str> = text.lines().collect();
    let cap = Some(match tier {
        Tier::Quick => Duration::from_secs(40),
        Tier::Thorough => Duration::from_secs(1500),
    });
    let out = par_indices(lines.len() as u64, 64, cap, |_| Local::default(), |l, i| check_line(lines[i as usize], l), |l| l);
    let mut per: BTreeMap<String, PerBuiltin> = BTreeMap::new();
    let mut evaluations = 0;
    let mut compared = 0;
    let mut budget_exhausted = 0;
    let mut distinct = std::collections::HashSet::new();
    for l in out.results {
        evaluations += l.evaluations;
        compared += l.compared;
        budget_exhausted += l.budget_exhausted;
        distinct.extend(l.distinct_results);
        for (k, v) in l.per {
            let e = per.entry(k).or_default();
            e.tuples += v.tuples;
            e.ok += v.ok;
            e.fail += v.fail;
            e.undefined += v.undefined;
            e.unrepresentable += v.unrepresentable;
        }
        run.violations_extend(l.violations);
        for m in l.machinery.into_iter().take(3) {
            run.machinery_error(m);
        }
        for s in l.samples {
            run.sample(s);
        }
    }
    if out.capped {
        run.cap_hit(&format!("wall cap: {} of {} vector lines", out.done, lines.len()));
    }
    // vacuity: per builtin both outcomes where the domain has both, undefined fraction < 20 %
    let mut per_json = serde_json::Map::new();
    for (k, v) in &per {
        per_json.insert(k.clone(), json!({"tuples": v.tuples, "expected_value": v.ok, "expected_failure": v.fail, "oracle_undefined": v.undefined, "unrepresentable": v.unrepresentable}));
        if v.undefined * 5 > (v.ok + v.fail + v.undefined).max(1) {
            run.machinery_error(format!("more than 20% of the {k} cases are undefined by the oracle"));
        }
        if v.ok == 0 && !out.capped {
            run.machinery_error(format!("vacuous: no successful application of {k} in the vector set"));
        }
    }
    let bls = crate::bls::run_laws(&mut run, tier);
    run.set("expected_value_but_cost_exceeds_the_harness_budget", budget_exhausted);
    run.set("vector_lines", lines.len() as u64);
    run.set("builtins_with_vectors", per.len() as u64);
    run.set("per_builtin", J::Object(per_json));
    run.set("evaluations", evaluations + bls.evaluations);
    run.set("states", lines.len() as u64 + bls.cases);
    run.set("transitions", evaluations + bls.evaluations);
    run.set("traces_validated_against_impl", compared + bls.cases);
    run.set("distinct_nontrivial", distinct.len() as u64 + bls.distinct);
    run.set("bls_law_instances", bls.cases);
    run.set("bls_laws", json!(bls.per_law));
    run.set("rule", "vector part: for every non-BLS builtin the full cartesian product of per-position boundary sets (integers at 2^31/2^63/2^64/2^127/2^128 and bit-length limits, byte strings at 0/1/31/32/33/64/255/256 bytes, strings incl. non-ASCII, Data incl. all tag encodings, lists/pairs, wrong-typed and non-constant arguments) x 5 semantics variants, expected results from the Python oracle; BLS part: algebraic laws over a point x scalar alphabet; distinct_nontrivial = distinct (builtin, expected value) pairs that were confirmed");
    run.assume("the Python denotations in /verif/oracle (written from the builtin specification and CIP-121/122/123, self-tested against worked examples and hashlib) are the reference; where they return `undefined` the case is counted, not compared");
    run.assume("BLS12-381: correctness is only established up to algebraic laws and encodings (no independent implementation offline)");
    run.finish()
}

fn replay_case(path: &str) -> i32 {
    let doc: J = serde_json::from_str(&std::fs::read_to_string(path).expect("read")).expect("json");
    let case = &doc["case"];
    if case["engine"] == "c04-bls" {
        return crate::bls::replay(case);
    }
    let name = case["f"].as_str().unwrap();
    // recompute the expectation with the oracle: find the line in either vector file
    let key = format!("{{\"f\":\"{}\",\"args\":{}", name, case["args"]);
    for tier in [Tier::Quick, Tier::Thorough] {
        let Ok(p) = ensure_vectors(tier) else { continue };
        let text = std::fs::read_to_string(p).unwrap_or_default();
        if let Some(line) = text.lines().find(|l| l.starts_with(&key)) {
            let mut l = Local::default();
            check_line(line, &mut l);
            if l.violations.is_empty() {
                println!("no violation on replay");
                return 0;
            }
            for v in &l.violations {
                println!("VIOLATION property=C04 replay={path}\n  {}", v.what);
            }
            return 1;
        }
    }
    println!("case not found in the vector files");
    2
}
