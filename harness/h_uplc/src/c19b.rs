//! C19 (b) – hand-built Conway transactions with several redeemers.
//!
//! The recorded transactions all carry one redeemer, so the hand-over of the remaining
//! budget from one redeemer to the next is not exercised by them.  Here transactions are
//! built from CBOR written by the harness itself: up to three redeemers drawn from the
//! purposes {mint (several policies), withdraw, spend}, each backed by a Plutus V3 script of
//! a known behaviour - `ok(k)` (does k units of work, succeeds) or `fail` - in every order of
//! the witness scripts, as a redeemer list and as a redeemer map.  Every script first checks,
//! in the script context it is given, that the redeemer is the integer *it* expects and that
//! the script info has the constructor of *its* purpose; otherwise it fails.
//!
//! Oracles, all independent of the code under test:
//!   - the checks only use constant-cost builtins, so a script costs the same whatever the
//!     rest of the context: the ex-units of redeemer i must equal the cost of evaluating its
//!     script on the smallest context satisfying the checks (same language, same cost
//!     model) - computed by the harness;
//!   - with every purpose carrying another purpose's redeemer value the simulation fails;
//!   - spending outputs carry no datum, an inline datum or a datum hash (datum in the witness
//!     set): the spending script then also demands its own datum; a script supplied by a
//!     reference input gives the same answer; a script, redeemer or hashed datum left out makes
//!     the simulation fail (phase one is enabled, as in `aiken tx simulate`);
//!   - the simulation fails iff some script fails (known by construction);
//!   - with a budget B: success iff every prefix sum of those costs, in redeemer order,
//!     fits B (the remaining budget is threaded from redeemer to redeemer);
//!   - results do not depend on the order of witness scripts or resolved inputs.

use pallas_primitives::conway::{TransactionInput, TransactionOutput};
use pallas_primitives::Fragment;
use pallas_traverse::{Era, MultiEraTx};
use serde_json::json;
use std::collections::HashSet;
use std::rc::Rc;
use uplc::ast::{DeBruijn, NamedDeBruijn, Program};
use uplc::machine::cost_model::ExBudget;
use uplc::tx::{eval_phase_two, ResolvedInput, SlotConfig};
use vcore::blake2b::blake2b_224;
use vcore::evid::{guarded, Run, Tier, Violation};
use vcore::rterm::{RConst, RTerm};

// ---------------------------------------------------------------------------------------
// a minimal CBOR writer

fn head(major: u8, n: u64, out: &mut Vec<u8>) {
    let m = major << 5;
    if n < 24 {
        out.push(m | n as u8);
    } else if n < 256 {
        out.extend([m | 24, n as u8]);
    } else if n < 65536 {
        out.push(m | 25);
        out.extend((n as u16).to_be_bytes());
    } else if n < 1 << 32 {
        out.push(m | 26);
        out.extend((n as u32).to_be_bytes());
    } else {
        out.push(m | 27);
        out.extend(n.to_be_bytes());
    }
}
fn uint(n: u64) -> Vec<u8> {
    let mut o = vec![];
    head(0, n, &mut o);
    o
}
fn bytes(b: &[u8]) -> Vec<u8> {
    let mut o = vec![];
    head(2, b.len() as u64, &mut o);
    o.extend(b);
    o
}
fn array(items: &[Vec<u8>]) -> Vec<u8> {
    let mut o = vec![];
    head(4, items.len() as u64, &mut o);
    for i in items {
        o.extend(i);
    }
    o
}
fn map(entries: &[(Vec<u8>, Vec<u8>)]) -> Vec<u8> {
    let mut o = vec![];
    head(5, entries.len() as u64, &mut o);
    for (k, v) in entries {
        o.extend(k);
        o.extend(v);
    }
    o
}

// ---------------------------------------------------------------------------------------
// scripts

#[derive(Clone, Copy, Debug, PartialEq, Eq, Hash)]
pub enum Behaviour {
    Ok(usize),
    Fail,
}

/// closed body: k nested identity applications around unit, or error
fn body_term(b: Behaviour) -> RTerm {
    match b {
        Behaviour::Fail => RTerm::Error,
        Behaviour::Ok(k) => {
            let mut t = RTerm::Con(Rc::new(RConst::Unit));
            for _ in 0..k {
                t = RTerm::App(Rc::new(RTerm::Lam(Rc::new(RTerm::Var(1)))), Rc::new(t));
            }
            t
        }
    }
}

/// V3 `ScriptInfo` constructor index of a purpose
fn info_tag(kind: &str) -> i64 {
    match kind {
        "mint" => 0,
        "spend" => 1,
        "withdraw" => 2,
        _ => 3,
    }
}

/// `(lam ctx (force [[[(force ifThenElse) C1] (delay (force [[[(force ifThenElse) C2] (delay BODY)] (delay error)]))] (delay error)]))`
/// with C1 = the redeemer in the context is `I salt`, C2 = the script info has the
/// constructor of this script's purpose: the script only behaves as BODY when it is run for
/// the purpose, and with the redeemer, the transaction pairs it with.  Every builtin involved
/// has a constant cost, so the cost does not depend on the rest of the context.
fn script_term(b: Behaviour, salt: u8, kind: &str, datum: bool) -> RTerm {
    use uplc::builtins::DefaultFunction as F;
    let app = |f: RTerm, a: RTerm| RTerm::App(Rc::new(f), Rc::new(a));
    let force = |t: RTerm| RTerm::Force(Rc::new(t));
    let delay = |t: RTerm| RTerm::Delay(Rc::new(t));
    let bi = |f: F| RTerm::Builtin(f);
    let ctx = || RTerm::Var(1);
    let fields = || app(force(force(bi(F::SndPair))), app(bi(F::UnConstrData), ctx()));
    let tail = |t: RTerm| app(force(bi(F::TailList)), t);
    let head = |t: RTerm| app(force(bi(F::HeadList)), t);
    let redeemer = head(tail(fields()));
    let info = head(tail(tail(fields())));
    let c1 = app(app(bi(F::EqualsData), redeemer), RTerm::Con(Rc::new(RConst::Data(vcore::rterm::RData::I((salt as i64).into())))));
    let c2 = app(app(bi(F::EqualsInteger), app(force(force(bi(F::FstPair))), app(bi(F::UnConstrData), info))), RTerm::Con(Rc::new(RConst::int(info_tag(kind)))));
    let ite = |c: RTerm, t: RTerm| force(app(app(app(force(bi(F::IfThenElse)), c), delay(t)), delay(RTerm::Error)));
    let body = if datum {
        // C3: a spending script also demands its datum, `Some(I (salt + 100))`, second field of
        // `SpendingScript out_ref (Maybe Datum)`
        let info2 = head(tail(tail(fields())));
        let maybe_datum = head(tail(app(force(force(bi(F::SndPair))), app(bi(F::UnConstrData), info2))));
        let c3 = app(app(bi(F::EqualsData), maybe_datum), RTerm::Con(Rc::new(RConst::Data(expected_datum_option(salt)))));
        ite(c3, body_term(b))
    } else {
        body_term(b)
    };
    RTerm::Lam(Rc::new(ite(c1, ite(c2, body))))
}

/// The Plutus V2 shape of the same script: `(lam datum? (lam redeemer (lam ctx CHECKS)))` with the
/// redeemer and the datum as arguments and the purpose as second field of the context,
/// `Constr 0 [tx_info, purpose]` (Minting 0, Spending 1, Rewarding 2).
fn script_term_v2(b: Behaviour, salt: u8, kind: &str) -> RTerm {
    use uplc::builtins::DefaultFunction as F;
    let app = |f: RTerm, a: RTerm| RTerm::App(Rc::new(f), Rc::new(a));
    let force = |t: RTerm| RTerm::Force(Rc::new(t));
    let delay = |t: RTerm| RTerm::Delay(Rc::new(t));
    let bi = |f: F| RTerm::Builtin(f);
    // innermost binder: ctx = 1, redeemer = 2, datum = 3
    let fields = app(force(force(bi(F::SndPair))), app(bi(F::UnConstrData), RTerm::Var(1)));
    let purpose = app(force(bi(F::HeadList)), app(force(bi(F::TailList)), fields));
    let c1 = app(app(bi(F::EqualsData), RTerm::Var(2)), RTerm::Con(Rc::new(RConst::Data(vcore::rterm::RData::I((salt as i64).into())))));
    let c2 = app(app(bi(F::EqualsInteger), app(force(force(bi(F::FstPair))), app(bi(F::UnConstrData), purpose))), RTerm::Con(Rc::new(RConst::int(info_tag(kind)))));
    let ite = |c: RTerm, t: RTerm| force(app(app(app(force(bi(F::IfThenElse)), c), delay(t)), delay(RTerm::Error)));
    let body = if kind == "spend" {
        let c3 = app(app(bi(F::EqualsData), RTerm::Var(3)), RTerm::Con(Rc::new(RConst::Data(datum_of(salt)))));
        ite(c3, body_term(b))
    } else {
        body_term(b)
    };
    let inner = RTerm::Lam(Rc::new(RTerm::Lam(Rc::new(ite(c1, ite(c2, body))))));
    if kind == "spend" {
        RTerm::Lam(Rc::new(inner))
    } else {
        inner
    }
}

fn datum_of(salt: u8) -> vcore::rterm::RData {
    vcore::rterm::RData::I((salt as i64 + 100).into())
}

fn expected_datum_option(salt: u8) -> vcore::rterm::RData {
    vcore::rterm::RData::Constr(0, vec![datum_of(salt)])
}

/// the bytes stored in the witness set: CBOR byte string of the flat program (the salt makes
/// scripts of equal behaviour distinct)
fn script_bytes(b: Behaviour, salt: u8, kind: &str, datum: bool, lang: u8) -> Vec<u8> {
    if lang == 2 {
        vcore::flat_ref::cbor_bytes_wrap(&vcore::flat_ref::program_flat((1, 0, 0), &script_term_v2(b, salt, kind)))
    } else {
        vcore::flat_ref::cbor_bytes_wrap(&vcore::flat_ref::program_flat((1, 1, 0), &script_term(b, salt, kind, datum)))
    }
}

fn script_hash(witness_bytes: &[u8], lang: u8) -> [u8; 28] {
    let mut pre = vec![lang];
    pre.extend(witness_bytes);
    blake2b_224(&pre).try_into().unwrap()
}

/// independent cost of a script: evaluated on the smallest context that satisfies its two
/// checks, `Constr 0 [I 0, I salt, Constr tag []]`
fn standalone_cost(witness_bytes: &[u8], salt: u8, kind: &str, datum: bool, lang: u8) -> Result<Option<(u64, u64)>, String> {
    let w = witness_bytes.to_vec();
    let kind_owned = kind.to_string();
    let ctx = vcore::rterm::to_impl_data(&vcore::rterm::RData::Constr(0, vec![vcore::rterm::RData::I(0.into()), vcore::rterm::RData::I((salt as i64).into()), vcore::rterm::RData::Constr(info_tag(kind) as u64, if datum { vec![vcore::rterm::RData::I(0.into()), expected_datum_option(salt)] } else { vec![] })]));
    guarded(move || {
        let mut buf = vec![];
        let p = Program::<DeBruijn>::from_cbor(&w, &mut buf).expect("own script decodes");
        let p: Program<NamedDeBruijn> = p.into();
        let big = ExBudget { cpu: 1_000_000_000_000, mem: 1_000_000_000_000 };
        let r = if lang == 2 {
            // arguments: datum (spend only), redeemer, context `Constr 0 [I 0, Constr tag []]`
            let mut p = p;
            if kind_owned == "spend" {
                p = p.apply_data(vcore::rterm::to_impl_data(&datum_of(salt)));
            }
            let p = p.apply_data(vcore::rterm::to_impl_data(&vcore::rterm::RData::I((salt as i64).into())));
            let p = p.apply_data(vcore::rterm::to_impl_data(&vcore::rterm::RData::Constr(0, vec![vcore::rterm::RData::I(0.into()), vcore::rterm::RData::Constr(info_tag(&kind_owned) as u64, vec![])])));
            p.eval_version(big, &uplc::Language::PlutusV2)
        } else {
            p.apply_data(ctx).eval_version(big, &uplc::Language::PlutusV3)
        };
        let c = r.cost();
        r.result.ok().map(|_| (c.cpu as u64, c.mem as u64))
    })
}

// ---------------------------------------------------------------------------------------
// transactions

#[derive(Clone, Debug)]
pub struct Purpose {
    pub kind: &'static str, // mint | withdraw | spend
    pub behaviour: Behaviour,
    /// Plutus language of the script: 2 or 3
    pub lang: u8,
}

pub struct Built {
    pub tx: Vec<u8>,
    pub utxos: Vec<(Vec<u8>, Vec<u8>)>,
    /// behaviours and standalone costs in the order the redeemers are listed
    /// (label, behaviour, script bytes, salt, purpose kind)
    pub in_redeemer_order: Vec<(String, Behaviour, Vec<u8>, u8, &'static str, u8)>,
    pub with_datum: bool,
}

fn key_address() -> Vec<u8> {
    let mut a = vec![0x60];
    a.extend([0x11; 28]);
    a
}

pub fn build(purposes: &[Purpose], witness_order: &[usize], redeemer_order: &[usize], redeemers_as_map: bool) -> Built {
    build_with(purposes, witness_order, redeemer_order, redeemers_as_map, 0)
}

#[derive(Clone, Copy, Debug, PartialEq, Eq)]
pub enum DatumMode {
    /// spending scripts get no datum (allowed for Plutus V3) and do not look for one
    None,
    Inline,
    /// datum hash in the output, datum in the witness set
    Hashed,
    /// datum hash in the output, datum *not* supplied
    HashedMissing,
}

#[derive(Clone, Copy, Debug)]
pub struct Opts {
    /// purpose i carries the redeemer purpose (i + shift) mod n expects (0 = its own)
    pub shift: usize,
    /// this purpose's script is supplied by a reference input instead of the witness set
    pub reference_script: Option<usize>,
    pub datum: DatumMode,
    /// write the inputs, the mint map and the withdrawals map of the body in reverse
    /// (non-canonical) order; the ledger sorts on decode, redeemer indices refer to the sorted order
    pub reversed_body: bool,
}

impl Default for Opts {
    fn default() -> Self {
        Opts { shift: 0, reference_script: None, datum: DatumMode::None, reversed_body: false }
    }
}

fn tag24(inner: &[u8]) -> Vec<u8> {
    let mut o = vec![0xd8, 0x18];
    o.extend(bytes(inner));
    o
}

pub fn build_with(purposes: &[Purpose], witness_order: &[usize], redeemer_order: &[usize], redeemers_as_map: bool, shift: usize) -> Built {
    build_opts(purposes, witness_order, redeemer_order, redeemers_as_map, Opts { shift, ..Default::default() })
}

pub fn build_opts(purposes: &[Purpose], witness_order: &[usize], redeemer_order: &[usize], redeemers_as_map: bool, opts: Opts) -> Built {
    let shift = opts.shift;
    let with_datum = opts.datum != DatumMode::None;
    // one script per purpose, all distinct
    let scripts: Vec<Vec<u8>> = purposes.iter().enumerate().map(|(i, p)| script_bytes(p.behaviour, i as u8 + 1, p.kind, with_datum && p.kind == "spend", p.lang)).collect();
    let hashes: Vec<[u8; 28]> = scripts.iter().zip(purposes).map(|(s, p)| script_hash(s, p.lang)).collect();
    // inputs: one key input that pays, plus one script input per spend purpose
    let mut inputs: Vec<(Vec<u8>, Vec<u8>)> = vec![]; // (input cbor, output cbor)
    let mk_input = |n: u8| array(&[bytes(&[n; 32]), uint(0)]);
    inputs.push((mk_input(0xaa), map(&[(uint(0), bytes(&key_address())), (uint(1), uint(10_000_000))])));
    let mut spend_inputs: Vec<(Vec<u8>, usize)> = vec![];
    let mut witness_datums: Vec<Vec<u8>> = vec![];
    for (i, p) in purposes.iter().enumerate() {
        if p.kind == "spend" {
            let mut addr = vec![0x70];
            addr.extend(hashes[i]);
            let inp = mk_input(0x10 + i as u8);
            let datum_cbor = vcore::flat_ref::data_cbor(&datum_of(i as u8 + 1));
            let mut out = vec![(uint(0), bytes(&addr)), (uint(1), uint(2_000_000))];
            match opts.datum {
                DatumMode::None => {}
                DatumMode::Inline => out.push((uint(2), array(&[uint(1), tag24(&datum_cbor)]))),
                DatumMode::Hashed | DatumMode::HashedMissing => {
                    out.push((uint(2), array(&[uint(0), bytes(&vcore::blake2b::blake2b(&datum_cbor, 32))])));
                    if opts.datum == DatumMode::Hashed {
                        witness_datums.push(datum_cbor.clone());
                    }
                }
            }
            inputs.push((inp.clone(), map(&out)));
            spend_inputs.push((inp, i));
        }
    }
    // the ledger orders inputs, policies and reward accounts; indices follow that order
    let mut sorted_inputs: Vec<Vec<u8>> = inputs.iter().map(|x| x.0.clone()).collect();
    sorted_inputs.sort();
    let mut policies: Vec<([u8; 28], usize)> = purposes.iter().enumerate().filter(|(_, p)| p.kind == "mint").map(|(i, _)| (hashes[i], i)).collect();
    policies.sort();
    let mut rewards: Vec<(Vec<u8>, usize)> = purposes
        .iter()
        .enumerate()
        .filter(|(_, p)| p.kind == "withdraw")
        .map(|(i, _)| {
            let mut a = vec![0xf0];
            a.extend(hashes[i]);
            (a, i)
        })
        .collect();
    rewards.sort();
    let as_written = |mut v: Vec<Vec<u8>>| {
        if opts.reversed_body {
            v.reverse();
        }
        v
    };
    let as_written_kv = |mut v: Vec<(Vec<u8>, Vec<u8>)>| {
        if opts.reversed_body {
            v.reverse();
        }
        v
    };
    let mut body: Vec<(Vec<u8>, Vec<u8>)> = vec![
        (uint(0), array(&as_written(sorted_inputs.clone()))),
        (uint(1), array(&[map(&[(uint(0), bytes(&key_address())), (uint(1), uint(9_000_000))])])),
        (uint(2), uint(200_000)),
    ];
    if let Some(r) = opts.reference_script.filter(|r| *r < purposes.len()) {
        // a reference input whose output carries the script: #6.24(bytes .cbor [3, script])
        let ref_in = mk_input(0xee);
        let script_ref = tag24(&array(&[uint(purposes[r].lang as u64), bytes(&scripts[r])]));
        inputs.push((ref_in.clone(), map(&[(uint(0), bytes(&key_address())), (uint(1), uint(1_500_000)), (uint(3), script_ref)])));
        body.push((uint(18), array(&[ref_in])));
    }
    if !rewards.is_empty() {
        body.push((uint(5), map(&as_written_kv(rewards.iter().map(|(a, _)| (bytes(a), uint(0))).collect::<Vec<_>>()))));
    }
    if !policies.is_empty() {
        body.push((uint(9), map(&as_written_kv(policies.iter().map(|(h, _)| (bytes(h), map(&[(bytes(b"t"), uint(1))]))).collect::<Vec<_>>()))));
    }
    // redeemers: (tag, index, purpose index)
    let mut reds: Vec<(u64, u64, usize)> = vec![];
    for (pos, (_, i)) in policies.iter().enumerate() {
        reds.push((1, pos as u64, *i));
    }
    for (pos, (_, i)) in rewards.iter().enumerate() {
        reds.push((3, pos as u64, *i));
    }
    for (inp, i) in &spend_inputs {
        let pos = sorted_inputs.iter().position(|x| x == inp).unwrap();
        reds.push((0, pos as u64, *i));
    }
    let ordered: Vec<(u64, u64, usize)> = redeemer_order.iter().filter_map(|k| reds.get(*k).copied()).collect();
    // each purpose's redeemer is the integer its script expects (`I salt`, salt = index + 1)
    let red_data = |i: usize| uint(((i + shift) % purposes.len()) as u64 + 1);
    let red_cbor = if redeemers_as_map {
        map(&ordered.iter().map(|(t, ix, i)| (array(&[uint(*t), uint(*ix)]), array(&[red_data(*i), array(&[uint(0), uint(0)])]))).collect::<Vec<_>>())
    } else {
        array(&ordered.iter().map(|(t, ix, i)| array(&[uint(*t), uint(*ix), red_data(*i), array(&[uint(0), uint(0)])])).collect::<Vec<_>>())
    };
    let in_witness: Vec<usize> = witness_order.iter().copied().filter(|k| Some(*k) != opts.reference_script && *k < scripts.len()).collect();
    let witness_scripts: Vec<Vec<u8>> = in_witness.iter().filter(|k| purposes[**k].lang == 3).map(|k| bytes(&scripts[*k])).collect();
    let witness_scripts_v2: Vec<Vec<u8>> = in_witness.iter().filter(|k| purposes[**k].lang == 2).map(|k| bytes(&scripts[*k])).collect();
    let mut wit = vec![];
    if !witness_datums.is_empty() {
        wit.push((uint(4), array(&witness_datums)));
    }
    wit.push((uint(5), red_cbor));
    if !witness_scripts_v2.is_empty() {
        wit.push((uint(6), array(&witness_scripts_v2)));
    }
    if !witness_scripts.is_empty() {
        wit.push((uint(7), array(&witness_scripts)));
    }
    let witness = map(&wit);
    let tx = array(&[map(&body), witness, vec![0xf5], vec![0xf6]]);
    let names = ["spend", "mint", "cert", "withdraw"];
    Built {
        tx,
        utxos: inputs,
        with_datum,
        in_redeemer_order: ordered.iter().map(|(t, ix, i)| (format!("{}#{}", names[*t as usize], ix), purposes[*i].behaviour, scripts[*i].clone(), *i as u8 + 1, purposes[*i].kind, purposes[*i].lang)).collect(),
    }
}

fn perms(n: usize) -> Vec<Vec<usize>> {
    fn rec(cur: &mut Vec<usize>, n: usize, out: &mut Vec<Vec<usize>>) {
        if cur.len() == n {
            out.push(cur.clone());
            return;
        }
        for i in 0..n {
            if !cur.contains(&i) {
                cur.push(i);
                rec(cur, n, out);
                cur.pop();
            }
        }
    }
    let mut out = vec![];
    rec(&mut vec![], n, &mut out);
    out
}

type Units = Vec<(u64, u64)>;

fn simulate(b: &Built, utxo_order: &[usize], budget: Option<(u64, u64)>) -> Result<Result<Units, String>, String> {
    let tx_bytes = b.tx.clone();
    let utxos: Vec<(Vec<u8>, Vec<u8>)> = utxo_order.iter().map(|i| b.utxos[*i].clone()).collect();
    guarded(move || {
        let tx = match MultiEraTx::decode_for_era(Era::Conway, &tx_bytes) {
            Ok(MultiEraTx::Conway(tx)) => tx,
            other => return Err(format!("HARNESS: transaction does not decode: {:?}", other.err().map(|e| e.to_string()))),
        };
        let resolved: Vec<ResolvedInput> = utxos
            .iter()
            .map(|(i, o)| ResolvedInput { input: TransactionInput::decode_fragment(i).expect("input"), output: TransactionOutput::decode_fragment(o).expect("output") })
            .collect();
        let slot = SlotConfig { zero_time: 1660003200000, zero_slot: 0, slot_length: 1000 };
        let eb = budget.map(|(c, m)| ExBudget { cpu: c as i64, mem: m as i64 });
        let big = ExBudget { cpu: 1_000_000_000_000, mem: 1_000_000_000_000 };
        match eval_phase_two(&tx, &resolved, None, Some(eb.as_ref().unwrap_or(&big)), &slot, true, |_| ()) {
            Ok(rs) => Ok(rs.iter().map(|(r, _)| (r.ex_units.steps, r.ex_units.mem)).collect()),
            Err(e) => Err(format!("{e}").chars().take(100).collect()),
        }
    })
}

pub fn part(run: &mut Run, tier: Tier) -> (u64, u64) {
    let behaviours = [Behaviour::Ok(3), Behaviour::Ok(40), Behaviour::Fail];
    let kinds = ["mint", "mint", "withdraw", "spend"];
    // all multisets of 1..=3 purposes: choose kind slots then behaviours
    let mut configs: Vec<Vec<Purpose>> = vec![];
    let max = if tier == Tier::Quick { 2 } else { 3 };
    fn rec(start: usize, kinds: &[&'static str], behaviours: &[Behaviour], cur: &mut Vec<Purpose>, max: usize, out: &mut Vec<Vec<Purpose>>) {
        if !cur.is_empty() {
            out.push(cur.clone());
        }
        if cur.len() == max {
            return;
        }
        for k in start..kinds.len() {
            for b in behaviours {
                for lang in [3u8, 2] {
                    cur.push(Purpose { kind: kinds[k], behaviour: *b, lang });
                    rec(k + 1, kinds, behaviours, cur, max, out);
                    cur.pop();
                }
            }
        }
    }
    rec(0, &kinds, &behaviours, &mut vec![], max, &mut configs);
    let (mut sims, mut txs) = (0u64, 0u64);
    let mut outcomes: HashSet<String> = HashSet::new();
    let mut threaded = 0u64;
    let mut wrong_redeemer_runs = 0u64;
    let (mut reference_script_runs, mut missing_piece_runs) = (0u64, 0u64);
    for purposes in &configs {
        let n = purposes.len();
        let has_spend = purposes.iter().any(|p| p.kind == "spend");
        let v2_spend = purposes.iter().any(|p| p.kind == "spend" && p.lang == 2);
        let datum_modes: Vec<DatumMode> = if v2_spend { vec![DatumMode::Inline, DatumMode::Hashed] } else if has_spend { vec![DatumMode::None, DatumMode::Inline, DatumMode::Hashed] } else { vec![DatumMode::None] };
        for datum in datum_modes {
        for as_map in [false, true] {
            for red_order in perms(n) {
                // (a redeemer *map* is canonically ordered by the decoder or kept as given:
                //  either way the order the implementation iterates in is what it reports back)
                let opts = Opts { datum, ..Default::default() };
                let reference = build_opts(purposes, &(0..n).collect::<Vec<_>>(), &red_order, as_map, opts);
                txs += 1;
                let case = json!({"engine":"c19b","purposes":purposes.iter().map(|p| format!("{}:{:?}:v{}", p.kind, p.behaviour, p.lang)).collect::<Vec<_>>(),"redeemer_order":red_order,"redeemers_as_map":as_map,"datum":format!("{:?}", datum)});
                let all_utxos: Vec<usize> = (0..reference.utxos.len()).collect();
                sims += 1;
                let base = match simulate(&reference, &all_utxos, None) {
                    Err(p) => {
                        run.violation(Violation { signature: format!("panic|eval_phase_two|{}", vcore::evid::panic_site_file(&p)), what: format!("simulating a hand-built transaction panicked: {p}"), case });
                        continue;
                    }
                    Ok(r) => r,
                };
                if let Err(e) = &base {
                    if e.starts_with("HARNESS") {
                        run.machinery_error(format!("{e} ({:?})", case));
                        return (sims, txs);
                    }
                }
                let any_fail = purposes.iter().any(|p| p.behaviour == Behaviour::Fail);
                outcomes.insert(format!("{:?}", base));
                // expected per-redeemer costs, in the order the redeemers were listed
                let mut expected: Units = vec![];
                for (_, _, script, salt, kind, lang) in &reference.in_redeemer_order {
                    match standalone_cost(script, *salt, kind, reference.with_datum && *kind == "spend", *lang) {
                        Ok(Some(c)) => expected.push(c),
                        Ok(None) => expected.push((0, 0)),
                        Err(p) => run.machinery_error(format!("standalone evaluation panicked: {p}")),
                    }
                }
                match &base {
                    Ok(units) => {
                        if any_fail {
                            run.violation(Violation { signature: "succeeds-although-a-script-fails".into(), what: format!("a transaction with a failing script is reported as valid with ex-units {:?}", units), case: case.clone() });
                            continue;
                        }
                        // the implementation may iterate a redeemer map in its own (key) order:
                        // compare as multisets when given as a map, as sequences when a list
                        let mut got = units.clone();
                        let mut want = expected.clone();
                        if as_map {
                            got.sort();
                            want.sort();
                        }
                        if got != want {
                            run.violation(Violation {
                                signature: "ex-units-are-not-the-cost-of-the-script".into(),
                                what: format!("reported ex-units {:?} but the scripts, evaluated on their own under the same cost model, cost {:?} (redeemers {:?})", units, expected, reference.in_redeemer_order.iter().map(|x| x.0.clone()).collect::<Vec<_>>()),
                                case: case.clone(),
                            });
                            continue;
                        }
                        // budgets: prefix law over the order the implementation reported
                        let mut prefix = vec![];
                        let (mut c, mut m) = (0u64, 0u64);
                        for (dc, dm) in units {
                            c += dc;
                            m += dm;
                            prefix.push((c, m));
                        }
                        let total = *prefix.last().unwrap();
                        let mut budgets = vec![("exact", total), ("total-1-cpu", (total.0 - 1, total.1)), ("total-1-mem", (total.0, total.1 - 1)), ("total+1", (total.0 + 1, total.1 + 1))];
                        for p in prefix.iter().take(prefix.len() - 1) {
                            budgets.push(("cost-of-a-prefix", *p));
                            budgets.push(("cost-of-a-prefix+1", (p.0 + 1, p.1 + 1)));
                        }
                        if n >= 2 {
                            threaded += 1;
                        }
                        for (bname, b) in budgets {
                            let should = prefix.iter().all(|(pc, pm)| *pc <= b.0 && *pm <= b.1);
                            sims += 1;
                            match simulate(&reference, &all_utxos, Some(b)) {
                                Ok(Ok(u)) if should && u == *units => {}
                                Ok(Err(_)) if !should => {}
                                other => run.violation(Violation {
                                    signature: format!("budget-hand-over|{}", if should { "fails-within-budget" } else { "succeeds-over-budget" }),
                                    what: format!("{n} redeemers costing {:?} (cumulative {:?}) with the budget {bname} = {:?}: expected {}, got {:?}", units, prefix, b, if should { "success with the same ex-units" } else { "a budget failure" }, other),
                                    case: json!({"engine":"c19b","purposes":case["purposes"],"redeemer_order":case["redeemer_order"],"redeemers_as_map":as_map,"budget":bname}),
                                }),
                            }
                        }
                    }
                    Err(e) => {
                        if !any_fail {
                            run.violation(Violation { signature: "fails-although-every-script-succeeds".into(), what: format!("every script succeeds on its own but the simulation fails: {e}"), case: case.clone() });
                            continue;
                        }
                    }
                }
                // the scripts do look at what they are given: with the redeemers handed to the
                // wrong purposes no script can succeed, so the simulation must fail
                if n >= 2 && !any_fail {
                    let wrong = build_opts(purposes, &(0..n).collect::<Vec<_>>(), &red_order, as_map, Opts { shift: 1, ..opts });
                    sims += 1;
                    if let Ok(Ok(u)) = simulate(&wrong, &all_utxos, None) {
                        run.violation(Violation { signature: "script-run-with-another-purposes-redeemer-succeeds".into(), what: format!("every script demands its own redeemer value, the transaction gives each purpose another purpose's value, yet the simulation succeeds with {:?}", u), case: case.clone() });
                    }
                    wrong_redeemer_runs += 1;
                }
                // the body written in non-canonical order (inputs, mint map, withdrawals): same answer
                {
                    let b2 = build_opts(purposes, &(0..n).collect::<Vec<_>>(), &red_order, as_map, Opts { reversed_body: true, ..opts });
                    sims += 1;
                    let got = simulate(&b2, &all_utxos, None);
                    let same = match (&got, &base) {
                        (Ok(Ok(a)), Ok(b)) => a == b,
                        (Ok(Err(_)), Err(_)) => true,
                        _ => false,
                    };
                    if !same {
                        run.violation(Violation { signature: "result-depends-on-the-serialisation-order-of-the-body".into(), what: format!("with the inputs, the mint map and the withdrawals written in reverse order in the body: {:?} instead of {:?}", got, base), case: case.clone() });
                    }
                }
                // a script supplied by a reference input instead of the witness set: same answer
                for r in 0..n {
                    let b2 = build_opts(purposes, &(0..n).collect::<Vec<_>>(), &red_order, as_map, Opts { reference_script: Some(r), ..opts });
                    let all2: Vec<usize> = (0..b2.utxos.len()).collect();
                    sims += 1;
                    reference_script_runs += 1;
                    let got = simulate(&b2, &all2, None);
                    let same = match (&got, &base) {
                        (Ok(Ok(a)), Ok(b)) => a == b,
                        (Ok(Err(_)), Err(_)) => true,
                        _ => false,
                    };
                    if !same {
                        run.violation(Violation { signature: "result-depends-on-where-the-script-is-supplied".into(), what: format!("with the script of purpose {r} supplied by a reference input instead of the witness set: {:?} instead of {:?}", got, base), case: case.clone() });
                    }
                }
                // something the transaction needs is missing: a script, a redeemer, a datum
                if !any_fail {
                    for k in 0..n {
                        let fewer: Vec<usize> = (0..n).filter(|x| *x != k).collect();
                        let no_script = build_opts(purposes, &fewer, &red_order, as_map, opts);
                        let no_redeemer = build_opts(purposes, &(0..n).collect::<Vec<_>>(), &red_order.iter().copied().filter(|x| *x != k).collect::<Vec<_>>(), as_map, opts);
                        for (what, b) in [("script", no_script), ("redeemer", no_redeemer)] {
                            sims += 1;
                            missing_piece_runs += 1;
                            if let Ok(Ok(u)) = simulate(&b, &all_utxos, None) {
                                run.violation(Violation { signature: format!("succeeds-although-a-{what}-is-missing"), what: format!("the {what} of purpose/redeemer {k} is left out of the transaction, yet the simulation succeeds with {:?}", u), case: case.clone() });
                            }
                        }
                    }
                    if datum == DatumMode::Hashed {
                        let b = build_opts(purposes, &(0..n).collect::<Vec<_>>(), &red_order, as_map, Opts { datum: DatumMode::HashedMissing, ..opts });
                        sims += 1;
                        missing_piece_runs += 1;
                        if let Ok(Ok(u)) = simulate(&b, &all_utxos, None) {
                            run.violation(Violation { signature: "succeeds-although-a-datum-is-missing".into(), what: format!("the output carries a datum hash and the witness set does not carry the datum, yet the simulation succeeds with {:?}", u), case: case.clone() });
                        }
                    }
                }
                // invariance under the order of witness scripts and of resolved inputs
                for wo in perms(n) {
                    let b2 = build_opts(purposes, &wo, &red_order, as_map, opts);
                    for uo in perms(b2.utxos.len().min(3)).into_iter().map(|mut p| {
                        p.extend(3..b2.utxos.len());
                        p
                    }) {
                        sims += 1;
                        let r = simulate(&b2, &uo, None);
                        let same = match (&r, &base) {
                            (Ok(Ok(a)), Ok(b)) => a == b,
                            (Ok(Err(_)), Err(_)) => true,
                            _ => false,
                        };
                        if !same {
                            run.violation(Violation {
                                signature: "result-depends-on-witness-or-input-order".into(),
                                what: format!("witness scripts in order {:?}, resolved inputs in order {:?}: {:?} instead of {:?}", wo, uo, r, base),
                                case: case.clone(),
                            });
                        }
                    }
                }
            }
        }
        }
    }
    run.set("hand_built_reference_script_runs", reference_script_runs);
    run.set("hand_built_missing_piece_runs", missing_piece_runs);
    run.set("hand_built_transactions", txs);
    run.set("hand_built_simulations", sims);
    run.set("hand_built_multi_redeemer_budget_configurations", threaded);
    run.set("hand_built_wrong_redeemer_controls", wrong_redeemer_runs);
    run.set("hand_built_distinct_outcomes", outcomes.len() as u64);
    if threaded == 0 {
        run.machinery_error("vacuous: no multi-redeemer transaction evaluated successfully");
    }
    (sims, txs)
}
