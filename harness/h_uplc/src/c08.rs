//! C08 (uplc half) – script bytes, hashes and addresses survive every round trip.

use crate::common::*;
use num_bigint::BigInt;
use serde_json::json;
use std::rc::Rc;
use std::time::Duration;
use strum::IntoEnumIterator;
use uplc::ast::{DeBruijn, FakeNamedDeBruijn, Name, NamedDeBruijn, Program, SerializableProgram, Term, Unique};
use uplc::builtins::DefaultFunction;
use uplc::Language;
use vcore::blake2b::blake2b_224;
use vcore::evid::{guarded, Run, Tier, Violation};
use vcore::flat_ref;
use vcore::par::par_indices;
use vcore::rterm::{self, Alphabet, Enumerator, RConst, RData, RTerm, RType};

fn two(n: u32) -> BigInt {
    BigInt::from(1) << n
}

pub fn boundary_consts() -> Vec<RConst> {
    let bs = |n: usize| RConst::ByteString((0..n).map(|i| (i % 251) as u8).collect());
    let mut v = vec![
        RConst::int(0),
        RConst::int(1),
        RConst::int(-1),
        RConst::int(63),
        RConst::int(64),
        RConst::int(-64),
        RConst::int(-65),
        RConst::Integer(two(63)),
        RConst::Integer(two(64)),
        RConst::Integer(two(127)),
        RConst::Integer(-two(128)),
        bs(0),
        bs(1),
        bs(254),
        bs(255),
        bs(256),
        bs(510),
        bs(511),
        RConst::String("".into()),
        RConst::String("aé𝄞\u{0}".into()),
        RConst::String("x".repeat(300)),
        RConst::Unit,
        RConst::Bool(true),
        RConst::Bool(false),
        RConst::List(RType::Integer, vec![]),
        RConst::List(
            RType::Pair(Box::new(RType::Integer), Box::new(RType::List(Box::new(RType::Bool)))),
            vec![RConst::Pair(Box::new(RConst::int(-3)), Box::new(RConst::List(RType::Bool, vec![RConst::Bool(true), RConst::Bool(false)])))],
        ),
        RConst::Pair(Box::new(RConst::ByteString(vec![1, 2])), Box::new(RConst::Unit)),
        RConst::List(RType::Data, vec![RConst::Data(RData::I(1.into())), RConst::Data(RData::List(vec![]))]),
    ];
    for d in [
        RData::I(0.into()),
        RData::I(-two(64) - 1),
        RData::I(two(64)),
        RData::B((0..64).collect()),
        RData::B((0..65).collect()),
        RData::B((0..130).collect()),
        RData::Constr(0, vec![]),
        RData::Constr(6, vec![RData::I(1.into())]),
        RData::Constr(7, vec![]),
        RData::Constr(127, vec![]),
        RData::Constr(128, vec![RData::B(vec![])]),
        RData::Constr(u64::MAX, vec![]),
        RData::List(vec![RData::Map(vec![(RData::I(1.into()), RData::B(vec![9]))])]),
        RData::Map(vec![]),
    ] {
        v.push(RConst::Data(d));
    }
    v
}

fn wide_alphabet() -> Alphabet {
    Alphabet {
        consts: boundary_consts().into_iter().map(Rc::new).collect(),
        builtins: DefaultFunction::iter().collect(),
        constr_tags: vec![0, 1, 127, 128, usize::MAX >> 1],
        max_fields: 2,
        max_branches: 2,
        free_extra: 0,
        index0: false,
    }
}

fn structural_alphabet() -> Alphabet {
    Alphabet {
        consts: vec![Rc::new(RConst::int(-65)), Rc::new(RConst::ByteString(vec![7; 3])), Rc::new(RConst::Data(RData::Constr(1, vec![RData::I(2.into())])))],
        builtins: vec![DefaultFunction::AddInteger, DefaultFunction::Bls12_381_G2_MultiScalarMul],
        constr_tags: vec![0, 300],
        max_fields: 2,
        max_branches: 2,
        free_extra: 0,
        index0: false,
    }
}

fn name_at(level: usize) -> Rc<Name> {
    Rc::new(Name { text: format!("n{level}é"), unique: Unique::new(level as isize * 7 - 3) })
}

fn to_named(t: &RTerm, depth: usize) -> Term<Name> {
    match t {
        RTerm::Var(i) => Term::Var(name_at(depth - *i)),
        RTerm::Lam(b) => Term::Lambda { parameter_name: name_at(depth), body: Rc::new(to_named(b, depth + 1)) },
        RTerm::App(f, a) => Term::Apply { function: Rc::new(to_named(f, depth)), argument: Rc::new(to_named(a, depth)) },
        RTerm::Delay(b) => Term::Delay(Rc::new(to_named(b, depth))),
        RTerm::Force(b) => Term::Force(Rc::new(to_named(b, depth))),
        RTerm::Error => Term::Error,
        RTerm::Con(c) => Term::Constant(Rc::new(rterm::to_impl_const(c))),
        RTerm::Builtin(b) => Term::Builtin(*b),
        RTerm::Constr(tag, fs) => Term::Constr { tag: *tag, fields: fs.iter().map(|f| to_named(f, depth)).collect() },
        RTerm::Case(s, bs) => Term::Case { constr: Rc::new(to_named(s, depth)), branches: bs.iter().map(|f| to_named(f, depth)).collect() },
    }
}

#[derive(Default)]
pub struct Local {
    cases: u64,
    checks: u64,
    violations: Vec<Violation>,
    samples: Vec<String>,
    distinct: std::collections::HashSet<u64>,
    text_form_not_parsed: u64,
}

fn v(l: &mut Local, sig: &str, what: String, case: &serde_json::Value) {
    l.violations.push(Violation { signature: sig.to_string(), what, case: case.clone() });
}

const VERSIONS: [(usize, usize, usize); 4] = [(1, 1, 0), (1, 0, 0), (0, 0, 0), (4294967296, 0, 1)];

pub fn check_one(t: &RTerm, version: (usize, usize, usize), case: serde_json::Value, l: &mut Local) {
    l.cases += 1;
    let shown = rterm::show(t);
    let shown = if shown.len() > 200 { format!("{}…", shown.chars().take(200).collect::<String>()) } else { shown };

    // --- de Bruijn form: encoder vs the independent flat encoder, decode(encode) = id
    let pd: Program<DeBruijn> = Program { version, term: rterm::to_debruijn(t) };
    let pdc = pd.clone();
    l.checks += 1;
    let bytes = match guarded(move || pdc.to_flat()) {
        Ok(Ok(b)) => b,
        Ok(Err(e)) => return v(l, "encode-fails|debruijn", format!("to_flat of {shown} failed: {e}"), &case),
        Err(p) => return v(l, "encode-panics|debruijn", format!("to_flat of {shown} panicked: {p}"), &case),
    };
    l.distinct.insert(vcore::evid::fnv(&hex::encode(&bytes)));
    let want = flat_ref::program_flat(version, t);
    if want != bytes {
        v(l, "flat-bytes-differ-from-specification", format!("to_flat of {shown} = {} but the specification's encoding is {}", short_hex(&bytes), short_hex(&want)), &case);
    }
    l.checks += 1;
    let b2 = bytes.clone();
    match guarded(move || Program::<DeBruijn>::from_flat(&b2)) {
        Ok(Ok(q)) => {
            if q != pd {
                v(l, "decode-differs|debruijn", format!("from_flat(to_flat(p)) != p for {shown}: got {}", rterm::show(&rterm::from_impl(&q.term))), &case);
            } else {
                let again = q.to_flat().unwrap_or_default();
                if again != bytes {
                    v(l, "re-encode-differs|debruijn", format!("to_flat(from_flat(b)) != b for {shown}"), &case);
                }
            }
        }
        Ok(Err(e)) => v(l, "decode-rejects|debruijn", format!("from_flat rejects the bytes of {shown}: {e}"), &case),
        Err(p) => v(l, "decode-panics|debruijn", format!("from_flat panicked on the bytes of {shown}: {p}"), &case),
    }
    // the text path (`aiken uplc encode`): print, parse, convert, encode - same bytes.  The
    // textual parser builds constants through its own constructors (Data::constr, ...), which
    // may choose another representation of the same value.
    // (programs over the constant-rich alphabet; the structural alphabet has four constants)
    let text_path = case["alphabet"] != "structural";
    if text_path {
        l.checks += 1;
    }
    let pdc = pd.clone();
    match guarded(move || {
        if !text_path {
            return Ok(vec![]);
        }
        let text = pdc.to_pretty();
        let named = uplc::parser::program(&text).map_err(|e| format!("does not parse: {e}"))?;
        let d: Program<DeBruijn> = named.try_into().map_err(|e| format!("does not convert: {e}"))?;
        d.to_flat().map_err(|e| e.to_string())
    }) {
        Ok(Ok(b)) if b == bytes || !text_path => {}
        Ok(Ok(b)) => v(l, "bytes-differ-through-the-text-form", format!("printing and parsing {shown} and encoding the result gives {} instead of {}", short_hex(&b), short_hex(&bytes)), &case),
        // whether every program prints parsably is C15's matter
        Ok(Err(_)) => l.text_form_not_parsed += 1,
        Err(p) => v(l, "text-path-panics", format!("{shown}: {p}"), &case),
    }
    // FakeNamedDeBruijn decode of the same bytes
    l.checks += 1;
    let b2 = bytes.clone();
    match guarded(move || Program::<FakeNamedDeBruijn>::from_flat(&b2)) {
        Ok(Ok(q)) => {
            let nd: Program<NamedDeBruijn> = q.into();
            let d: Program<DeBruijn> = nd.into();
            if d != pd {
                v(l, "decode-differs|fake-named-debruijn", format!("decoding {shown} as FakeNamedDeBruijn gives a different program"), &case);
            }
        }
        Ok(Err(e)) => v(l, "decode-rejects|fake-named-debruijn", format!("{shown}: {e}"), &case),
        Err(p) => v(l, "decode-panics|fake-named-debruijn", format!("{shown}: {p}"), &case),
    }
    // cbor + hex
    l.checks += 1;
    let pdc = pd.clone();
    match guarded(move || {
        let cbor = pdc.to_cbor().map_err(|e| e.to_string())?;
        let hexs = pdc.to_hex().map_err(|e| e.to_string())?;
        let mut buf = vec![];
        let q = Program::<DeBruijn>::from_cbor(&cbor, &mut buf).map_err(|e| e.to_string())?;
        let (mut b1, mut b2) = (vec![], vec![]);
        let r = Program::<DeBruijn>::from_hex(&hexs, &mut b1, &mut b2).map_err(|e| e.to_string())?;
        Ok::<_, String>((cbor, hexs, q, r))
    }) {
        Ok(Ok((cbor, hexs, q, r))) => {
            if cbor != flat_ref::cbor_bytes_wrap(&bytes) {
                v(l, "cbor-wrapping-differs", format!("to_cbor of {shown} is not the CBOR byte string of its flat bytes"), &case);
            }
            if hexs != hex::encode(&cbor) {
                v(l, "hex-differs", format!("to_hex of {shown} is not the hex of to_cbor"), &case);
            }
            if q != pd || r != pd {
                v(l, "decode-differs|cbor-hex", format!("from_cbor/from_hex of {shown} gives a different program"), &case);
            }
            // hashes, serde, address for the three Plutus versions
            for (n, lang) in [(1u8, Language::PlutusV1), (2, Language::PlutusV2), (3, Language::PlutusV3)] {
                l.checks += 1;
                let sp = match n {
                    1 => SerializableProgram::PlutusV1Program(pd.clone()),
                    2 => SerializableProgram::PlutusV2Program(pd.clone()),
                    _ => SerializableProgram::PlutusV3Program(pd.clone()),
                };
                let mut pre = vec![n];
                pre.extend_from_slice(&cbor);
                let want_hash = blake2b_224(&pre);
                let (hash, script) = sp.compiled_code_and_hash();
                let script_bytes: &[u8] = script.as_ref();
                if hash.as_ref() != want_hash.as_slice() {
                    v(l, &format!("published-hash-wrong|v{n}"), format!("{shown}: hash {} but blake2b-224(0x0{n} ‖ cbor) = {}", hex::encode(hash.as_ref()), hex::encode(&want_hash)), &case);
                }
                if script_bytes != cbor.as_slice() {
                    v(l, &format!("compiled-code-differs|v{n}"), format!("{shown}: compiledCode is not the program's cbor"), &case);
                }
                // serde round trip
                let sp2 = sp.clone();
                match guarded(move || {
                    let j = serde_json::to_string(&sp2).map_err(|e| e.to_string())?;
                    let back: SerializableProgram = serde_json::from_str(&j).map_err(|e| e.to_string())?;
                    let j2 = serde_json::to_string(&back).map_err(|e| e.to_string())?;
                    Ok::<_, String>((j, back, j2))
                }) {
                    Ok(Ok((j, back, j2))) => {
                        if back != sp {
                            v(l, &format!("json-round-trip-differs|v{n}"), format!("{shown}: JSON {j} reads back as a different program / Plutus version"), &case);
                        }
                        if j != j2 {
                            v(l, &format!("json-not-stable|v{n}"), format!("{shown}: {j} re-serialises as {j2}"), &case);
                        }
                        let want_json = format!("{{\"compiledCode\":\"{}\",\"hash\":\"{}\"}}", hex::encode(&cbor), hex::encode(&want_hash));
                        if j != want_json {
                            v(l, &format!("json-content|v{n}"), format!("{shown}: serialised as {j}, expected {want_json}"), &case);
                        }
                    }
                    Ok(Err(e)) => v(l, &format!("json-round-trip-fails|v{n}"), format!("{shown}: {e}"), &case),
                    Err(p) => v(l, &format!("json-panics|v{n}"), format!("{shown}: {p}"), &case),
                }
                // address carries the hash
                let addr = pd.address(pallas_addresses::Network::Testnet, pallas_addresses::ShelleyDelegationPart::Null, &lang);
                match addr.payment() {
                    pallas_addresses::ShelleyPaymentPart::Script(h) if h.as_ref() == want_hash.as_slice() => {}
                    other => v(l, &format!("address-hash-wrong|v{n}"), format!("{shown}: address payment part {:?}", other), &case),
                }
            }
        }
        Ok(Err(e)) => v(l, "cbor-round-trip-fails", format!("{shown}: {e}"), &case),
        Err(p) => v(l, "cbor-panics", format!("{shown}: {p}"), &case),
    }

    // --- NamedDeBruijn and Name forms: decode(encode) = id, re-encode stable
    l.checks += 1;
    let pn: Program<NamedDeBruijn> = Program { version, term: rterm::to_named_debruijn(t) };
    let pnc = pn.clone();
    match guarded(move || {
        let b = pnc.to_flat().map_err(|e| e.to_string())?;
        let q = Program::<NamedDeBruijn>::from_flat(&b).map_err(|e| e.to_string())?;
        let b2 = q.to_flat().map_err(|e| e.to_string())?;
        Ok::<_, String>((b, q, b2))
    }) {
        Ok(Ok((b, q, b2))) => {
            if rterm::from_impl(&q.term) != *t || q.version != version {
                v(l, "decode-differs|named-debruijn", format!("NamedDeBruijn round trip of {shown} differs"), &case);
            }
            if b != b2 {
                v(l, "re-encode-differs|named-debruijn", format!("{shown}"), &case);
            }
        }
        Ok(Err(e)) => v(l, "round-trip-fails|named-debruijn", format!("{shown}: {e}"), &case),
        Err(p) => v(l, "panics|named-debruijn", format!("{shown}: {p}"), &case),
    }
    l.checks += 1;
    let pm: Program<Name> = Program { version, term: to_named(t, 0) };
    let pmc = pm.clone();
    match guarded(move || {
        let b = pmc.to_flat().map_err(|e| e.to_string())?;
        let q = Program::<Name>::from_flat(&b).map_err(|e| e.to_string())?;
        let b2 = q.to_flat().map_err(|e| e.to_string())?;
        Ok::<_, String>((b, q, b2))
    }) {
        Ok(Ok((b, q, b2))) => {
            if q != pm {
                v(l, "decode-differs|name", format!("Name round trip of {shown} differs"), &case);
            }
            if b != b2 {
                v(l, "re-encode-differs|name", format!("{shown}"), &case);
            }
        }
        Ok(Err(e)) => v(l, "round-trip-fails|name", format!("{shown}: {e}"), &case),
        Err(p) => v(l, "panics|name", format!("{shown}: {p}"), &case),
    }
}

fn short_hex(b: &[u8]) -> String {
    let h = hex::encode(b);
    if h.len() > 120 { format!("{}…({} bytes)", &h[..120], b.len()) } else { h }
}

/// Alternative (non-canonical but valid) CBOR encodings of Data, as another tool may have
/// put them into a script that is later read from a blueprint.
pub fn data_cbor_variants() -> Vec<(&'static str, String)> {
    let long: String = (0..65u8).map(|i| format!("{:02x}", i)).collect();
    vec![
        ("definite non-empty list", "8101".into()),
        ("indefinite empty list", "9fff".into()),
        ("constr with definite fields", "d8798101".into()),
        ("constr with indefinite empty fields", "d8799fff".into()),
        ("indefinite map", "bf0102ff".into()),
        ("definite map", "a10102".into()),
        ("bignum holding a small value", "c24101".into()),
        ("bignum with a leading zero byte", "c2420001".into()),
        ("negative bignum holding a small value", "c34100".into()),
        ("indefinite byte string in 1-byte chunks", "5f41014102ff".into()),
        // (a definite byte string longer than 64 bytes is not valid on-chain Data - the
        //  ledger's decoder bounds chunks at 64 bytes - so it carries no preservation
        //  obligation and is not listed)
        ("indefinite byte string in 64+1 byte chunks", format!("5f5840{}4140ff", &long[..128])),
        ("integer with a 1-byte argument", "1801".into()),
        ("integer with a 2-byte argument", "190001".into()),
        ("tag 102 with a small constructor index", "d866820180".into()),
        ("tag 1280", "d9050080".into()),
        ("nested: constr 0 [definite list, indefinite map]", "d8799f8101bf0102ffff".into()),
    ]
}

fn check_data_variants(run: &mut Run) {
    use uplc::ast::Constant;
    use uplc::{Fragment, PlutusData};
    let mut n = 0u64;
    let mut representable = 0u64;
    for (name, hexs) in data_cbor_variants() {
        n += 1;
        let bytes = hex::decode(&hexs).unwrap();
        let case = json!({"engine":"c08-data-cbor","name":name,"cbor":hexs});
        let b = bytes.clone();
        let d = match guarded(move || PlutusData::decode_fragment(&b)) {
            Ok(Ok(d)) => d,
            Ok(Err(_)) => continue, // not accepted at all: nothing to preserve
            Err(p) => {
                run.violation(Violation { signature: "data-decode-panics".into(), what: format!("decoding Data CBOR {hexs} ({name}) panicked: {p}"), case });
                continue;
            }
        };
        representable += 1;
        let prog: Program<DeBruijn> = Program { version: (1, 1, 0), term: Term::Constant(Rc::new(Constant::Data(d.clone()))) };
        let pc = prog.clone();
        match guarded(move || {
            let inner = d.encode_fragment().map_err(|e| e.to_string())?;
            let flat = pc.to_flat().map_err(|e| e.to_string())?;
            let back = Program::<DeBruijn>::from_flat(&flat).map_err(|e| e.to_string())?;
            let flat2 = back.to_flat().map_err(|e| e.to_string())?;
            Ok::<_, String>((inner, flat, back, flat2))
        }) {
            Ok(Ok((inner, flat, back, flat2))) => {
                if inner != bytes {
                    run.violation(Violation { signature: format!("data-cbor-not-preserved|{name}"), what: format!("a Data constant whose CBOR is {hexs} ({name}) is re-encoded as {}: a script containing it changes bytes and hash when read and written back", hex::encode(&inner)), case: case.clone() });
                }
                if back != prog || flat != flat2 {
                    run.violation(Violation { signature: format!("data-constant-round-trip|{name}"), what: format!("program with Data constant {hexs} ({name}) does not survive from_flat(to_flat())"), case: case.clone() });
                }
            }
            Ok(Err(e)) => run.violation(Violation { signature: format!("data-constant-encode-fails|{name}"), what: format!("{hexs}: {e}"), case }),
            Err(p) => run.violation(Violation { signature: format!("data-constant-panics|{name}"), what: format!("{hexs}: {p}"), case }),
        }
    }
    // The same variants, fed in as *script bytes* (flat built by the independent encoder with
    // the raw CBOR embedded), at top level and nested inside list / pair constants: decoding
    // and re-encoding must give the bytes back wherever the Data constant sits.
    use vcore::flat_ref::{program_flat_raw_data, RawShape};
    let mut nested = 0u64;
    for (name, hexs) in data_cbor_variants() {
        let cbor = hex::decode(&hexs).unwrap();
        let mut top_preserved = false;
        for shape in [RawShape::Top, RawShape::InList, RawShape::InPair, RawShape::InListOfPairs] {
            let bytes = program_flat_raw_data((1, 1, 0), shape, &cbor);
            let b = bytes.clone();
            let r = guarded(move || Program::<DeBruijn>::from_flat(&b).map_err(|e| e.to_string()).and_then(|p| p.to_flat().map_err(|e| e.to_string())));
            nested += 1;
            let case = json!({"engine":"c08-data-cbor-script","name":name,"cbor":hexs,"shape":format!("{:?}", shape)});
            match r {
                Err(p) => run.violation(Violation { signature: format!("data-constant-panics|{name}"), what: format!("decoding a script with Data CBOR {hexs} ({name}, {:?}) panicked: {p}", shape), case }),
                Ok(Err(_)) => {} // rejected: nothing to preserve
                Ok(Ok(again)) => {
                    if shape == RawShape::Top {
                        top_preserved = again == bytes;
                        // (a top-level difference is already reported above under data-cbor-not-preserved)
                    } else if again != bytes && top_preserved {
                        run.violation(Violation {
                            signature: format!("data-cbor-not-preserved-when-nested|{:?}", shape),
                            what: format!("a script whose {:?} constant holds Data encoded as {hexs} ({name}) is re-serialised as different bytes ({} -> {}) although the same Data at top level is preserved: bytes, hash and address of a third-party script change on a decode/encode round trip", shape, hex::encode(&bytes), hex::encode(&again)),
                            case,
                        });
                    }
                }
            }
        }
    }
    run.set("data_cbor_variants", n);
    run.set("data_cbor_variants_accepted_by_decoder", representable);
    run.set("data_cbor_variant_scripts_round_tripped", nested);
}

pub fn part(run: &mut Run, tier: Tier) {
    if let Err(e) = flat_ref::self_test().and(vcore::blake2b::self_test()) {
        run.machinery_error(format!("oracle self test failed: {e}"));
        return;
    }
    check_data_variants(run);
    let (wide_max, struct_max) = match tier {
        Tier::Quick => (3, 6),
        Tier::Thorough => (4, 7),
    };
    let t1 = Enumerator::new(wide_alphabet()).total(wide_max);
    let t2 = Enumerator::new(structural_alphabet()).total(struct_max);
    let total = t1 + t2;
    let cap = Some(match tier {
        Tier::Quick => Duration::from_secs(45),
        Tier::Thorough => Duration::from_secs(1500),
    });
    let out = par_indices(
        total,
        256,
        cap,
        |_| (Enumerator::new(wide_alphabet()), Enumerator::new(structural_alphabet()), Local::default()),
        |(e1, e2, l), idx| {
            let version = VERSIONS[(idx % 4) as usize];
            let (t, case) = if idx < t1 {
                let t = e1.unrank_global(wide_max, idx);
                (t, json!({"engine":"c08","alphabet":"wide","max_size":wide_max,"index":idx}))
            } else {
                let t = e2.unrank_global(struct_max, idx - t1);
                (t, json!({"engine":"c08","alphabet":"structural","max_size":struct_max,"index":idx - t1}))
            };
            check_one(&t, version, case, l);
            if l.samples.len() < 2 && idx % 30011 == 9 {
                l.samples.push(format!("{} -> {}", rterm::show(&t).chars().take(150).collect::<String>(), short_hex(&flat_ref::program_flat(version, &t))));
            }
        },
        |(_, _, l)| l,
    );
    let mut cases = 0;
    let mut checks = 0;
    let mut distinct = std::collections::HashSet::new();
    let mut not_parsed = 0u64;
    for l in out.results {
        cases += l.cases;
        checks += l.checks;
        not_parsed += l.text_form_not_parsed;
        distinct.extend(l.distinct);
        run.violations_extend(l.violations);
        for s in l.samples {
            run.sample(s);
        }
    }
    if out.capped {
        run.cap_hit(&format!("C08 programs: wall cap, {} of {}", out.done, total));
    }
    run.set("programs_wide_alphabet", t1);
    run.set("programs_wide_max_size", wide_max as u64);
    run.set("programs_structural_alphabet", t2);
    run.set("programs_structural_max_size", struct_max as u64);
    run.set("boundary_constants", boundary_consts().len() as u64);
    run.set("programs_whose_text_form_did_not_parse_back", not_parsed);
    if not_parsed * 2 > t1 {
        run.machinery_error("the text path is vacuous: most programs do not parse back");
    }
    run.add("states", cases);
    run.add("transitions", checks);
    run.add("traces_validated_against_impl", cases);
    run.add("evaluations", cases);
    run.add("distinct_nontrivial", distinct.len() as u64);
    run.assume("the independent flat encoder (vcore::flat_ref) and blake2b (vcore::blake2b, RFC 7693) are faithful to their specifications (both self-tested against published vectors)");
    run.assume("BLS constants have no flat encoding by specification and are excluded");
}

pub fn run(tier: Tier, replay: Option<String>) -> i32 {
    if let Some(path) = replay {
        return replay_case(&path);
    }
    let mut run = Run::new("C08", tier);
    part(&mut run, tier);
    run.set("rule", "every closed program up to the size bound over (a) all builtins + serialisation-boundary constants and (b) a small structural alphabet, in de Bruijn / named de Bruijn / named form and four version triples; the text path (print, parse, convert, encode) must give the same bytes; distinct_nontrivial = distinct flat encodings");
    run.finish()
}

fn replay_case(path: &str) -> i32 {
    let doc: serde_json::Value = serde_json::from_str(&std::fs::read_to_string(path).expect("read")).expect("json");
    let case = &doc["case"];
    let max = case["max_size"].as_u64().unwrap() as usize;
    let idx = case["index"].as_u64().unwrap();
    let (t, gidx) = if case["alphabet"].as_str() == Some("structural") {
        let t1 = Enumerator::new(wide_alphabet()).total(if max >= 7 { 4 } else { 3 });
        (Enumerator::new(structural_alphabet()).unrank_global(max, idx), idx + t1)
    } else {
        (Enumerator::new(wide_alphabet()).unrank_global(max, idx), idx)
    };
    let mut l = Local::default();
    check_one(&t, VERSIONS[(gidx % 4) as usize], case.clone(), &mut l);
    if l.violations.is_empty() {
        println!("no violation on replay");
        0
    } else {
        for v in &l.violations {
            println!("VIOLATION property=C08 replay={path}\n  {}", v.what);
        }
        1
    }
}
