//! C19 – transaction simulation reports what scripts cost and decide.
//!
//! The transactions are the recorded (mainnet / testnet) transactions that the repository
//! itself carries in crates/uplc/src/tx/tests.rs (Plutus V1, V2 and V3 scripts; spend, mint,
//! withdraw ... redeemers), read from that source file.  For every transaction the
//! configuration space  {cost models: none | the recorded vector} x {protocol: unspecified,
//! 9, 10, 11} x {every permutation of the resolved inputs} x {budgets around the exact
//! cumulative costs} x {every single removal of a resolved input}  is enumerated through the
//! real `eval_phase_two*`.  Oracles: the budget-threading law computed by the harness from the
//! unlimited-budget ex-units (success iff every prefix sum fits; reported ex-units unchanged),
//! permutation invariance, determinism, and "a removed input is an error, never a panic".

use pallas_primitives::conway::{CostModels, MintedTx, TransactionInput, TransactionOutput};
use pallas_primitives::Fragment;
use pallas_traverse::{Era, MultiEraTx};
use serde_json::json;
use std::collections::HashSet;
use uplc::machine::cost_model::ExBudget;
use uplc::tx::{eval_phase_two, eval_phase_two_with_protocol, ResolvedInput, SlotConfig};
use vcore::evid::{guarded, Run, Tier, Violation};

pub struct Recorded {
    pub name: String,
    pub tx: Vec<u8>,
    pub inputs: Vec<u8>,
    pub outputs: Vec<u8>,
    /// (1|2|3, cost vector)
    pub costs: Vec<(u8, Vec<i64>)>,
    pub slot: (u64, u64, u32),
}

fn hex_after(body: &str, marker: &str) -> Option<Vec<u8>> {
    let at = body.find(marker)?;
    let rest = &body[at..];
    let q1 = rest.find('"')? + 1;
    let q2 = q1 + rest[q1..].find('"')?;
    hex::decode(&rest[q1..q2]).ok()
}

fn number_after(body: &str, marker: &str) -> Option<u64> {
    let at = body.find(marker)? + marker.len();
    let digits: String = body[at..].chars().skip_while(|c| !c.is_ascii_digit()).take_while(|c| c.is_ascii_digit() || *c == '_').filter(|c| *c != '_').collect();
    digits.parse().ok()
}

pub fn load() -> Result<Vec<Recorded>, String> {
    let src = std::fs::read_to_string("/repo/crates/uplc/src/tx/tests.rs").map_err(|e| e.to_string())?;
    let mut out = vec![];
    let starts: Vec<usize> = src.match_indices("\nfn test_eval_").map(|(i, _)| i).collect();
    for (k, s) in starts.iter().enumerate() {
        let end = starts.get(k + 1).copied().unwrap_or(src.len());
        let body = &src[*s..end];
        let name: String = body[4..].chars().take_while(|c| c.is_alphanumeric() || *c == '_').collect();
        let (Some(tx), Some(inputs), Some(outputs)) = (hex_after(body, "let tx_bytes"), hex_after(body, "let raw_inputs"), hex_after(body, "let raw_outputs")) else { continue };
        // cost vectors: `let <ident>: Vec<i64> = vec![ ... ];` and which CostModels field uses them
        let mut vectors: Vec<(String, Vec<i64>)> = vec![];
        let mut pos = 0;
        while let Some(i) = body[pos..].find(": Vec<i64> = vec![") {
            let at = pos + i;
            let ident: String = body[..at].chars().rev().take_while(|c| c.is_alphanumeric() || *c == '_').collect::<String>().chars().rev().collect();
            let open = at + ": Vec<i64> = vec![".len();
            let close = open + body[open..].find(']').unwrap_or(0);
            let v: Vec<i64> = body[open..close].split(',').filter_map(|x| x.trim().replace('_', "").parse().ok()).collect();
            vectors.push((ident, v));
            pos = close;
        }
        let mut costs = vec![];
        for (lang, field) in [(1u8, "plutus_v1: Some("), (2, "plutus_v2: Some("), (3, "plutus_v3: Some(")] {
            if let Some(i) = body.find(field) {
                let ident: String = body[i + field.len()..].chars().take_while(|c| c.is_alphanumeric() || *c == '_').collect();
                if let Some((_, v)) = vectors.iter().find(|(n, _)| *n == ident) {
                    costs.push((lang, v.clone()));
                }
            }
        }
        let slot = (number_after(body, "zero_time:").unwrap_or(1660003200000), number_after(body, "zero_slot:").unwrap_or(0), number_after(body, "slot_length:").unwrap_or(1000) as u32);
        out.push(Recorded { name, tx, inputs, outputs, costs, slot });
    }
    if out.len() < 5 {
        return Err(format!("only {} recorded transactions could be read from tx/tests.rs", out.len()));
    }
    Ok(out)
}

type Units = Vec<(u64, u64)>;

#[derive(Clone, Copy, PartialEq, Debug)]
struct Config {
    with_costs: bool,
    protocol: Option<u16>,
}

fn evaluate(tx: &MintedTx, utxos: &[ResolvedInput], cm: Option<&CostModels>, budget: Option<&ExBudget>, slot: &SlotConfig, protocol: Option<u16>) -> Result<Result<Units, String>, String> {
    guarded(|| {
        let r = match protocol {
            Some(pv) => eval_phase_two_with_protocol(tx, utxos, cm, budget, slot, pv, false, |_| ()),
            None => eval_phase_two(tx, utxos, cm, budget, slot, false, |_| ()),
        };
        match r {
            Ok(rs) => Ok(rs.iter().map(|(r, _)| (r.ex_units.steps, r.ex_units.mem)).collect()),
            Err(e) => Err(format!("{e}").chars().take(120).collect()),
        }
    })
}

fn permutations(n: usize) -> Vec<Vec<usize>> {
    fn rec(cur: &mut Vec<usize>, n: usize, out: &mut Vec<Vec<usize>>) {
        if cur.len() == n {
            out.push(cur.clone());
            return;
        }
        for i in 0..n {
            if !cur.contains(&i) {
                cur.push(i);
                rec(cur, n, out);
                cur.pop();
            }
        }
    }
    if n <= 4 {
        let mut out = vec![];
        rec(&mut vec![], n, &mut out);
        out
    } else {
        // n rotations, their reversals, and every adjacent transposition
        let id: Vec<usize> = (0..n).collect();
        let mut out = vec![];
        for r in 0..n {
            let mut p = id.clone();
            p.rotate_left(r);
            out.push(p.clone());
            p.reverse();
            out.push(p);
        }
        for i in 0..n - 1 {
            let mut p = id.clone();
            p.swap(i, i + 1);
            out.push(p);
        }
        out
    }
}

pub fn run(tier: Tier, _replay: Option<String>) -> i32 {
    let mut run = Run::new("C19", tier);
    let recorded = match load() {
        Ok(r) => r,
        Err(e) => {
            run.machinery_error(e);
            run.set("evaluations", 0);
            return run.finish();
        }
    };
    let (mut evals, mut configs_ok, mut budget_cases, mut perm_cases, mut removal_cases) = (0u64, 0u64, 0u64, 0u64, 0u64);
    let mut outcomes: HashSet<String> = HashSet::new();
    let mut multi = 0u64;
    for rec in &recorded {
        let tx_bytes = rec.tx.clone();
        let Ok(MultiEraTx::Conway(tx)) = MultiEraTx::decode_for_era(Era::Conway, &tx_bytes) else {
            run.machinery_error(format!("{}: recorded transaction does not decode as Conway", rec.name));
            continue;
        };
        let (Ok(inputs), Ok(outputs)) = (Vec::<TransactionInput>::decode_fragment(&rec.inputs), Vec::<TransactionOutput>::decode_fragment(&rec.outputs)) else {
            run.machinery_error(format!("{}: recorded inputs/outputs do not decode", rec.name));
            continue;
        };
        let utxos: Vec<ResolvedInput> = inputs.iter().zip(outputs.iter()).map(|(i, o)| ResolvedInput { input: i.clone(), output: o.clone() }).collect();
        let slot = SlotConfig { zero_time: rec.slot.0, zero_slot: rec.slot.1, slot_length: rec.slot.2 };
        let cms = CostModels {
            plutus_v1: rec.costs.iter().find(|(l, _)| *l == 1).map(|(_, v)| v.clone()),
            plutus_v2: rec.costs.iter().find(|(l, _)| *l == 2).map(|(_, v)| v.clone()),
            plutus_v3: rec.costs.iter().find(|(l, _)| *l == 3).map(|(_, v)| v.clone()),
        };
        let mut configs = vec![];
        for with_costs in [false, true] {
            if with_costs && rec.costs.is_empty() {
                continue;
            }
            for protocol in [None, Some(9u16), Some(10), Some(11)] {
                configs.push(Config { with_costs, protocol });
            }
        }
        for cfg in configs {
            let cm = if cfg.with_costs { Some(&cms) } else { None };
            let case0 = json!({"engine":"c19","tx":rec.name,"with_cost_models":cfg.with_costs,"protocol":cfg.protocol});
            let big = ExBudget { cpu: 1_000_000_000_000, mem: 1_000_000_000_000 };
            evals += 1;
            let base = match evaluate(&tx, &utxos, cm, Some(&big), &slot, cfg.protocol) {
                Err(p) => {
                    run.violation(Violation { signature: format!("panic|eval_phase_two|{}", vcore::evid::panic_site_file(&p)), what: format!("{}: eval_phase_two panicked: {p}", rec.name), case: case0.clone() });
                    continue;
                }
                Ok(Err(e)) => {
                    // a recorded transaction may legitimately fail under a protocol version it was not made for
                    outcomes.insert(format!("{}:{:?}:err:{e}", rec.name, cfg));
                    continue;
                }
                Ok(Ok(u)) => u,
            };
            configs_ok += 1;
            if base.len() >= 2 {
                multi += 1;
            }
            outcomes.insert(format!("{}:{:?}:{:?}", rec.name, cfg, base));
            // determinism
            evals += 1;
            if evaluate(&tx, &utxos, cm, Some(&big), &slot, cfg.protocol) != Ok(Ok(base.clone())) {
                run.violation(Violation { signature: "nondeterministic".into(), what: format!("{}: two evaluations of the same transaction report different ex-units", rec.name), case: case0.clone() });
            }
            // (1) budgets around the cumulative costs
            let mut prefix: Vec<(u64, u64)> = vec![];
            let (mut c, mut m) = (0u64, 0u64);
            for (dc, dm) in &base {
                c += dc;
                m += dm;
                prefix.push((c, m));
            }
            let total = *prefix.last().unwrap_or(&(0, 0));
            let mut budgets: Vec<(String, (u64, u64))> = vec![
                ("exact-total".into(), total),
                ("total-minus-1-cpu".into(), (total.0.saturating_sub(1), total.1)),
                ("total-minus-1-mem".into(), (total.0, total.1.saturating_sub(1))),
                ("total-plus-1".into(), (total.0 + 1, total.1 + 1)),
                ("one-unit".into(), (1, 1)),
                ("cpu-only".into(), (total.0, 0)),
            ];
            for (k, p) in prefix.iter().enumerate().take(prefix.len().saturating_sub(1)) {
                budgets.push((format!("cost-of-first-{}", k + 1), *p));
            }
            for (bname, b) in budgets {
                let eb = ExBudget { cpu: b.0 as i64, mem: b.1 as i64 };
                let should = prefix.iter().all(|(pc, pm)| *pc <= b.0 && *pm <= b.1);
                evals += 1;
                budget_cases += 1;
                let case = json!({"engine":"c19","tx":rec.name,"with_cost_models":cfg.with_costs,"protocol":cfg.protocol,"budget":bname});
                match evaluate(&tx, &utxos, cm, Some(&eb), &slot, cfg.protocol) {
                    Err(p) => run.violation(Violation { signature: format!("panic|eval_phase_two|{}", vcore::evid::panic_site_file(&p)), what: format!("{} under budget {bname}: panic {p}", rec.name), case }),
                    Ok(Ok(u)) => {
                        if !should {
                            run.violation(Violation {
                                signature: format!("succeeds-over-budget|{}", if cfg.with_costs { "with-cost-models" } else { "without-cost-models" }),
                                what: format!("{} ({} redeemer(s), total cost cpu={} mem={}): the simulation succeeds with the budget {bname} = (cpu {}, mem {}) and reports ex-units {:?}", rec.name, base.len(), total.0, total.1, b.0, b.1, u),
                                case,
                            });
                        } else if u != base {
                            run.violation(Violation { signature: "ex-units-depend-on-the-budget".into(), what: format!("{}: ex-units {:?} under budget {bname} but {:?} with an unlimited budget", rec.name, u, base), case });
                        }
                    }
                    Ok(Err(e)) => {
                        if should {
                            run.violation(Violation { signature: "fails-within-budget".into(), what: format!("{}: fails ({e}) although the budget {bname} covers every prefix of the costs {:?}", rec.name, base), case });
                        }
                    }
                }
            }
            // (2) every permutation of the resolved inputs
            for perm in permutations(utxos.len()) {
                let shuffled: Vec<ResolvedInput> = perm.iter().map(|i| utxos[*i].clone()).collect();
                evals += 1;
                perm_cases += 1;
                let r = evaluate(&tx, &shuffled, cm, Some(&big), &slot, cfg.protocol);
                if r != Ok(Ok(base.clone())) {
                    run.violation(Violation {
                        signature: "result-depends-on-the-order-of-resolved-inputs".into(),
                        what: format!("{}: with the resolved inputs in order {:?} the simulation gives {:?} instead of {:?}", rec.name, perm, r, base),
                        case: json!({"engine":"c19","tx":rec.name,"with_cost_models":cfg.with_costs,"protocol":cfg.protocol,"permutation":perm}),
                    });
                    break;
                }
            }
            // (3) faults: every single removal of a resolved input
            if cfg.protocol.is_none() {
                for k in 0..utxos.len() {
                    let mut fewer = utxos.clone();
                    fewer.remove(k);
                    evals += 1;
                    removal_cases += 1;
                    match evaluate(&tx, &fewer, cm, Some(&big), &slot, cfg.protocol) {
                        Err(p) => run.violation(Violation {
                            signature: format!("panic|missing-resolved-input|{}", vcore::evid::panic_site_file(&p)),
                            what: format!("{}: with resolved input #{k} missing the simulation panics instead of reporting an error: {p}", rec.name),
                            case: json!({"engine":"c19","tx":rec.name,"with_cost_models":cfg.with_costs,"removed_input":k}),
                        }),
                        Ok(r) => {
                            outcomes.insert(format!("{}:removed{k}:{}", rec.name, r.is_ok()));
                        }
                    }
                }
            }
        }
        run.sample(json!({"transaction": rec.name, "resolved_inputs": utxos.len(), "cost_model_languages": rec.costs.iter().map(|(l, _)| *l).collect::<Vec<_>>()}));
    }
    let (sims_b, txs_b) = crate::c19b::part(&mut run, tier);
    evals += sims_b;
    configs_ok += txs_b;
    run.set("recorded_transactions", recorded.len() as u64);
    run.set("configurations_that_evaluate", configs_ok);
    run.set("configurations_with_two_or_more_redeemers", multi);
    run.set("budget_cases", budget_cases);
    run.set("input_permutation_cases", perm_cases);
    run.set("input_removal_cases", removal_cases);
    run.set("evaluations", evals);
    run.set("states", configs_ok);
    run.set("transitions", evals);
    run.set("traces_validated_against_impl", budget_cases + perm_cases);
    run.set("distinct_nontrivial", outcomes.len() as u64);
    run.set("rule", "the recorded transactions of crates/uplc/src/tx/tests.rs x {no cost models, the recorded cost models} x {protocol unspecified, 9, 10, 11}; for each configuration that evaluates: budgets {exact total, total-1 cpu, total-1 mem, total+1, (1,1), cpu only, cost of the first k redeemers} against the prefix-sum law, every permutation of the resolved inputs (all for <= 4 inputs, rotations/reversals/transpositions beyond), every single removal of a resolved input; distinct_nontrivial = distinct observed outcomes");
    run.assume("transactions are the repository's recorded ones; hand-built transactions covering every purpose x language are not part of this check; per-redeemer independent re-evaluation of the script context is not performed (the unlimited-budget ex-units are the reference for the budget law)");
    if configs_ok < 8 {
        run.machinery_error("vacuous: fewer than 8 (transaction, configuration) pairs evaluate");
    }
    run.finish()
}
