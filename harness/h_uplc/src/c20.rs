//! C20 (uplc part) – malformed input is rejected with an error, not a crash.
//!
//! Exhaustive neighbourhoods of the binary decoders (flat / CBOR / hex / Data) and of the
//! UPLC text parser, each entry point under catch_unwind; hostile length prefixes and
//! nesting bombs (<= 16 KiB, "modest input") in child processes on a default 8 MiB main
//! thread stack, so that an abort or a stack overflow is observed as the child's exit status.

use crate::bvals;
use serde_json::json;
use std::collections::BTreeMap;
use std::rc::Rc;
use std::time::Duration;
use uplc::ast::{Constant, DeBruijn, FakeNamedDeBruijn, Name, NamedDeBruijn, Program, Term};
use uplc::{Fragment, PlutusData};
use vcore::evid::{guarded, Run, Tier, Violation};
use vcore::par::par_indices;
use vcore::rterm::{self, Enumerator};

pub const ENTRY_POINTS: [&str; 7] = ["from_flat<DeBruijn>", "from_flat<NamedDeBruijn>", "from_flat<Name>", "from_flat<FakeNamedDeBruijn>", "from_cbor", "from_hex", "PlutusData::decode_fragment"];

/// run one entry point on one input; Ok(accepted?) or Err(panic description)
pub fn decode_with(entry: usize, b: &[u8]) -> Result<bool, String> {
    let b = b.to_vec();
    guarded(move || match entry {
        0 => Program::<DeBruijn>::from_flat(&b).is_ok(),
        1 => Program::<NamedDeBruijn>::from_flat(&b).is_ok(),
        2 => Program::<Name>::from_flat(&b).is_ok(),
        3 => Program::<FakeNamedDeBruijn>::from_flat(&b).is_ok(),
        4 => {
            let mut buf = vec![];
            Program::<DeBruijn>::from_cbor(&b, &mut buf).is_ok()
        }
        5 => {
            let mut c = vec![];
            let mut f = vec![];
            Program::<DeBruijn>::from_hex(&hex::encode(&b), &mut c, &mut f).is_ok()
        }
        _ => PlutusData::decode_fragment(&b).is_ok(),
    })
}

/// also: decoding what was accepted must be printable and re-encodable without a crash
fn after_accept(b: &[u8]) -> Result<(), String> {
    let b = b.to_vec();
    guarded(move || {
        if let Ok(p) = Program::<DeBruijn>::from_flat(&b) {
            let _ = p.to_flat();
            let _ = p.to_pretty();
            let n: Program<NamedDeBruijn> = p.into();
            let _ = n.eval(uplc::machine::cost_model::ExBudget { cpu: 1_000_000, mem: 10_000 });
        }
    })
}

#[derive(Default)]
pub struct Local {
    pub cases: u64,
    pub accepted: BTreeMap<String, u64>,
    pub rejected: BTreeMap<String, u64>,
    pub violations: Vec<Violation>,
}

impl Local {
    fn record(&mut self, family: &str, entry: &str, r: Result<bool, String>, input: &[u8]) {
        self.cases += 1;
        match r {
            Ok(true) => *self.accepted.entry(format!("{family}/{entry}")).or_default() += 1,
            Ok(false) => *self.rejected.entry(format!("{family}/{entry}")).or_default() += 1,
            Err(p) => {
                if self.violations.len() < 200 {
                    self.violations.push(Violation {
                        signature: format!("panic|{entry}|{}|{}", vcore::evid::panic_site_file(&p), p.split(" @ ").next().unwrap_or("").split(':').next().unwrap_or("").chars().take(48).collect::<String>()),
                        what: format!("{entry} panicked on the {}-byte input {} ({family}): {p}", input.len(), hex::encode(&input[..input.len().min(64)])),
                        case: json!({"engine":"c20-bytes","entry":entry,"family":family,"input":hex::encode(input)}),
                    });
                }
            }
        }
    }
    pub fn merge(&mut self, o: Local) {
        self.cases += o.cases;
        for (k, v) in o.accepted {
            *self.accepted.entry(k).or_default() += v;
        }
        for (k, v) in o.rejected {
            *self.rejected.entry(k).or_default() += v;
        }
        self.violations.extend(o.violations);
    }
}

fn check_bytes(family: &str, b: &[u8], l: &mut Local) {
    for (i, e) in ENTRY_POINTS.iter().enumerate() {
        let r = decode_with(i, b);
        if i == 0 && r == Ok(true) {
            if let Err(p) = after_accept(b) {
                l.violations.push(Violation {
                    signature: format!("panic|after-accepting|{}", vcore::evid::panic_site_file(&p)),
                    what: format!("the decoder accepts {} but printing / re-encoding / evaluating the result panicked: {p}", hex::encode(b)),
                    case: json!({"engine":"c20-bytes","entry":"after-accept","family":family,"input":hex::encode(b)}),
                });
            }
        }
        l.record(family, e, r, b);
    }
}

/// valid encodings whose neighbourhood is explored
pub fn seeds() -> Vec<Vec<u8>> {
    let mut out = vec![];
    // small programs over the C08 boundary constants
    for c in crate::c08::boundary_consts().into_iter().take(30) {
        let t = rterm::RTerm::Con(Rc::new(c));
        out.push(vcore::flat_ref::program_flat((1, 1, 0), &t));
    }
    // structural programs
    let mut en = Enumerator::new(crate::common::c03_alphabet(0, false));
    let total = en.total(4);
    let mut i = 7;
    while i < total && out.len() < 44 {
        let t = en.unrank_global(4, i);
        out.push(vcore::flat_ref::program_flat((1, 0, 0), &t));
        i += total / 14 + 1;
    }
    out
}

fn mutations(seed: &[u8], full: bool) -> Vec<Vec<u8>> {
    let mut out = vec![];
    for n in 0..seed.len() {
        out.push(seed[..n].to_vec());
    }
    for i in 0..seed.len() {
        if full || seed.len() <= 48 || i < 24 || i + 8 >= seed.len() {
            for v in 0..=255u8 {
                if v != seed[i] {
                    let mut m = seed.to_vec();
                    m[i] = v;
                    out.push(m);
                }
            }
        } else {
            for bit in 0..8 {
                let mut m = seed.to_vec();
                m[i] ^= 1 << bit;
                out.push(m);
            }
        }
        for ins in [0x00u8, 0xff] {
            let mut m = seed.to_vec();
            m.insert(i, ins);
            out.push(m);
        }
    }
    out
}

/// inputs whose declared lengths are enormous
pub fn hostile_inputs() -> Vec<(String, Vec<u8>)> {
    let mut out = vec![];
    let lens: [(&str, Vec<u8>); 4] = [("2^32-1", vec![0x1a, 0xff, 0xff, 0xff, 0xff]), ("2^63", vec![0x1b, 0x80, 0, 0, 0, 0, 0, 0, 0]), ("2^64-1", vec![0x1b, 0xff, 0xff, 0xff, 0xff, 0xff, 0xff, 0xff, 0xff]), ("2^31", vec![0x1a, 0x80, 0, 0, 0])];
    for (major, mname) in [(2u8, "bytes"), (3, "text"), (4, "array"), (5, "map")] {
        for (lname, l) in &lens {
            let mut b = vec![(major << 5) | l[0]];
            b.extend(&l[1..]);
            b.extend([1, 2, 3]);
            out.push((format!("cbor {mname} of declared length {lname}"), b.clone()));
            // the same as the payload of a script (cbor-wrapped flat) and as a Data constant
            let mut tagged = vec![0xd8, 0x79];
            tagged.extend(&b);
            out.push((format!("cbor constr whose fields are a {mname} of declared length {lname}"), tagged));
        }
    }
    // flat: a Data constant whose byte string chunk announces 255 bytes but ends early
    let mut w = vcore::flat_ref::program_flat((1, 1, 0), &rterm::RTerm::Con(Rc::new(rterm::RConst::ByteString(vec![7; 300]))));
    w.truncate(40);
    out.push(("flat byte string truncated inside a 255-byte chunk".into(), w));
    // flat: huge version numbers / variable index (varint of 10 continuation bytes)
    out.push(("flat version number as a 70-bit varint".into(), [vec![0xff; 10], vec![0x01, 0x00, 0x00, 0x49, 0x81]].concat()));
    out
}

pub fn bombs() -> Vec<(&'static str, &'static str, Vec<u8>)> {
    let n = 16_000usize;
    let mut out: Vec<(&'static str, &'static str, Vec<u8>)> = vec![];
    let flat_prefix = vec![0x01u8, 0x00, 0x00];
    let wrap = |body: Vec<u8>| [flat_prefix.clone(), body].concat();
    out.push(("flat", "nested delay", wrap(vec![0x11; n])));
    out.push(("flat", "nested lam", wrap(vec![0x22; n])));
    out.push(("flat", "nested force", wrap(vec![0x55; n])));
    out.push(("flat", "nested apply", wrap(vec![0x33; n])));
    out.push(("flat", "nested case", wrap(vec![0x99; n])));
    out.push(("data", "nested arrays", [vec![0x81; n], vec![0x01]].concat()));
    out.push(("data", "nested indefinite arrays", vec![0x9f; n]));
    out.push(("data", "nested constr", [vec![0xd8, 0x79, 0x81].repeat(n / 3), vec![0x01]].concat()));
    out.push(("data", "nested maps", [vec![0xa1, 0x01].repeat(n / 2), vec![0x01]].concat()));
    out.push(("text", "nested delay", [b"(program 1.0.0 ".to_vec(), b"(delay ".repeat(n / 7 - 4), b"(con unit ())".to_vec(), b")".repeat(n / 7 - 3)].concat()));
    out.push(("text", "nested application", [b"(program 1.0.0 ".to_vec(), b"[".repeat(n / 2 - 40), b"(con unit ())".to_vec()].concat()));
    out.push(("text", "nested list type", [b"(program 1.0.0 (con ".to_vec(), b"(list ".repeat(n / 6 - 8), b"unit".to_vec()].concat()));
    out.push(("text", "nested data list", [b"(program 1.0.0 (con data ".to_vec(), b"List [".repeat(n / 6 - 8)].concat()));
    out
}

/// child: `h_uplc c20-child bomb <index>` / `h_uplc c20-child hostile <index>`; runs on the
/// process's main thread (default 8 MiB stack), prints "done" when the decoder returned
pub fn child_main(args: &[String]) -> i32 {
    let idx: usize = args[1].parse().unwrap_or(0);
    match args[0].as_str() {
        "bomb" => {
            let (kind, _, input) = bombs().swap_remove(idx);
            match kind {
                "flat" => {
                    let r = Program::<DeBruijn>::from_flat(&input);
                    std::mem::forget(r); // dropping a deeply nested term is a separate matter (below)
                }
                "data" => {
                    let r = PlutusData::decode_fragment(&input);
                    std::mem::forget(r);
                }
                _ => {
                    let r = uplc::parser::program(&String::from_utf8_lossy(&input));
                    std::mem::forget(r);
                }
            }
        }
        "bomb-drop" => {
            let (kind, _, input) = bombs().swap_remove(idx);
            match kind {
                "flat" => drop(Program::<DeBruijn>::from_flat(&input)),
                "data" => drop(PlutusData::decode_fragment(&input)),
                _ => drop(uplc::parser::program(&String::from_utf8_lossy(&input))),
            }
        }
        _ => {
            let (_, input) = hostile_inputs().swap_remove(idx);
            for i in 0..ENTRY_POINTS.len() {
                let _ = decode_with(i, &input);
            }
        }
    }
    println!("done");
    0
}

fn run_children(run: &mut Run) -> (u64, u64) {
    let exe = std::env::current_exe().unwrap();
    let mut n = 0u64;
    let mut returned = 0u64;
    let spawn = |args: &[&str]| {
        let mut child = std::process::Command::new(&exe).arg("c20-child").args(args).stdout(std::process::Stdio::piped()).stderr(std::process::Stdio::null()).spawn().ok()?;
        let start = std::time::Instant::now();
        loop {
            match child.try_wait() {
                Ok(Some(st)) => {
                    let mut out = String::new();
                    use std::io::Read;
                    let _ = child.stdout.take().map(|mut o| o.read_to_string(&mut out));
                    return Some((st, out, false));
                }
                Ok(None) if start.elapsed() > Duration::from_secs(20) => {
                    let _ = child.kill();
                    let st = child.wait().ok()?;
                    return Some((st, String::new(), true));
                }
                Ok(None) => std::thread::sleep(Duration::from_millis(5)),
                Err(_) => return None,
            }
        }
    };
    use std::os::unix::process::ExitStatusExt;
    for (i, (name, input)) in hostile_inputs().iter().enumerate() {
        n += 1;
        match spawn(&["hostile", &i.to_string()]) {
            Some((st, out, timed_out)) => {
                if timed_out {
                    run.violation(Violation { signature: "hang|decoders|declared-length".into(), what: format!("decoding `{name}` ({} bytes) did not return within 20 s", input.len()), case: json!({"engine":"c20-hostile","index":i,"name":name}) });
                } else if !st.success() || !out.contains("done") {
                    run.violation(Violation {
                        signature: format!("abort|decoders|declared-length|{}", st.signal().map(|s| format!("signal {s}")).unwrap_or_else(|| format!("exit {:?}", st.code()))),
                        what: format!("decoding `{name}` ({} bytes: {}) kills the process ({st:?}): a declared length is trusted for an allocation", input.len(), hex::encode(&input[..input.len().min(24)])),
                        case: json!({"engine":"c20-hostile","index":i,"name":name}),
                    });
                } else {
                    returned += 1;
                }
            }
            None => run.machinery_error("cannot spawn the child process"),
        }
    }
    for (i, (kind, name, input)) in bombs().iter().enumerate() {
        let mut decoded = true;
        for mode in ["bomb", "bomb-drop"] {
            // dropping the (deeply nested) result is only a separate question when decoding returned
            if mode == "bomb-drop" && !decoded {
                continue;
            }
            n += 1;
            match spawn(&[mode, &i.to_string()]) {
                Some((st, out, timed_out)) => {
                    let entry = match *kind {
                        "flat" => "Program::from_flat",
                        "data" => "PlutusData::decode_fragment",
                        _ => "parser::program",
                    };
                    let phase = if mode == "bomb" { "decoding" } else { "decoding-and-dropping" };
                    if timed_out {
                        run.violation(Violation { signature: format!("hang|{entry}|{name}"), what: format!("{phase} a {}-byte input of {name} did not return within 20 s", input.len()), case: json!({"engine":"c20-bomb","index":i,"mode":mode}) });
                    } else if !st.success() || !out.contains("done") {
                        decoded = false;
                        run.violation(Violation {
                            signature: format!("stack-overflow|{entry}|{phase}|{name}"),
                            what: format!("{phase} a {}-byte input consisting of {name} ({kind}) kills the process ({}) on the default 8 MiB main-thread stack instead of returning an error", input.len(), st.signal().map(|s| format!("signal {s}")).unwrap_or_else(|| format!("exit {:?}", st.code()))),
                            case: json!({"engine":"c20-bomb","index":i,"mode":mode,"kind":kind,"name":name,"bytes":input.len()}),
                        });
                    } else {
                        returned += 1;
                    }
                }
                None => run.machinery_error("cannot spawn the child process"),
            }
        }
    }
    (n, returned)
}

// ---------------------------------------------------------------------------------------
// UPLC text

const TOKENS: [&str; 22] = ["(", ")", "[", "]", "program", "1.0.0", "lam", "delay", "force", "con", "builtin", "error", "constr", "case", "integer", "x", "0", "addInteger", "fooBar", "\"a", "#zz", "unit"];

fn parse_text(s: &str) -> Result<bool, String> {
    let s = s.to_string();
    guarded(move || match uplc::parser::program(&s) {
        Ok(p) => {
            // what parses must print and convert without a crash
            let _ = p.to_pretty();
            let _: Result<Program<DeBruijn>, _> = p.try_into();
            true
        }
        Err(_) => false,
    })
}

fn text_seeds() -> Vec<String> {
    let mut out = vec![];
    let c = |x: Constant| Term::<Name>::Constant(Rc::new(x));
    let vals = [
        bvals::BVal::Int(12345.into()),
        bvals::BVal::Bytes(vec![0, 255]),
        bvals::BVal::Str("a\"\\\n\u{e9}".into()),
        bvals::BVal::Unit,
        bvals::BVal::Bool(true),
        bvals::BVal::List(bvals::BType::Int, vec![bvals::BVal::Int(1.into()), bvals::BVal::Int((-2).into())]),
        bvals::BVal::Pair(Box::new(bvals::BVal::Int(1.into())), Box::new(bvals::BVal::Bytes(vec![1]))),
        bvals::BVal::Data(rterm::RData::Constr(1, vec![rterm::RData::I(2.into()), rterm::RData::B(vec![3]), rterm::RData::List(vec![]), rterm::RData::Map(vec![(rterm::RData::I(0.into()), rterm::RData::I(1.into()))])])),
        bvals::BVal::G1(bvals::g1_generator()),
    ];
    for v in vals {
        if let Some(k) = bvals::to_impl_const(&v) {
            out.push(Program { version: (1, 1, 0), term: c(k) }.to_pretty());
        }
    }
    let mut en = Enumerator::new(crate::common::c03_alphabet(0, false));
    let total = en.total(5);
    let mut i = 11;
    while i < total && out.len() < 30 {
        let t = en.unrank_global(5, i);
        let p: Program<NamedDeBruijn> = Program { version: (1, 1, 0), term: rterm::to_named_debruijn(&t) };
        out.push(p.to_pretty());
        i += total / 21 + 1;
    }
    out
}

pub fn part(run: &mut Run, tier: Tier) {
    let cap = Some(Duration::from_secs(if tier == Tier::Quick { 30 } else { 1200 }));
    // (1) every byte string up to the length bound
    let max_len = if tier == Tier::Quick { 2 } else { 3 };
    let total: u64 = (0..=max_len).map(|n| 256u64.pow(n)).sum();
    let out = par_indices(total, 4096, cap, |_| Local::default(), |l, idx| {
        let mut i = idx;
        let mut len = 0u32;
        while i >= 256u64.pow(len) {
            i -= 256u64.pow(len);
            len += 1;
        }
        let b: Vec<u8> = (0..len).map(|k| ((i >> (8 * (len - 1 - k))) & 0xff) as u8).collect();
        check_bytes("all-short-byte-strings", &b, l);
    }, |l| l);
    let mut tot = Local::default();
    let capped1 = out.capped;
    for l in out.results {
        tot.merge(l);
    }
    // (2) mutation balls
    let seeds = seeds();
    let items: Vec<(usize, Vec<u8>)> = seeds.iter().enumerate().flat_map(|(si, s)| mutations(s, tier == Tier::Thorough).into_iter().map(move |m| (si, m))).collect();
    let out = par_indices(items.len() as u64, 512, cap, |_| Local::default(), |l, i| check_bytes("mutation-ball", &items[i as usize].1, l), |l| l);
    let capped2 = out.capped;
    for l in out.results {
        tot.merge(l);
    }
    // (3) text: token strings and single-character mutations
    let k = if tier == Tier::Quick { 3 } else { 4 };
    let nt = TOKENS.len() as u64;
    let total_t: u64 = (1..=k).map(|n| nt.pow(n)).sum();
    let out = par_indices(total_t, 1024, cap, |_| Local::default(), |l, idx| {
        let mut i = idx;
        let mut len = 1u32;
        while i >= nt.pow(len) {
            i -= nt.pow(len);
            len += 1;
        }
        let mut toks = vec![];
        for _ in 0..len {
            toks.push(TOKENS[(i % nt) as usize]);
            i /= nt;
        }
        let s = toks.join(" ");
        let r = parse_text(&s);
        if let Err(p) = &r {
            l.violations.push(Violation { signature: format!("panic|parser::program|{}", vcore::evid::panic_site_file(p)), what: format!("the UPLC parser panicked on `{s}`: {p}"), case: json!({"engine":"c20-text","text":s}) });
        }
        l.record("token-strings", "parser::program", r, s.as_bytes());
    }, |l| l);
    let capped3 = out.capped;
    for l in out.results {
        tot.merge(l);
    }
    let tseeds = text_seeds();
    let mut titems: Vec<String> = vec![];
    for s in &tseeds {
        let chars: Vec<char> = s.chars().collect();
        for i in 0..chars.len() {
            let mut d = chars.clone();
            d.remove(i);
            titems.push(d.iter().collect());
            let mut d = chars.clone();
            d.insert(i, chars[i]);
            titems.push(d.iter().collect());
            for r in ['(', ')', '"', '0', 'x', '#', '\\', ' '] {
                if r != chars[i] {
                    let mut d = chars.clone();
                    d[i] = r;
                    titems.push(d.iter().collect());
                }
            }
        }
    }
    let out = par_indices(titems.len() as u64, 256, cap, |_| Local::default(), |l, i| {
        let s = &titems[i as usize];
        let r = parse_text(s);
        if let Err(p) = &r {
            l.violations.push(Violation { signature: format!("panic|parser::program|{}", vcore::evid::panic_site_file(p)), what: format!("the UPLC parser panicked on `{}`: {p}", s.chars().take(200).collect::<String>()), case: json!({"engine":"c20-text","text":s}) });
        }
        l.record("text-mutation-ball", "parser::program", r, s.as_bytes());
    }, |l| l);
    let capped4 = out.capped;
    for l in out.results {
        tot.merge(l);
    }
    if capped1 || capped2 || capped3 || capped4 {
        run.cap_hit("wall cap in the uplc decoders/parser part");
    }
    let (children, returned) = run_children(run);
    run.violations_extend(std::mem::take(&mut tot.violations));
    run.add("cases", tot.cases + children);
    run.set("uplc_cases", tot.cases);
    run.set("uplc_short_byte_strings_max_len", max_len as u64);
    run.set("uplc_mutation_ball_seeds", seeds.len() as u64);
    run.set("uplc_text_seeds", tseeds.len() as u64);
    run.set("uplc_accepted_per_family_entry", json!(tot.accepted));
    run.set("uplc_rejected_per_family_entry", json!(tot.rejected));
    run.set("child_process_cases", children);
    run.set("child_process_cases_that_returned", returned);
    // vacuity: a mutation ball that is rejected 100 % exercises only the first byte
    let acc: u64 = tot.accepted.iter().filter(|(k, _)| k.starts_with("mutation-ball")).map(|(_, v)| *v).sum();
    if acc == 0 {
        run.machinery_error("vacuous: no mutated encoding was accepted by any decoder");
    }
    run.sample(json!({"family":"mutation-ball","seed":hex::encode(&seeds[0])}));
    run.sample(json!({"family":"token-strings","text":"( program 1.0.0 ( con"}));
}

pub fn replay_case(case: &serde_json::Value) -> Option<i32> {
    match case["engine"].as_str()? {
        "c20-bytes" => {
            let b = hex::decode(case["input"].as_str()?).ok()?;
            let mut l = Local::default();
            check_bytes("replay", &b, &mut l);
            for v in &l.violations {
                println!("VIOLATION property=C20 replay=(bytes)\n  {}", v.what);
            }
            Some(if l.violations.is_empty() { 0 } else { 1 })
        }
        "c20-text" => {
            let s = case["text"].as_str()?;
            match parse_text(s) {
                Err(p) => {
                    println!("VIOLATION property=C20 replay=(text)\n  the UPLC parser panicked on `{s}`: {p}");
                    Some(1)
                }
                Ok(_) => Some(0),
            }
        }
        _ => None,
    }
}
