//! C04 (BLS12-381 part): no independent implementation is available offline, so the oracle
//! is the algebra: group laws, scalar multiplication vs repeated addition, the group order,
//! canonical encodings (every single-bit flip of a valid encoding is rejected or decodes to
//! a subgroup point that re-encodes to the same bytes), bilinearity of the pairing and
//! multi-scalar multiplication = sum of scalar multiplications. Every operation goes
//! through the real evaluator (`[(builtin f) args]`).

use crate::common::*;
use num_bigint::BigInt;
use serde_json::{json, Value as J};
use std::collections::{BTreeMap, HashSet};
use std::rc::Rc;
use std::str::FromStr;
use uplc::ast::{Constant, NamedDeBruijn, Program, Term, Type};
use uplc::builtins::DefaultFunction as F;
use vcore::evid::{guarded, Run, Tier, Violation};

type T = Term<NamedDeBruijn>;

#[derive(Default)]
pub struct BlsOut {
    pub cases: u64,
    pub evaluations: u64,
    pub distinct: u64,
    pub per_law: BTreeMap<String, u64>,
}

struct Ctx {
    evaluations: u64,
    per_law: BTreeMap<String, u64>,
    violations: Vec<Violation>,
    outcomes: HashSet<String>,
}

fn con(c: Constant) -> T {
    Term::Constant(Rc::new(c))
}
fn int(i: &BigInt) -> T {
    con(Constant::Integer(i.clone()))
}
fn bytes(b: &[u8]) -> T {
    con(Constant::ByteString(b.to_vec()))
}

fn app(f: F, args: &[T]) -> T {
    let mut t: T = Term::Builtin(f);
    for a in args {
        t = Term::Apply { function: Rc::new(t), argument: Rc::new(a.clone()) };
    }
    t
}

impl Ctx {
    fn eval(&mut self, t: &T) -> Result<T, String> {
        self.evaluations += 1;
        let program = Program { version: (1, 1, 0), term: t.clone() };
        match guarded(move || program.eval_version_with_protocol(huge_budget(), &uplc::Language::PlutusV3, 11).result) {
            Ok(Ok(t)) => Ok(t),
            Ok(Err(e)) => Err(error_kind(&e)),
            Err(p) => Err(format!("PANIC {p}")),
        }
    }
    fn call(&mut self, f: F, args: &[T]) -> Result<T, String> {
        self.eval(&app(f, args))
    }
    fn law(&mut self, name: &str, group: &str, holds: bool, detail: impl FnOnce() -> String, case: impl FnOnce() -> J) {
        *self.per_law.entry(format!("{group}:{name}")).or_default() += 1;
        if !holds {
            let d = detail();
            self.violations.push(Violation {
                signature: format!("bls-law|{name}|{group}"),
                what: format!("BLS12-381 {group}: law `{name}` fails: {d}"),
                case: json!({"engine":"c04-bls","law":name,"group":group,"detail":d,"case":case()}),
            });
        }
    }
}

fn show(r: &Result<T, String>) -> String {
    match r {
        Ok(t) => t.to_pretty().split_whitespace().collect::<Vec<_>>().join(" "),
        Err(e) => format!("<{e}>"),
    }
}

struct Group {
    name: &'static str,
    add: F,
    neg: F,
    mul: F,
    eq: F,
    compress: F,
    uncompress: F,
    hash: F,
    msm: F,
    gen_hex: &'static str,
    zero_hex: String,
    len: usize,
    elem_type: Type,
}

pub fn group_order() -> BigInt {
    BigInt::from_str("52435875175126190479447740508185965837690552500527637822603658699938581184513").unwrap()
}

fn groups() -> [Group; 2] {
    [
        Group {
            name: "G1",
            add: F::Bls12_381_G1_Add,
            neg: F::Bls12_381_G1_Neg,
            mul: F::Bls12_381_G1_ScalarMul,
            eq: F::Bls12_381_G1_Equal,
            compress: F::Bls12_381_G1_Compress,
            uncompress: F::Bls12_381_G1_Uncompress,
            hash: F::Bls12_381_G1_HashToGroup,
            msm: F::Bls12_381_G1_MultiScalarMul,
            // the standard generator (compressed), from the BLS12-381 specification
            gen_hex: "97f1d3a73197d7942695638c4fa9ac0fc3688c4f9774b905a14e3a3f171bac586c55e83ff97a1aeffb3af00adb22c6bb",
            zero_hex: format!("c0{}", "00".repeat(47)),
            len: 48,
            elem_type: Type::Bls12_381G1Element,
        },
        Group {
            name: "G2",
            add: F::Bls12_381_G2_Add,
            neg: F::Bls12_381_G2_Neg,
            mul: F::Bls12_381_G2_ScalarMul,
            eq: F::Bls12_381_G2_Equal,
            compress: F::Bls12_381_G2_Compress,
            uncompress: F::Bls12_381_G2_Uncompress,
            hash: F::Bls12_381_G2_HashToGroup,
            msm: F::Bls12_381_G2_MultiScalarMul,
            gen_hex: "93e02b6052719f607dacd3a088274f65596bd0d09920b61ab5da61bbdc7f5049334cf11213945d57e5ac7d055d042b7e024aa2b2f08f0a91260805272dc51051c6e47ad4fa403b02b4510b647ae3d1770bac0326a805bbefd48056c8c121bdb8",
            zero_hex: format!("c0{}", "00".repeat(95)),
            len: 96,
            elem_type: Type::Bls12_381G2Element,
        },
    ]
}

fn scalars(tier: Tier) -> Vec<BigInt> {
    let r = group_order();
    let mut v: Vec<BigInt> = vec![(-2).into(), (-1).into(), 0.into(), 1.into(), 2.into(), &r - 1, r.clone(), &r + 1];
    if tier == Tier::Thorough {
        v.extend([3.into(), 7.into(), BigInt::from(1) << 64, (BigInt::from(1) << 255) + 5, -(BigInt::from(1) << 256usize) - BigInt::from(3), &r * 2 + 3, -r.clone()]);
    }
    v
}

fn check_group(c: &mut Ctx, g: &Group, tier: Tier) -> Vec<T> {
    let gen_bytes = hex::decode(g.gen_hex).unwrap();
    let zero_bytes = hex::decode(&g.zero_hex).unwrap();
    let gn = g.name;
    let Ok(gen_pt) = c.call(g.uncompress, &[bytes(&gen_bytes)]) else {
        c.law("generator-decodes", gn, false, || "the standard generator encoding is rejected".into(), || json!({}));
        return vec![];
    };
    let zero = c.call(g.uncompress, &[bytes(&zero_bytes)]);
    c.law("identity-decodes", gn, zero.is_ok(), || "c0 00.. is rejected".into(), || json!({}));
    let Ok(zero) = zero else { return vec![] };
    // point alphabet, derived through the implementation itself: 0, G, 2G, -G, 3G, H(""), H("a")
    let two_g = c.call(g.add, &[gen_pt.clone(), gen_pt.clone()]).unwrap_or(zero.clone());
    let neg_g = c.call(g.neg, &[gen_pt.clone()]).unwrap_or(zero.clone());
    let h0 = c.call(g.hash, &[bytes(b""), bytes(b"")]);
    c.law("hashToGroup-total-on-empty", gn, h0.is_ok(), || show(&h0), || json!({}));
    let h1 = c.call(g.hash, &[bytes(b"a"), bytes(b"QUUX-V01-CS02")]);
    let mut pts = vec![zero.clone(), gen_pt.clone(), two_g.clone(), neg_g.clone()];
    pts.extend(h0.clone().ok());
    pts.extend(h1.clone().ok());
    if tier == Tier::Thorough {
        pts.extend(c.call(g.mul, &[int(&BigInt::from(123456789)), gen_pt.clone()]).ok());
        pts.extend(c.call(g.hash, &[bytes(&[0xff; 64]), bytes(&[1; 255])]).ok());
    }
    let r = group_order();
    let enc = |c: &mut Ctx, p: &T| -> String {
        match c.call(g.compress, &[p.clone()]) {
            Ok(Term::Constant(k)) => match k.as_ref() {
                Constant::ByteString(b) => hex::encode(b),
                _ => "?".into(),
            },
            other => show(&other),
        }
    };
    let encs: Vec<String> = pts.iter().map(|p| enc(c, p)).collect();
    c.law("generator-encoding", gn, encs[1] == g.gen_hex, || format!("compress(uncompress(G)) = {}", encs[1]), || json!({}));
    c.law("identity-encoding", gn, encs[0] == g.zero_hex, || format!("compress(0) = {}", encs[0]), || json!({}));
    let d256 = c.call(g.hash, &[bytes(b"m"), bytes(&[7u8; 256])]);
    let d255 = c.call(g.hash, &[bytes(b"m"), bytes(&[7u8; 255])]);
    c.law("hashToGroup-dst-over-255-fails", gn, d256.is_err(), || "a 256-byte DST is accepted".into(), || json!({}));
    c.law("hashToGroup-dst-255-ok", gn, d255.is_ok(), || "a 255-byte DST is rejected".into(), || json!({}));
    let is_true = |t: &Result<T, String>| matches!(t, Ok(Term::Constant(k)) if matches!(k.as_ref(), Constant::Bool(true)));
    let is_false = |t: &Result<T, String>| matches!(t, Ok(Term::Constant(k)) if matches!(k.as_ref(), Constant::Bool(false)));
    for (i, p) in pts.iter().enumerate() {
        for o in [&encs[i]] {
            c.outcomes.insert(format!("{gn}{o}"));
        }
        // compress / uncompress
        let back = c.call(g.uncompress, &[bytes(&hex::decode(&encs[i]).unwrap_or_default())]);
        c.law("uncompress-compress", gn, back.as_ref().ok() == Some(p), || format!("uncompress(compress P) = {} for P = {}", show(&back), encs[i]), || json!({"p": encs[i]}));
        // neg
        let np = c.call(g.neg, &[p.clone()]);
        let nnp = np.clone().and_then(|x| c.call(g.neg, &[x]));
        c.law("neg-involutive", gn, nnp.as_ref().ok() == Some(p), || format!("neg(neg P) = {}", show(&nnp)), || json!({"p": encs[i]}));
        let s = np.clone().and_then(|x| c.call(g.add, &[p.clone(), x]));
        c.law("add-inverse", gn, s.as_ref().ok() == Some(&zero), || format!("P + neg P = {}", show(&s)), || json!({"p": encs[i]}));
        let pz = c.call(g.add, &[p.clone(), zero.clone()]);
        c.law("add-identity", gn, pz.as_ref().ok() == Some(p), || format!("P + 0 = {}", show(&pz)), || json!({"p": encs[i]}));
        // order
        let rp = c.call(g.mul, &[int(&r), p.clone()]);
        c.law("order", gn, rp.as_ref().ok() == Some(&zero), || format!("r * P = {}", show(&rp)), || json!({"p": encs[i]}));
        // scalar multiplication: k*P by repeated addition for small |k|, linearity for all pairs
        let ks = scalars(tier);
        let mut muls = vec![];
        for k in &ks {
            muls.push(c.call(g.mul, &[int(k), p.clone()]));
        }
        for (k, m) in ks.iter().zip(&muls) {
            c.law("scalarMul-total", gn, m.is_ok(), || format!("{k} * P = {}", show(m)), || json!({"p": encs[i], "k": k.to_string()}));
            if let Some(small) = i64::try_from(k.clone()).ok().filter(|x| x.abs() <= 7) {
                let mut acc = zero.clone();
                let step = if small < 0 { np.clone().unwrap_or(zero.clone()) } else { p.clone() };
                for _ in 0..small.abs() {
                    acc = c.call(g.add, &[acc, step.clone()]).unwrap_or(zero.clone());
                }
                c.law("scalarMul-is-repeated-add", gn, m.as_ref().ok() == Some(&acc), || format!("{k} * P = {} but repeated addition gives {}", show(m), show(&Ok(acc.clone()))), || json!({"p": encs[i], "k": k.to_string()}));
            }
        }
        for (a, ma) in ks.iter().zip(&muls) {
            for (b, mb) in ks.iter().zip(&muls) {
                let (Ok(ma), Ok(mb)) = (ma, mb) else { continue };
                let lhs = c.call(g.mul, &[int(&(a + b)), p.clone()]);
                let rhs = c.call(g.add, &[ma.clone(), mb.clone()]);
                c.law("scalarMul-distributes", gn, lhs.is_ok() && lhs == rhs, || format!("({a}+{b})*P = {} but {a}*P + {b}*P = {}", show(&lhs), show(&rhs)), || json!({"p": encs[i], "a": a.to_string(), "b": b.to_string()}));
            }
        }
        for (j, q) in pts.iter().enumerate() {
            let pq = c.call(g.add, &[p.clone(), q.clone()]);
            let qp = c.call(g.add, &[q.clone(), p.clone()]);
            c.law("add-commutative", gn, pq.is_ok() && pq == qp, || format!("P+Q = {} , Q+P = {}", show(&pq), show(&qp)), || json!({"p": encs[i], "q": encs[j]}));
            let e = c.call(g.eq, &[p.clone(), q.clone()]);
            let same = encs[i] == encs[j];
            c.law("equal-iff-same-encoding", gn, if same { is_true(&e) } else { is_false(&e) }, || format!("equal(P,Q) = {} while encodings are {}", show(&e), if same { "equal" } else { "different" }), || json!({"p": encs[i], "q": encs[j]}));
            for (k, s) in pts.iter().enumerate() {
                let l = pq.clone().and_then(|x| c.call(g.add, &[x, s.clone()]));
                let qs = c.call(g.add, &[q.clone(), s.clone()]);
                let rr = qs.and_then(|x| c.call(g.add, &[p.clone(), x]));
                c.law("add-associative", gn, l.is_ok() && l == rr, || format!("(P+Q)+S = {} , P+(Q+S) = {}", show(&l), show(&rr)), || json!({"p": encs[i], "q": encs[j], "s": encs[k]}));
            }
        }
    }
    // encodings: wrong lengths, and every single-bit flip of three valid encodings
    for n in [0usize, 1, g.len - 1, g.len + 1, 2 * g.len] {
        let b = vec![0xc0u8; n];
        let r0 = c.call(g.uncompress, &[bytes(&b)]);
        c.law("uncompress-wrong-length-fails", gn, r0.is_err(), || format!("{n} bytes accepted"), || json!({"len": n}));
    }
    let flip_sources: Vec<String> = encs.iter().take(if tier == Tier::Thorough { encs.len() } else { 3 }).cloned().collect();
    for e in &flip_sources {
        let Ok(b) = hex::decode(e) else { continue };
        for bit in 0..b.len() * 8 {
            let mut m = b.clone();
            m[bit / 8] ^= 0x80 >> (bit % 8);
            let dec = c.call(g.uncompress, &[bytes(&m)]);
            if let Ok(p) = &dec {
                let re = enc(c, p);
                c.law("accepted-encoding-is-canonical", gn, re == hex::encode(&m), || format!("uncompress accepts {} which re-encodes as {re}", hex::encode(&m)), || json!({"bytes": hex::encode(&m)}));
                let rp = c.call(g.mul, &[int(&r), p.clone()]);
                c.law("accepted-point-in-subgroup", gn, rp.as_ref().ok() == Some(&zero), || format!("uncompress accepts {} but r*P != 0", hex::encode(&m)), || json!({"bytes": hex::encode(&m)}));
            } else {
                *c.per_law.entry(format!("{gn}:bit-flip-rejected")).or_default() += 1;
            }
        }
    }
    // multi-scalar multiplication = sum of scalar multiplications (equal lengths, incl. empty)
    let ks = scalars(Tier::Quick);
    let ilist = |xs: &[BigInt]| con(Constant::ProtoList(Type::Integer, xs.iter().map(|k| Constant::Integer(k.clone())).collect()));
    let plist = |ps: &[&T]| {
        con(Constant::ProtoList(
            g.elem_type.clone(),
            ps.iter()
                .map(|p| match p {
                    Term::Constant(k) => k.as_ref().clone(),
                    _ => unreachable!(),
                })
                .collect(),
        ))
    };
    let e0 = c.call(g.msm, &[ilist(&[]), plist(&[])]);
    c.law("multiScalarMul-empty-is-identity", gn, e0.as_ref().ok() == Some(&zero), || show(&e0), || json!({}));
    let npts = pts.len().min(4);
    for (a, ka) in ks.iter().enumerate() {
        for i in 0..npts {
            let single = c.call(g.msm, &[ilist(&[ka.clone()]), plist(&[&pts[i]])]);
            let want = c.call(g.mul, &[int(ka), pts[i].clone()]);
            c.law("multiScalarMul-singleton", gn, single.is_ok() && single == want, || format!("msm([{ka}],[P]) = {} but {ka}*P = {}", show(&single), show(&want)), || json!({"k": ka.to_string(), "p": encs[i]}));
            for kb in ks.iter().skip(a % 3).step_by(3) {
                for j in 0..npts {
                    let got = c.call(g.msm, &[ilist(&[ka.clone(), kb.clone()]), plist(&[&pts[i], &pts[j]])]);
                    let w2 = c.call(g.mul, &[int(kb), pts[j].clone()]);
                    let sum = match (&want, &w2) {
                        (Ok(x), Ok(y)) => c.call(g.add, &[x.clone(), y.clone()]),
                        _ => Err("operand failed".into()),
                    };
                    c.law("multiScalarMul-pair", gn, got.is_ok() && got == sum, || format!("msm([{ka},{kb}],[P,Q]) = {} but the sum of scalar multiplications is {}", show(&got), show(&sum)), || json!({"ka": ka.to_string(), "kb": kb.to_string(), "p": encs[i], "q": encs[j]}));
                }
            }
        }
    }
    pts
}

fn check_pairing(c: &mut Ctx, p1: &[T], p2: &[T], tier: Tier) {
    if p1.len() < 3 || p2.len() < 3 {
        return;
    }
    let ml = |p: &T, q: &T| app(F::Bls12_381_MillerLoop, &[p.clone(), q.clone()]);
    let fv = |a: &T, b: &T| app(F::Bls12_381_FinalVerify, &[a.clone(), b.clone()]);
    let mulml = |a: &T, b: &T| app(F::Bls12_381_MulMlResult, &[a.clone(), b.clone()]);
    let is = |r: &Result<T, String>, b: bool| matches!(r, Ok(Term::Constant(k)) if matches!(k.as_ref(), Constant::Bool(x) if *x == b));
    let ks: Vec<BigInt> = if tier == Tier::Thorough { vec![0.into(), 1.into(), 2.into(), (-1).into(), 5.into(), group_order() - 1] } else { vec![0.into(), 1.into(), 2.into(), (-1).into()] };
    // skip the identity (index 0) as base point for the inequality checks
    for (i, p) in p1.iter().enumerate() {
        for (j, q) in p2.iter().enumerate() {
            let refl = c.eval(&fv(&ml(p, q), &ml(p, q)));
            c.law("finalVerify-reflexive", "pairing", is(&refl, true), || show(&refl), || json!({"i": i, "j": j}));
            for k in &ks {
                let kp = c.call(F::Bls12_381_G1_ScalarMul, &[int(k), p.clone()]);
                let kq = c.call(F::Bls12_381_G2_ScalarMul, &[int(k), q.clone()]);
                let (Ok(kp), Ok(kq)) = (kp, kq) else { continue };
                let r = c.eval(&fv(&ml(&kp, q), &ml(p, &kq)));
                c.law("bilinear-scalar", "pairing", is(&r, true), || format!("e({k}P,Q) vs e(P,{k}Q): {}", show(&r)), || json!({"i": i, "j": j, "k": k.to_string()}));
            }
            for (i2, p_) in p1.iter().enumerate() {
                // e(P+P',Q) = e(P,Q) * e(P',Q)
                let Ok(sum) = c.call(F::Bls12_381_G1_Add, &[p.clone(), p_.clone()]) else { continue };
                let r = c.eval(&fv(&ml(&sum, q), &mulml(&ml(p, q), &ml(p_, q))));
                c.law("bilinear-additive", "pairing", is(&r, true), || format!("e(P+P',Q) vs e(P,Q)e(P',Q): {}", show(&r)), || json!({"i": i, "i2": i2, "j": j}));
            }
        }
    }
    // non-degeneracy on the generators: e(G,H) != e(2G,H), e(G,H) != 1 = e(0,H)
    let (g1, g1x2, z1) = (&p1[1], &p1[2], &p1[0]);
    let h = &p2[1];
    let r = c.eval(&fv(&ml(g1, h), &ml(g1x2, h)));
    c.law("non-degenerate", "pairing", is(&r, false), || format!("e(G,H) == e(2G,H): {}", show(&r)), || json!({}));
    let r = c.eval(&fv(&ml(g1, h), &ml(z1, h)));
    c.law("non-degenerate", "pairing", is(&r, false), || format!("e(G,H) == e(0,H): {}", show(&r)), || json!({}));
}

fn run_all(tier: Tier) -> Ctx {
    let mut c = Ctx { evaluations: 0, per_law: BTreeMap::new(), violations: vec![], outcomes: HashSet::new() };
    let gs = groups();
    let p1 = check_group(&mut c, &gs[0], tier);
    let p2 = check_group(&mut c, &gs[1], tier);
    check_pairing(&mut c, &p1, &p2, tier);
    c
}

pub fn run_laws(run: &mut Run, tier: Tier) -> BlsOut {
    let c = run_all(tier);
    let cases = c.per_law.values().sum();
    run.violations_extend(c.violations);
    if cases < 1000 {
        run.machinery_error("vacuous: fewer than 1000 BLS law instances were evaluated");
    }
    BlsOut { cases, evaluations: c.evaluations, distinct: c.outcomes.len() as u64, per_law: c.per_law }
}

pub fn replay(case: &J) -> i32 {
    // laws are cheap: re-run the whole family and report the ones with the same law name
    let want = case["law"].as_str().unwrap_or("");
    let c = run_all(Tier::Thorough);
    let hits: Vec<_> = c.violations.iter().filter(|v| v.case["law"] == want).collect();
    if hits.is_empty() {
        println!("no violation on replay");
        return 0;
    }
    for v in hits.iter().take(3) {
        println!("VIOLATION property=C04 replay=(bls law {want})\n  {}", v.what);
    }
    1
}
