//! Argument values for builtin applications (C04 / C10): a small serialisable description
//! that converts to an implementation term. Descriptions are JSON so that the Python oracle
//! (C04) and replay files can use the same representation.

use num_bigint::BigInt;
use serde_json::{json, Value as J};
use std::rc::Rc;
use std::str::FromStr;
use uplc::ast::{Constant, DeBruijn, NamedDeBruijn, Term, Type};
use uplc::PlutusData;
use vcore::rterm::{self, RData};

#[derive(Clone, Debug, PartialEq)]
pub enum BVal {
    Int(BigInt),
    Bytes(Vec<u8>),
    Str(String),
    Unit,
    Bool(bool),
    /// element type, items
    List(BType, Vec<BVal>),
    Pair(Box<BVal>, Box<BVal>),
    Data(RData),
    G1(Vec<u8>),
    G2(Vec<u8>),
    /// non-constant values
    Lam,
    Delay,
    Constr0,
    BuiltinAdd,
}

#[derive(Clone, Debug, PartialEq)]
pub enum BType {
    Int,
    Bytes,
    Str,
    Unit,
    Bool,
    Data,
    G1,
    G2,
    List(Box<BType>),
    Pair(Box<BType>, Box<BType>),
}

pub fn btype_json(t: &BType) -> J {
    match t {
        BType::Int => json!("integer"),
        BType::Bytes => json!("bytestring"),
        BType::Str => json!("string"),
        BType::Unit => json!("unit"),
        BType::Bool => json!("bool"),
        BType::Data => json!("data"),
        BType::G1 => json!("g1"),
        BType::G2 => json!("g2"),
        BType::List(t) => json!({"list": btype_json(t)}),
        BType::Pair(a, b) => json!({"pair": [btype_json(a), btype_json(b)]}),
    }
}

pub fn btype_from_json(j: &J) -> BType {
    match j {
        J::String(s) => match s.as_str() {
            "integer" => BType::Int,
            "bytestring" => BType::Bytes,
            "string" => BType::Str,
            "unit" => BType::Unit,
            "bool" => BType::Bool,
            "data" => BType::Data,
            "g1" => BType::G1,
            "g2" => BType::G2,
            o => panic!("type {o}"),
        },
        J::Object(o) => {
            if let Some(t) = o.get("list") {
                BType::List(Box::new(btype_from_json(t)))
            } else {
                let p = o.get("pair").unwrap();
                BType::Pair(Box::new(btype_from_json(&p[0])), Box::new(btype_from_json(&p[1])))
            }
        }
        _ => panic!("type"),
    }
}

pub fn data_json(d: &RData) -> J {
    match d {
        RData::Constr(t, fs) => json!({"constr": [t, fs.iter().map(data_json).collect::<Vec<_>>()]}),
        RData::Map(kvs) => json!({"map": kvs.iter().map(|(k, v)| json!([data_json(k), data_json(v)])).collect::<Vec<_>>()}),
        RData::List(xs) => json!({"list": xs.iter().map(data_json).collect::<Vec<_>>()}),
        RData::I(i) => json!({"int": i.to_string()}),
        RData::B(b) => json!({"bytes": hex::encode(b)}),
    }
}

pub fn data_from_json(j: &J) -> RData {
    let o = j.as_object().expect("data object");
    if let Some(c) = o.get("constr") {
        RData::Constr(
            c[0].as_u64().unwrap(),
            c[1].as_array().unwrap().iter().map(data_from_json).collect(),
        )
    } else if let Some(m) = o.get("map") {
        RData::Map(
            m.as_array()
                .unwrap()
                .iter()
                .map(|kv| (data_from_json(&kv[0]), data_from_json(&kv[1])))
                .collect(),
        )
    } else if let Some(l) = o.get("list") {
        RData::List(l.as_array().unwrap().iter().map(data_from_json).collect())
    } else if let Some(i) = o.get("int") {
        RData::I(BigInt::from_str(i.as_str().unwrap()).unwrap())
    } else {
        RData::B(hex::decode(o.get("bytes").unwrap().as_str().unwrap()).unwrap())
    }
}

impl BVal {
    pub fn to_json(&self) -> J {
        match self {
            BVal::Int(i) => json!({"int": i.to_string()}),
            BVal::Bytes(b) => json!({"bytes": hex::encode(b)}),
            BVal::Str(s) => json!({"str": s}),
            BVal::Unit => json!({"unit": null}),
            BVal::Bool(b) => json!({"bool": b}),
            BVal::List(t, xs) => json!({"list": [btype_json(t), xs.iter().map(|x| x.to_json()).collect::<Vec<_>>()]}),
            BVal::Pair(a, b) => json!({"pair": [a.to_json(), b.to_json()]}),
            BVal::Data(d) => json!({"data": data_json(d)}),
            BVal::G1(b) => json!({"g1": hex::encode(b)}),
            BVal::G2(b) => json!({"g2": hex::encode(b)}),
            BVal::Lam => json!({"nonconst": "lam"}),
            BVal::Delay => json!({"nonconst": "delay"}),
            BVal::Constr0 => json!({"nonconst": "constr"}),
            BVal::BuiltinAdd => json!({"nonconst": "builtin"}),
        }
    }

    pub fn from_json(j: &J) -> BVal {
        let o = j.as_object().expect("value object");
        let (k, v) = o.iter().next().unwrap();
        match k.as_str() {
            "int" => BVal::Int(BigInt::from_str(v.as_str().unwrap()).unwrap()),
            "bytes" => BVal::Bytes(hex::decode(v.as_str().unwrap()).unwrap()),
            "str" => BVal::Str(v.as_str().unwrap().to_string()),
            "unit" => BVal::Unit,
            "bool" => BVal::Bool(v.as_bool().unwrap()),
            "list" => BVal::List(
                btype_from_json(&v[0]),
                v[1].as_array().unwrap().iter().map(BVal::from_json).collect(),
            ),
            "pair" => BVal::Pair(Box::new(BVal::from_json(&v[0])), Box::new(BVal::from_json(&v[1]))),
            "data" => BVal::Data(data_from_json(v)),
            "g1" => BVal::G1(hex::decode(v.as_str().unwrap()).unwrap()),
            "g2" => BVal::G2(hex::decode(v.as_str().unwrap()).unwrap()),
            "nonconst" => match v.as_str().unwrap() {
                "lam" => BVal::Lam,
                "delay" => BVal::Delay,
                "constr" => BVal::Constr0,
                _ => BVal::BuiltinAdd,
            },
            o => panic!("value kind {o}"),
        }
    }

    pub fn btype(&self) -> Option<BType> {
        Some(match self {
            BVal::Int(_) => BType::Int,
            BVal::Bytes(_) => BType::Bytes,
            BVal::Str(_) => BType::Str,
            BVal::Unit => BType::Unit,
            BVal::Bool(_) => BType::Bool,
            BVal::List(t, _) => BType::List(Box::new(t.clone())),
            BVal::Pair(a, b) => BType::Pair(Box::new(a.btype()?), Box::new(b.btype()?)),
            BVal::Data(_) => BType::Data,
            BVal::G1(_) => BType::G1,
            BVal::G2(_) => BType::G2,
            _ => return None,
        })
    }

    pub fn short(&self) -> String {
        let s = self.to_json().to_string();
        if s.len() > 70 { format!("{}…", &s[..70]) } else { s }
    }
}

pub fn to_impl_type(t: &BType) -> Type {
    match t {
        BType::Int => Type::Integer,
        BType::Bytes => Type::ByteString,
        BType::Str => Type::String,
        BType::Unit => Type::Unit,
        BType::Bool => Type::Bool,
        BType::Data => Type::Data,
        BType::G1 => Type::Bls12_381G1Element,
        BType::G2 => Type::Bls12_381G2Element,
        BType::List(t) => Type::List(Rc::new(to_impl_type(t))),
        BType::Pair(a, b) => Type::Pair(Rc::new(to_impl_type(a)), Rc::new(to_impl_type(b))),
    }
}

pub fn to_impl_const(v: &BVal) -> Option<Constant> {
    Some(match v {
        BVal::Int(i) => Constant::Integer(i.clone()),
        BVal::Bytes(b) => Constant::ByteString(b.clone()),
        BVal::Str(s) => Constant::String(s.clone()),
        BVal::Unit => Constant::Unit,
        BVal::Bool(b) => Constant::Bool(*b),
        BVal::List(t, xs) => Constant::ProtoList(
            to_impl_type(t),
            xs.iter().map(to_impl_const).collect::<Option<Vec<_>>>()?,
        ),
        BVal::Pair(a, b) => Constant::ProtoPair(
            to_impl_type(&a.btype()?),
            to_impl_type(&b.btype()?),
            Rc::new(to_impl_const(a)?),
            Rc::new(to_impl_const(b)?),
        ),
        BVal::Data(d) => Constant::Data(rterm::to_impl_data(d)),
        BVal::G1(b) => Constant::Bls12_381G1Element(Box::new(g1_uncompress(b)?)),
        BVal::G2(b) => Constant::Bls12_381G2Element(Box::new(g2_uncompress(b)?)),
        _ => return None,
    })
}

pub fn g1_uncompress(b: &[u8]) -> Option<blst::blst_p1> {
    if b.len() != 48 {
        return None;
    }
    let mut aff = blst::blst_p1_affine::default();
    let mut out = blst::blst_p1::default();
    unsafe {
        if blst::blst_p1_uncompress(&mut aff, b.as_ptr()) != blst::BLST_ERROR::BLST_SUCCESS {
            return None;
        }
        blst::blst_p1_from_affine(&mut out, &aff);
    }
    Some(out)
}

pub fn g2_uncompress(b: &[u8]) -> Option<blst::blst_p2> {
    if b.len() != 96 {
        return None;
    }
    let mut aff = blst::blst_p2_affine::default();
    let mut out = blst::blst_p2::default();
    unsafe {
        if blst::blst_p2_uncompress(&mut aff, b.as_ptr()) != blst::BLST_ERROR::BLST_SUCCESS {
            return None;
        }
        blst::blst_p2_from_affine(&mut out, &aff);
    }
    Some(out)
}

pub fn g1_compress(p: &blst::blst_p1) -> Vec<u8> {
    let mut out = [0u8; 48];
    unsafe { blst::blst_p1_compress(out.as_mut_ptr(), p) };
    out.to_vec()
}

pub fn g2_compress(p: &blst::blst_p2) -> Vec<u8> {
    let mut out = [0u8; 96];
    unsafe { blst::blst_p2_compress(out.as_mut_ptr(), p) };
    out.to_vec()
}

fn nd(i: usize) -> Rc<NamedDeBruijn> {
    Rc::new(NamedDeBruijn { text: "i".into(), index: DeBruijn::new(i) })
}

pub fn to_impl_term(v: &BVal) -> Term<NamedDeBruijn> {
    match v {
        BVal::Lam => Term::Lambda { parameter_name: nd(0), body: Rc::new(Term::Var(nd(1))) },
        BVal::Delay => Term::Delay(Rc::new(Term::Constant(Rc::new(Constant::Unit)))),
        BVal::Constr0 => Term::Constr { tag: 0, fields: vec![] },
        BVal::BuiltinAdd => Term::Builtin(uplc::builtins::DefaultFunction::AddInteger),
        c => Term::Constant(Rc::new(to_impl_const(c).expect("constant"))),
    }
}

/// Convert an implementation result constant back into a description.
pub fn from_impl_const(c: &Constant) -> BVal {
    match c {
        Constant::Integer(i) => BVal::Int(i.clone()),
        Constant::ByteString(b) => BVal::Bytes(b.clone()),
        Constant::String(s) => BVal::Str(s.clone()),
        Constant::Unit => BVal::Unit,
        Constant::Bool(b) => BVal::Bool(*b),
        Constant::ProtoList(t, xs) => BVal::List(from_impl_type(t), xs.iter().map(from_impl_const).collect()),
        Constant::ProtoPair(_, _, a, b) => BVal::Pair(Box::new(from_impl_const(a)), Box::new(from_impl_const(b))),
        Constant::Data(d) => BVal::Data(rterm::from_impl_data(d)),
        Constant::Bls12_381G1Element(p) => BVal::G1(g1_compress(p)),
        Constant::Bls12_381G2Element(p) => BVal::G2(g2_compress(p)),
        Constant::Bls12_381MlResult(_) => BVal::Str("<mlresult>".into()),
    }
}

pub fn from_impl_type(t: &Type) -> BType {
    match t {
        Type::Integer => BType::Int,
        Type::ByteString => BType::Bytes,
        Type::String => BType::Str,
        Type::Unit => BType::Unit,
        Type::Bool => BType::Bool,
        Type::Data => BType::Data,
        Type::Bls12_381G1Element => BType::G1,
        Type::Bls12_381G2Element => BType::G2,
        Type::Bls12_381MlResult => BType::Unit,
        Type::List(t) => BType::List(Box::new(from_impl_type(t))),
        Type::Pair(a, b) => BType::Pair(Box::new(from_impl_type(a)), Box::new(from_impl_type(b))),
    }
}

/// Apply builtin `f` (with its forces) to `args`.
pub fn application(f: uplc::builtins::DefaultFunction, forces: u32, args: &[BVal]) -> Term<NamedDeBruijn> {
    let mut t: Term<NamedDeBruijn> = Term::Builtin(f);
    for _ in 0..forces {
        t = Term::Force(Rc::new(t));
    }
    for a in args {
        t = Term::Apply { function: Rc::new(t), argument: Rc::new(to_impl_term(a)) };
    }
    t
}

pub fn g1_generator() -> Vec<u8> {
    let p = unsafe { *blst::blst_p1_generator() };
    g1_compress(&p)
}
pub fn g2_generator() -> Vec<u8> {
    let p = unsafe { *blst::blst_p2_generator() };
    g2_compress(&p)
}

#[allow(dead_code)]
pub fn plutus_data_of(d: &RData) -> PlutusData {
    rterm::to_impl_data(d)
}
