//! C05 – execution budgets are exact.
//!  (a) golden budgets of the V3 conformance corpus
//!  (b) accounting identity: cost = startup + sum(steps_k * stepcost_k) + sum(builtin costs),
//!      with step counts and builtin calls taken from the independent reference machine
//!  (c) batching independence and the success threshold
//!  (d) size-measure relations: equal sizes => equal cost; monotone across size buckets

use crate::bvals::{self, BVal};
use crate::common::*;
use num_bigint::BigInt;
use serde_json::json;
use std::collections::HashSet;
use std::rc::Rc;
use std::time::Duration;
use uplc::ast::{Constant, NamedDeBruijn, Program, Term};
use uplc::builtins::DefaultFunction as F;
use uplc::machine::cost_model::{CostModel, ExBudget, StepKind};
use uplc::machine::runtime::BuiltinSemantics;
use uplc::machine::value::Value;
use uplc::machine::{Error, Machine};
use uplc::Language;
use vcore::cek_ref::{self, Outcome, RValue, Variant};
use vcore::evid::{guarded, Run, Tier, Violation};
use vcore::par::par_indices;
use vcore::rterm::{self, Enumerator, RConst, RTerm};

fn semantics_of(v: Variant) -> BuiltinSemantics {
    match v {
        Variant::A => BuiltinSemantics::A,
        Variant::B => BuiltinSemantics::B,
        Variant::C => BuiltinSemantics::C,
        Variant::D => BuiltinSemantics::D,
        Variant::E => BuiltinSemantics::E,
    }
}

fn cost_model(v: Variant) -> CostModel {
    let (lang, pv) = v.selector();
    CostModel::default_for_language_and_protocol(&lang, pv)
}

fn machine(v: Variant, budget: ExBudget, slippage: u32) -> Machine {
    let (lang, pv) = v.selector();
    Machine::new_with_protocol(lang.clone(), pv, cost_model(v), budget, slippage)
}

fn rvalue_to_value(v: &RValue) -> Value {
    match v {
        RValue::Con(c) => Value::Con(Rc::new(rterm::to_impl_const(c))),
        // costing sees every non-constant as size 1; the shape does not matter
        _ => Value::Delay(Rc::new(Term::Error), Rc::new(vec![])),
    }
}

const STEP_KINDS: [StepKind; 9] = [
    StepKind::Constant,
    StepKind::Var,
    StepKind::Lambda,
    StepKind::Apply,
    StepKind::Delay,
    StepKind::Force,
    StepKind::Builtin,
    StepKind::Constr,
    StepKind::Case,
];

/// expected (cpu, mem) from the reference machine's statistics
fn expected_cost(stats: &cek_ref::Stats, v: Variant, cm: &CostModel) -> Result<(i128, i128), String> {
    let st = cm.machine_costs.get(StepKind::StartUp);
    let mut cpu = st.cpu as i128;
    let mut mem = st.mem as i128;
    for (i, k) in STEP_KINDS.iter().enumerate() {
        let c = cm.machine_costs.get(*k);
        cpu += c.cpu as i128 * stats.steps[i] as i128;
        mem += c.mem as i128 * stats.steps[i] as i128;
    }
    for (f, args) in &stats.calls {
        let vals: Vec<Value> = args.iter().map(rvalue_to_value).collect();
        let b = cm
            .builtin_costs
            .to_ex_budget(*f, &vals, semantics_of(v))
            .map_err(|e| format!("costing {:?} failed: {}", f, error_kind(&e)))?;
        cpu += b.cpu as i128;
        mem += b.mem as i128;
    }
    Ok((cpu, mem))
}

fn run_machine(t: &RTerm, v: Variant, budget: ExBudget, slippage: u32) -> Result<(Result<Term<NamedDeBruijn>, Error>, ExBudget), String> {
    let term = rterm::to_named_debruijn(t);
    guarded(move || {
        let mut m = machine(v, budget, slippage);
        let r = m.run(term);
        (r, m.ex_budget)
    })
}

#[derive(Default)]
struct Local {
    cases: u64,
    evals: u64,
    identity_checked: u64,
    threshold_checked: u64,
    builtin_calls: u64,
    distinct_costs: HashSet<(i64, i64)>,
    violations: Vec<Violation>,
    samples: Vec<String>,
}

const SLIPPAGES: [u32; 9] = [1, 2, 3, 5, 7, 199, 200, 201, 1_000_000];
const INF: i64 = i64::MAX / 4;

fn check_term(t: &RTerm, variants: &[Variant], case: serde_json::Value, full: bool, l: &mut Local) {
    l.cases += 1;
    for &v in variants {
        let r = cek_ref::eval(t, v, 1_000_000);
        if r.outcome != Outcome::Value {
            continue; // the statement quantifies over terminating (successful) programs
        }
        let cm = cost_model(v);
        let (ecpu, emem) = match expected_cost(&r.stats, v, &cm) {
            Ok(x) => x,
            Err(_) => continue, // costing itself rejects (ill-typed call that the reference let through cannot happen for successful runs)
        };
        if ecpu > INF as i128 / 2 || emem > INF as i128 / 2 {
            continue;
        }
        let (ecpu, emem) = (ecpu as i64, emem as i64);
        let big = ExBudget { cpu: INF, mem: INF };
        let shown = rterm::show(t);
        // (b) identity under the default slippage 200
        l.evals += 1;
        match run_machine(t, v, big, 200) {
            Err(p) => {
                l.violations.push(Violation { signature: "panic|machine".into(), what: format!("{shown}: {p}"), case: case.clone() });
                continue;
            }
            Ok((Err(e), _)) => {
                l.violations.push(Violation { signature: format!("fails-with-unlimited-budget|{}", error_kind(&e)), what: format!("variant {}: {shown} fails ({}) although the reference succeeds", v.name(), error_kind(&e)), case: case.clone() });
                continue;
            }
            Ok((Ok(_), rem)) => {
                let (cpu, mem) = (INF - rem.cpu, INF - rem.mem);
                l.identity_checked += 1;
                l.builtin_calls += r.stats.calls.len() as u64;
                l.distinct_costs.insert((cpu, mem));
                if (cpu, mem) != (ecpu, emem) {
                    l.violations.push(Violation {
                        signature: format!("accounting-identity|{}", if r.stats.calls.is_empty() { "steps-only" } else { "with-builtin-calls" }),
                        what: format!("variant {}: {shown} is charged cpu={cpu} mem={mem}; start-up + steps {:?} + {} builtin call(s) give cpu={ecpu} mem={emem}", v.name(), r.stats.steps, r.stats.calls.len()),
                        case: case.clone(),
                    });
                    continue;
                }
            }
        }
        // (c) batching independence
        let batch: &[u32] = if full { &SLIPPAGES } else { &[1, 201, 1_000_000] };
        for &s in batch {
            l.evals += 1;
            match run_machine(t, v, big, s) {
                Ok((Ok(_), rem)) => {
                    if (INF - rem.cpu, INF - rem.mem) != (ecpu, emem) {
                        l.violations.push(Violation { signature: "cost-depends-on-batching".into(), what: format!("variant {}: {shown} costs cpu={} mem={} with slippage {s} but cpu={ecpu} mem={emem} with slippage 200", v.name(), INF - rem.cpu, INF - rem.mem), case: case.clone() });
                    }
                }
                Ok((Err(e), _)) => l.violations.push(Violation { signature: "fails-under-some-batching".into(), what: format!("variant {}: {shown} fails ({}) with slippage {s}", v.name(), error_kind(&e)), case: case.clone() }),
                Err(p) => l.violations.push(Violation { signature: "panic|machine".into(), what: format!("{shown}: {p}"), case: case.clone() }),
            }
        }
        // (c) threshold
        let budgets: Vec<(&str, ExBudget, bool)> = vec![
            ("exact", ExBudget { cpu: ecpu, mem: emem }, true),
            ("cpu-1", ExBudget { cpu: ecpu - 1, mem: emem }, false),
            ("mem-1", ExBudget { cpu: ecpu, mem: emem - 1 }, false),
            ("plus-1", ExBudget { cpu: ecpu + 1, mem: emem + 1 }, true),
            ("zero", ExBudget { cpu: 0, mem: 0 }, false),
            ("cpu-exact-mem-inf", ExBudget { cpu: ecpu, mem: INF }, true),
            ("mem-exact-cpu-inf", ExBudget { cpu: INF, mem: emem }, true),
        ];
        let slips: &[u32] = if full { &SLIPPAGES } else { &[1, 200] };
        for (bname, b, should_succeed) in &budgets {
            for &s in slips {
                l.evals += 1;
                l.threshold_checked += 1;
                match run_machine(t, v, *b, s) {
                    Ok((Ok(_), rem)) => {
                        if !*should_succeed {
                            l.violations.push(Violation { signature: format!("succeeds-over-budget|{bname}"), what: format!("variant {}: {shown} (cost cpu={ecpu} mem={emem}) succeeds with budget {bname} cpu={} mem={} (slippage {s}); remaining cpu={} mem={}", v.name(), b.cpu, b.mem, rem.cpu, rem.mem), case: case.clone() });
                        } else if rem.cpu < 0 || rem.mem < 0 {
                            l.violations.push(Violation { signature: "negative-remaining-budget".into(), what: format!("variant {}: {shown} succeeds with remaining cpu={} mem={}", v.name(), rem.cpu, rem.mem), case: case.clone() });
                        } else if (b.cpu - rem.cpu, b.mem - rem.mem) != (ecpu, emem) {
                            l.violations.push(Violation { signature: "cost-depends-on-budget".into(), what: format!("variant {}: {shown} charged differently under budget {bname}", v.name()), case: case.clone() });
                        }
                    }
                    Ok((Err(e), _)) => {
                        if *should_succeed {
                            l.violations.push(Violation { signature: format!("fails-within-budget|{bname}"), what: format!("variant {}: {shown} (cost cpu={ecpu} mem={emem}) fails with {} under budget {bname} cpu={} mem={} (slippage {s})", v.name(), error_kind(&e), b.cpu, b.mem), case: case.clone() });
                        } else if !matches!(e, Error::OutOfExError(_)) {
                            l.violations.push(Violation { signature: "over-budget-not-reported-as-budget-error".into(), what: format!("variant {}: {shown} under budget {bname} fails with {} instead of OutOfExError", v.name(), error_kind(&e)), case: case.clone() });
                        }
                    }
                    Err(p) => l.violations.push(Violation { signature: "panic|machine".into(), what: format!("{shown}: {p}"), case: case.clone() }),
                }
            }
        }
    }
}

/// id^n(1): 3n+1 machine steps – straddles the slippage boundaries 200 / 400
fn long_chain(n: usize) -> RTerm {
    let mut t = RTerm::Con(Rc::new(RConst::int(1)));
    for _ in 0..n {
        t = RTerm::App(Rc::new(RTerm::Lam(Rc::new(RTerm::Var(1)))), Rc::new(t));
    }
    t
}

// -------------------------------------------------------------------------------------
// (a) goldens

fn goldens(run: &mut Run) {
    let root = "/repo/crates/uplc/test_data/conformance/v3";
    let mut files = vec![];
    let mut stack = vec![std::path::PathBuf::from(root)];
    while let Some(d) = stack.pop() {
        let Ok(rd) = std::fs::read_dir(&d) else { continue };
        for e in rd.flatten() {
            let p = e.path();
            if p.is_dir() {
                stack.push(p);
            } else if p.extension().and_then(|x| x.to_str()) == Some("uplc") {
                files.push(p);
            }
        }
    }
    files.sort();
    let (mut n, mut compared, mut skipped) = (0u64, 0u64, 0u64);
    for f in &files {
        n += 1;
        let exp = f.with_extension("uplc.budget.expected");
        let Ok(exp_txt) = std::fs::read_to_string(&exp) else { skipped += 1; continue };
        let nums: Vec<i64> = exp_txt
            .split(|c: char| !c.is_ascii_digit())
            .filter(|s| !s.is_empty())
            .filter_map(|s| s.parse().ok())
            .collect();
        if nums.len() != 2 || !exp_txt.contains("cpu") {
            skipped += 1; // "parse error" / "evaluation failure"
            continue;
        }
        let (ecpu, emem) = (nums[0], nums[1]);
        let code = std::fs::read_to_string(f).unwrap_or_default();
        let name = f.strip_prefix(root).unwrap().display().to_string();
        let case = json!({"engine":"c05-golden","file":name});
        let got = guarded(move || {
            let p = uplc::parser::program_with_canonical_value_literals(&code).map_err(|e| e.to_string())?;
            let p: Program<NamedDeBruijn> = p.try_into().map_err(|_| "free variable".to_string())?;
            let r = p.eval_version_with_protocol(ExBudget { cpu: INF, mem: INF }, &Language::PlutusV3, 11);
            match &r.result {
                Ok(_) => Ok(r.cost()),
                Err(e) => Err(format!("evaluation failed: {}", error_kind(e))),
            }
        });
        match got {
            Ok(Ok(c)) => {
                compared += 1;
                if (c.cpu, c.mem) != (ecpu, emem) {
                    run.violation(Violation { signature: format!("golden-budget|{}", name.split('/').nth(2).unwrap_or("?")), what: format!("{name}: charged cpu={} mem={}, the conformance golden says cpu={ecpu} mem={emem}", c.cpu, c.mem), case });
                }
            }
            Ok(Err(e)) => run.violation(Violation { signature: "golden-program-does-not-evaluate".into(), what: format!("{name}: {e} but a budget golden exists"), case }),
            Err(p) => run.violation(Violation { signature: "panic|golden".into(), what: format!("{name}: {p}"), case }),
        }
    }
    run.set("golden_programs_found", n);
    run.set("golden_budgets_compared", compared);
    run.set("golden_without_budget", skipped);
    if compared < 500 {
        run.machinery_error(format!("only {compared} golden budgets compared (expected > 600): corpus missing?"));
    }
}


// -------------------------------------------------------------------------------------
// (e) the parameter vector is bound to the machine's step prices by *name*
//
// Every in-tree default has the same price for every step kind, so a cost model that reads a
// step's price from the wrong position of the ledger's parameter vector is invisible to
// (a)-(d).  Here the vector gets pairwise distinct prices at the positions the ledger's
// (alphabetical) parameter order assigns to cekApplyCost .. cekVarCost, the cost model is
// built through the public `initialize_cost_model_with_protocol`, and the identity is
// re-checked against the harness's own name -> price table.

/// (step-kind index in STEP_KINDS / 9 = startup, cpu position, mem position) by the
/// ledger's alphabetical parameter order; constr / case live in the V3-only tail.
fn step_price_positions(v3_tail: Option<usize>) -> Vec<(usize, usize, usize)> {
    // cekApplyCost(17,18) cekBuiltinCost(19,20) cekConstCost(21,22) cekDelayCost(23,24)
    // cekForceCost(25,26) cekLamCost(27,28) cekStartupCost(29,30) cekVarCost(31,32)
    let mut v = vec![(3, 17, 18), (6, 19, 20), (0, 21, 22), (4, 23, 24), (5, 25, 26), (2, 27, 28), (9, 29, 30), (1, 31, 32)];
    if let Some(t) = v3_tail {
        // the V3 tail holds cekConstrCost and cekCaseCost; which of the two comes first could
        // not be confirmed offline (the tail is not alphabetical), so both get the *same*
        // price here (see `distinct_step_prices`): a swap between these two is not observable
        // by this check, any other mis-binding is.
        v.push((7, t, t + 1));
        v.push((8, t + 2, t + 3));
    }
    v
}

/// The in-tree default parameter vector of a language (only V1's is public, so all three
/// are read from the source file: any vector of the right length and plausible magnitudes
/// serves, the step prices are overwritten below).
fn default_vector(name: &str) -> Option<Vec<i64>> {
    let src = std::fs::read_to_string("/repo/crates/uplc/src/machine/cost_model.rs").ok()?;
    let start = src.find(&format!("const {name}: [i64;"))?;
    let open = start + src[start..].find("= [")? + 3;
    let close = open + src[open..].find("];")?;
    let v: Vec<i64> = src[open..close].split(',').filter_map(|x| x.trim().parse().ok()).collect();
    (v.len() > 150).then_some(v)
}

fn distinct_step_prices(run: &mut Run, tier: Tier) {
    use uplc::machine::cost_model::initialize_cost_model_with_protocol;
    let primes_cpu: [i64; 10] = [1_000_003, 1_000_033, 1_000_037, 1_000_039, 1_000_081, 1_000_099, 1_000_117, 1_000_121, 1_000_133, 1_000_151];
    let mut primes_mem: [i64; 10] = [101, 103, 107, 109, 113, 127, 131, 137, 139, 149];
    let mut primes_cpu = primes_cpu;
    primes_cpu[8] = primes_cpu[7];
    primes_mem[8] = primes_mem[7];
    let max = if tier == Tier::Quick { 4 } else { 5 };
    let mut en = Enumerator::new(c03_alphabet(0, false));
    let total = en.total(max);
    let mut checked = 0u64;
    let mut kinds_seen = [0u64; 9];
    for (lang, pv, variant, defaults) in [
        (Language::PlutusV1, 10u16, Variant::B, default_vector("DEFAULT_V1")),
        (Language::PlutusV2, 10u16, Variant::B, default_vector("DEFAULT_V2")),
        (Language::PlutusV3, 10u16, Variant::C, default_vector("DEFAULT_V3")),
    ] {
        let Some(defaults) = defaults else {
            run.machinery_error("could not read the default parameter vectors from crates/uplc/src/machine/cost_model.rs");
            return;
        };
        // the V3-only tail is located by value: the only place after the first block where the
        // default vector repeats (16000, 100, 16000, 100)
        let tail = (33..defaults.len().saturating_sub(3)).find(|&i| defaults[i..i + 4] == [16000, 100, 16000, 100]);
        let has_tail = matches!(lang, Language::PlutusV3);
        let mut vec = defaults.clone();
        let mut price = [(0i64, 0i64); 10];
        for (kind, cpos, mpos) in step_price_positions(if has_tail { tail } else { None }) {
            vec[cpos] = primes_cpu[kind];
            vec[mpos] = primes_mem[kind];
            price[kind] = (primes_cpu[kind], primes_mem[kind]);
        }
        let lname = format!("{:?}", lang);
        for idx in 0..total {
            let t = en.unrank_global(max, idx);
            let r = cek_ref::eval(&t, variant, 100_000);
            if r.outcome != Outcome::Value {
                continue;
            }
            if !has_tail && (r.stats.steps[7] > 0 || r.stats.steps[8] > 0) {
                continue; // constr/case prices are not part of the V1/V2 vectors
            }
            let cm = initialize_cost_model_with_protocol(&lang, pv, &vec);
            let mut cpu = price[9].0 as i128;
            let mut mem = price[9].1 as i128;
            for k in 0..9 {
                cpu += price[k].0 as i128 * r.stats.steps[k] as i128;
                mem += price[k].1 as i128 * r.stats.steps[k] as i128;
                if r.stats.steps[k] > 0 {
                    kinds_seen[k] += 1;
                }
            }
            let mut ok = true;
            for (f, args) in &r.stats.calls {
                let vals: Vec<Value> = args.iter().map(rvalue_to_value).collect();
                match cm.builtin_costs.to_ex_budget(*f, &vals, semantics_of(variant)) {
                    Ok(b) => {
                        cpu += b.cpu as i128;
                        mem += b.mem as i128;
                    }
                    Err(_) => ok = false,
                }
            }
            if !ok {
                continue;
            }
            let term = rterm::to_named_debruijn(&t);
            let l2 = lang.clone();
            let got = guarded(move || {
                let mut m = Machine::new_with_protocol(l2, pv, cm, ExBudget { cpu: INF, mem: INF }, 200);
                let r = m.run(term);
                (r.is_ok(), INF - m.ex_budget.cpu, INF - m.ex_budget.mem)
            });
            checked += 1;
            match got {
                Ok((true, c, m)) if (c as i128, m as i128) == (cpu, mem) => {}
                Ok((true, c, m)) => {
                    // which step kind explains the difference?
                    let dc = c as i128 - cpu;
                    let culprit = (0..9).find(|&k| r.stats.steps[k] > 0 && (0..10).any(|j| j != k && dc == (price[j].0 - price[k].0) as i128 * r.stats.steps[k] as i128)).map(|k| cek_ref::STEP_KINDS[k]).unwrap_or("?");
                    run.violation(Violation {
                        signature: format!("step-price-not-taken-from-its-parameter|{lname}|{culprit}"),
                        what: format!("{lname}: with pairwise distinct step prices in the parameter vector, {} is charged cpu={c} mem={m}; start-up + steps {:?} at their named prices + builtin calls give cpu={cpu} mem={mem}", rterm::show(&t), r.stats.steps),
                        case: json!({"engine":"c05-prices","language":lname,"index":idx,"max_size":max}),
                    });
                }
                Ok((false, ..)) => run.violation(Violation { signature: format!("fails-with-unlimited-budget|prices|{lname}"), what: format!("{lname}: {} fails under the perturbed cost model although the reference succeeds", rterm::show(&t)), case: json!({"engine":"c05-prices","language":lname,"index":idx,"max_size":max}) }),
                Err(p) => run.violation(Violation { signature: "panic|machine".into(), what: format!("{}: {p}", rterm::show(&t)), case: json!({"engine":"c05-prices","language":lname,"index":idx,"max_size":max}) }),
            }
        }
    }
    run.set("distinct_price_identities_checked", checked);
    run.set("distinct_price_terms_per_step_kind", json!(cek_ref::STEP_KINDS.iter().zip(kinds_seen.iter()).map(|(k, n)| json!({*k: n})).collect::<Vec<_>>()));
    if checked < 1000 || kinds_seen.iter().any(|n| *n == 0) {
        run.machinery_error("vacuous: the distinct-price check did not exercise every step kind");
    }
}

// -------------------------------------------------------------------------------------
// (d) size measures

fn spec_size(v: &BVal) -> Option<i64> {
    use num_traits::{Signed, Zero};
    match v {
        BVal::Int(i) => Some(if i.is_zero() { 1 } else { (i.abs().bits() as i64 - 1) / 64 + 1 }),
        BVal::Bytes(b) => Some(if b.is_empty() { 1 } else { (b.len() as i64 - 1) / 8 + 1 }),
        _ => None,
    }
}

fn builtin_cost(f: F, args: &[BVal], v: Variant) -> Option<(i64, i64)> {
    let term = bvals::application(f, f.force_count(), args);
    let run1 = |t: Term<NamedDeBruijn>| {
        guarded(move || {
            let mut m = machine(v, ExBudget { cpu: INF, mem: INF }, 1);
            let r = m.run(t);
            (r.is_ok(), INF - m.ex_budget.cpu, INF - m.ex_budget.mem)
        })
        .ok()
    };
    let (ok, c, m) = run1(term)?;
    if !ok {
        return None;
    }
    // subtract the machine steps: builtin + forces + (apply + constant) per argument
    let cm = cost_model(v);
    let step = cm.machine_costs.get(StepKind::Apply);
    let st = cm.machine_costs.get(StepKind::StartUp);
    let nsteps = 1 + f.force_count() as i64 + 2 * args.len() as i64;
    Some((c - st.cpu - nsteps * step.cpu, m - st.mem - nsteps * step.mem))
}

fn size_relations(run: &mut Run) {
    let two = |n: u32| BigInt::from(1) << n;
    let ints: Vec<BVal> = vec![
        BVal::Int(0.into()),
        BVal::Int(1.into()),
        BVal::Int((-1).into()),
        BVal::Int(two(63)),
        BVal::Int(two(64) - 1),
        BVal::Int(BigInt::from(1) - two(64)),
        BVal::Int(two(64)),
        BVal::Int(two(64) + 1),
        BVal::Int(two(127)),
        BVal::Int(two(128) - 1),
        BVal::Int(two(128)),
        BVal::Int(-two(128)),
        BVal::Int(two(191)),
        BVal::Int(two(192)),
    ];
    let bytes: Vec<BVal> = [0usize, 1, 7, 8, 9, 15, 16, 17, 63, 64, 65, 8191, 8192, 8193]
        .iter()
        .flat_map(|n| vec![BVal::Bytes(vec![0u8; *n]), BVal::Bytes(vec![0xffu8; *n])])
        .collect();
    // (builtin, argument universe, monotone in the sizes?)
    let fams: Vec<(F, &Vec<BVal>, bool)> = vec![
        (F::AddInteger, &ints, true),
        (F::SubtractInteger, &ints, true),
        (F::MultiplyInteger, &ints, true),
        (F::EqualsInteger, &ints, true),
        (F::LessThanInteger, &ints, true),
        (F::LessThanEqualsInteger, &ints, true),
        (F::AppendByteString, &bytes, true),
        (F::EqualsByteString, &bytes, false),
        (F::LessThanByteString, &bytes, true),
        (F::LessThanEqualsByteString, &bytes, true),
    ];
    let un: Vec<(F, &Vec<BVal>)> = vec![
        (F::Sha2_256, &bytes),
        (F::Sha3_256, &bytes),
        (F::Blake2b_256, &bytes),
        (F::Blake2b_224, &bytes),
        (F::Keccak_256, &bytes),
        (F::Ripemd_160, &bytes),
        (F::LengthOfByteString, &bytes),
        (F::ComplementByteString, &bytes),
        (F::CountSetBits, &bytes),
        (F::FindFirstSetBit, &bytes),
        (F::IData, &ints),
        (F::BData, &bytes),
    ];
    let mut pairs = 0u64;
    let mut buckets = 0u64;
    for v in Variant::all() {
        for (f, univ, monotone) in &fams {
            // cost as a function of (size a, size b) must be well defined and, for the
            // monotone family, non-decreasing in each coordinate
            let mut table: std::collections::BTreeMap<(i64, i64), (i64, i64, String)> = Default::default();
            for a in univ.iter() {
                for b in univ.iter() {
                    let Some(c) = builtin_cost(*f, &[a.clone(), b.clone()], v) else { continue };
                    pairs += 1;
                    let key = (spec_size(a).unwrap(), spec_size(b).unwrap());
                    let shown = format!("[{:?} {} {}]", f, a.short(), b.short());
                    if let Some((pc, pm, pshown)) = table.get(&key) {
                        if (*pc, *pm) != c {
                            run.violation(Violation {
                                signature: format!("cost-not-a-function-of-size|{:?}", f),
                                what: format!("variant {}: {shown} costs cpu={} mem={} but {pshown}, whose arguments have the same sizes {:?}, costs cpu={pc} mem={pm}", v.name(), c.0, c.1, key),
                                case: json!({"engine":"c05-size","builtin":format!("{:?}",f),"args":[a.to_json(), b.to_json()],"variant":v.name()}),
                            });
                        }
                    } else {
                        table.insert(key, (c.0, c.1, shown));
                    }
                }
            }
            buckets += table.len() as u64;
            if *monotone {
                for ((sa, sb), (c, m, shown)) in &table {
                    for ((ta, tb), (c2, m2, shown2)) in &table {
                        if ta >= sa && tb >= sb && (c2 < c || m2 < m) {
                            run.violation(Violation {
                                signature: format!("cost-decreases-with-size|{:?}", f),
                                what: format!("variant {}: {shown2} (sizes {ta},{tb}) is cheaper (cpu={c2} mem={m2}) than {shown} (sizes {sa},{sb}; cpu={c} mem={m})", v.name()),
                                case: json!({"engine":"c05-size","builtin":format!("{:?}",f),"variant":v.name()}),
                            });
                        }
                    }
                }
            }
        }
        for (f, univ) in &un {
            let mut table: std::collections::BTreeMap<i64, (i64, i64, String)> = Default::default();
            for a in univ.iter() {
                let Some(c) = builtin_cost(*f, &[a.clone()], v) else { continue };
                pairs += 1;
                let key = spec_size(a).unwrap();
                let shown = format!("[{:?} {}]", f, a.short());
                if let Some((pc, pm, pshown)) = table.get(&key) {
                    if (*pc, *pm) != c {
                        run.violation(Violation {
                            signature: format!("cost-not-a-function-of-size|{:?}", f),
                            what: format!("variant {}: {shown} costs cpu={} mem={} but {pshown} of the same size {key} costs cpu={pc} mem={pm}", v.name(), c.0, c.1),
                            case: json!({"engine":"c05-size","builtin":format!("{:?}",f),"args":[a.to_json()],"variant":v.name()}),
                        });
                    }
                } else {
                    table.insert(key, (c.0, c.1, shown));
                }
            }
            buckets += table.len() as u64;
            let mut prev: Option<(i64, i64)> = None;
            for (_, (c, m, shown)) in &table {
                if let Some((pc, pm)) = prev {
                    if *c < pc || *m < pm {
                        run.violation(Violation {
                            signature: format!("cost-decreases-with-size|{:?}", f),
                            what: format!("variant {}: {shown} is cheaper than a smaller argument", v.name()),
                            case: json!({"engine":"c05-size","builtin":format!("{:?}",f),"variant":v.name()}),
                        });
                    }
                }
                prev = Some((*c, *m));
            }
        }
    }
    run.set("size_relation_applications", pairs);
    run.set("size_buckets_observed", buckets);
    if buckets < 200 {
        run.machinery_error("vacuous: too few size buckets in (d)");
    }
}

pub fn run(tier: Tier, replay: Option<String>) -> i32 {
    if let Some(path) = replay {
        return replay_case(&path);
    }
    let mut run = Run::new("C05", tier);
    goldens(&mut run);
    size_relations(&mut run);
    distinct_step_prices(&mut run, tier);

    // (b)+(c) over the C03 term space
    let max_size = match tier {
        Tier::Quick => 5,
        Tier::Thorough => 6,
    };
    let total = Enumerator::new(c03_alphabet(0, false)).total(max_size);
    let cap = Some(match tier {
        Tier::Quick => Duration::from_secs(45),
        Tier::Thorough => Duration::from_secs(1500),
    });
    let all = Variant::all();
    let out = par_indices(
        total,
        512,
        cap,
        |_| (Enumerator::new(c03_alphabet(0, false)), Local::default()),
        |(en, l), idx| {
            let t = en.unrank_global(max_size, idx);
            // all variants and all slippages for the smaller terms; two variants beyond
            let small = t.size() <= 3;
            let vs: &[Variant] = if small { &all } else { &[Variant::B, Variant::E] };
            check_term(&t, vs, json!({"engine":"c05-term","max_size":max_size,"index":idx,"term":rterm::show(&t)}), small, l);
            if l.samples.len() < 2 && idx % 20011 == 13 {
                l.samples.push(rterm::show(&t));
            }
        },
        |(_, l)| l,
    );
    let mut tot = Local::default();
    for l in out.results {
        tot.cases += l.cases;
        tot.evals += l.evals;
        tot.identity_checked += l.identity_checked;
        tot.threshold_checked += l.threshold_checked;
        tot.builtin_calls += l.builtin_calls;
        tot.distinct_costs.extend(l.distinct_costs);
        run.violations_extend(l.violations);
        for s in l.samples {
            run.sample(s);
        }
    }
    if out.capped {
        run.cap_hit(&format!("wall cap: {} of {} terms", out.done, total));
    }
    // saturated applications of every builtin the reference implements, over the constant
    // alphabet (this is where builtin costs enter the identity)
    let mut l = Local::default();
    {
        use strum::IntoEnumIterator;
        let mut consts: Vec<Rc<RConst>> = c03_alphabet(0, false).consts;
        consts.push(Rc::new(RConst::Integer(BigInt::from(1) << 70u32)));
        consts.push(Rc::new(RConst::ByteString(vec![1; 9])));
        consts.push(Rc::new(RConst::Data(rterm::RData::I(5.into()))));
        consts.push(Rc::new(RConst::Data(rterm::RData::B(vec![1, 2]))));
        for f in F::iter().filter(|f| cek_ref::supported(*f)) {
            let (q, a) = cek_ref::spec_signature(f).unwrap();
            let n = consts.len();
            let tuples = (n as u64).pow(a.min(3) as u32);
            for mut k in 0..tuples {
                let mut t = RTerm::Builtin(f);
                for _ in 0..q {
                    t = RTerm::Force(Rc::new(t));
                }
                for j in 0..a {
                    let c = if j < 3 { let c = consts[(k % n as u64) as usize].clone(); k /= n as u64; c } else { consts[0].clone() };
                    t = RTerm::App(Rc::new(t), Rc::new(RTerm::Con(c)));
                }
                check_term(&t, &all, json!({"engine":"c05-app","term":rterm::show(&t)}), false, &mut l);
            }
        }
    }
    // long chains: mid-run flushes and a final partial flush
    for n in [1usize, 66, 67, 133, 134, 199, 200, 201, 333] {
        let t = long_chain(n);
        check_term(&t, &all, json!({"engine":"c05-chain","n":n}), true, &mut l);
    }
    tot.cases += l.cases;
    tot.evals += l.evals;
    tot.identity_checked += l.identity_checked;
    tot.threshold_checked += l.threshold_checked;
    tot.builtin_calls += l.builtin_calls;
    tot.distinct_costs.extend(l.distinct_costs);
    run.violations_extend(l.violations);

    run.set("terms", tot.cases);
    run.set("terms_max_size", max_size as u64);
    run.set("accounting_identities_checked", tot.identity_checked);
    run.set("threshold_cases_checked", tot.threshold_checked);
    run.set("saturated_builtin_calls_in_identities", tot.builtin_calls);
    if tot.builtin_calls == 0 {
        run.machinery_error("vacuous: no builtin call inside any accounting identity");
    }
    run.set("states", tot.cases);
    run.set("transitions", tot.evals);
    run.set("traces_validated_against_impl", tot.identity_checked);
    run.set("evaluations", tot.evals);
    run.set("distinct_nontrivial", tot.distinct_costs.len() as u64);
    run.set("rule", "every closed term up to the size bound over the C03 alphabet that terminates successfully (per the reference machine) x variants x 9 slippages x 7 budgets around its exact cost; identity chains of 1..333 applications; the 655+ V3 conformance budget goldens; size-bucket tables for 22 builtins; distinct_nontrivial = distinct (cpu,mem) costs observed");
    run.assume("builtin costing functions (BuiltinCosts::to_ex_budget) are trusted inside the accounting identity; their coefficients are pinned only by the V3 conformance goldens and their size measures by sub-check (d)");
    run.assume("the V2 conformance budget goldens are excluded: no cost-parameter vector present in the repository reproduces them");
    run.sample(json!({"chain": "id^200(1)", "steps": 601}));
    if tot.identity_checked < 1000 || tot.distinct_costs.len() < 12 {
        run.machinery_error("vacuous: too few successful terms / distinct costs");
    }
    run.finish()
}

fn replay_case(path: &str) -> i32 {
    let doc: serde_json::Value = serde_json::from_str(&std::fs::read_to_string(path).expect("read")).expect("json");
    let case = &doc["case"];
    let mut l = Local::default();
    match case["engine"].as_str() {
        Some("c05-term") => {
            let t = Enumerator::new(c03_alphabet(0, false)).unrank_global(case["max_size"].as_u64().unwrap() as usize, case["index"].as_u64().unwrap());
            check_term(&t, &Variant::all(), case.clone(), true, &mut l);
        }
        Some("c05-chain") => check_term(&long_chain(case["n"].as_u64().unwrap() as usize), &Variant::all(), case.clone(), true, &mut l),
        _ => {
            let mut run = Run::new("C05", Tier::Quick);
            goldens(&mut run);
            size_relations(&mut run);
            return run.finish();
        }
    }
    if l.violations.is_empty() {
        println!("no violation on replay");
        0
    } else {
        for v in &l.violations {
            println!("VIOLATION property=C05 replay={path}\n  {}", v.what);
        }
        1
    }
}

#[allow(dead_code)]
fn unused(_: Constant) {}
