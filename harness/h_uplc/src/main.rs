mod c03;
mod common;

use vcore::evid::{parse_args, silence_panics};

fn main() {
    let (prop, tier, replay) = parse_args();
    silence_panics();
    let code = match prop.as_str() {
        "selftest" => match vcore::cek_ref::self_test() {
            Ok(()) => {
                println!("selftest ok");
                0
            }
            Err(e) => {
                println!("selftest FAILED: {e}");
                2
            }
        },
        "C03" => c03::run(tier, replay),
        other => {
            eprintln!("h_uplc: unknown property {other}");
            2
        }
    };
    std::process::exit(code);
}
