use vcore::evid::{parse_args, silence_panics};

fn main() {
    let (prop, tier, replay) = parse_args();
    silence_panics();
    let code = h_uplc::dispatch(&prop, tier, replay);
    std::process::exit(code);
}
