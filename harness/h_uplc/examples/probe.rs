use uplc::ast::*;
use uplc::builtins::DefaultFunction as F;
use pallas_primitives::conway::{PlutusData, Constr, BigInt as PB};
use pallas_codec::utils::MaybeIndefArray;
use std::rc::Rc;
fn eqd(a: PlutusData, b: PlutusData) -> String {
    let t: Term<NamedDeBruijn> = Term::Builtin(F::EqualsData).apply(Term::Constant(Rc::new(Constant::Data(a)))).apply(Term::Constant(Rc::new(Constant::Data(b))));
    let p = Program { version: (1,1,0), term: t };
    format!("{:?}", p.eval(uplc::machine::cost_model::ExBudget::max()).result.map(|t| t.to_pretty()))
}
fn main() {
    let one = || PlutusData::BigInt(PB::Int(1.into()));
    let c = |tag, any, f| PlutusData::Constr(Constr { tag, any_constructor: any, fields: f });
    println!("def vs indef fields: {}", eqd(c(121, None, MaybeIndefArray::Def(vec![one()])), c(121, None, MaybeIndefArray::Indef(vec![one()]))));
    println!("tag121 vs 102/0: {}", eqd(c(121, None, MaybeIndefArray::Def(vec![])), c(102, Some(0), MaybeIndefArray::Def(vec![]))));
    println!("list def vs indef: {}", eqd(PlutusData::Array(MaybeIndefArray::Def(vec![one()])), PlutusData::Array(MaybeIndefArray::Indef(vec![one()]))));
    println!("BigNInt([5]) (-6) vs Int(-6): {}", eqd(PlutusData::BigInt(PB::BigNInt(vec![5].into())), PlutusData::BigInt(PB::Int((-6).into()))));
    println!("BigUInt([5]) vs Int(5): {}", eqd(PlutusData::BigInt(PB::BigUInt(vec![5].into())), PlutusData::BigInt(PB::Int(5.into()))));
}
