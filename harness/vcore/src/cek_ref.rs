//! Reference CEK machine, written from the Plutus Core specification (CEK machine figures:
//! compute / return transitions, builtin application with force/argument discipline,
//! constr / case, case on built-in constants), independent of `uplc::machine`:
//! own term type, own environment (persistent list), spec-style discharge that substitutes
//! through *all* term constructors.
//!
//! Also records what C05 needs: the number of compute steps per step kind and the list of
//! saturated builtin calls with their argument values.

use crate::rterm::{RConst, RData, RTerm, RType};
use num_bigint::BigInt;
use num_integer::Integer;
use num_traits::{Signed, ToPrimitive, Zero};
use std::rc::Rc;
use uplc::builtins::DefaultFunction as F;

#[derive(Clone, Debug)]
pub enum RValue {
    Con(Rc<RConst>),
    Delay(Rc<RTerm>, Env),
    Lam(Rc<RTerm>, Env),
    Constr(usize, Vec<RValue>),
    Builtin(F, u32, Vec<RValue>),
}

#[derive(Clone, Debug)]
pub struct EnvNode {
    val: RValue,
    next: Env,
}
pub type Env = Option<Rc<EnvNode>>;

fn env_push(env: &Env, v: RValue) -> Env {
    Some(Rc::new(EnvNode { val: v, next: env.clone() }))
}

fn env_lookup(env: &Env, index: usize) -> Option<RValue> {
    if index == 0 {
        return None;
    }
    let mut cur = env;
    let mut i = index;
    loop {
        match cur {
            None => return None,
            Some(n) => {
                if i == 1 {
                    return Some(n.val.clone());
                }
                i -= 1;
                cur = &n.next;
            }
        }
    }
}

enum Frame {
    Force,
    /// [_ (M, rho)]
    AppArgTerm(Rc<RTerm>, Env),
    /// [_ V]  (used when case pushes constructor fields)
    AppArgVal(RValue),
    /// [V _]
    AppFun(RValue),
    Constr(usize, Vec<RValue>, Vec<RTerm>, usize, Env),
    Case(Vec<RTerm>, Env),
}

#[derive(Clone, Copy, Debug, PartialEq, Eq)]
pub enum Variant {
    A,
    B,
    C,
    D,
    E,
}

impl Variant {
    pub fn all() -> [Variant; 5] {
        [Variant::A, Variant::B, Variant::C, Variant::D, Variant::E]
    }
    pub fn name(&self) -> &'static str {
        match self {
            Variant::A => "A",
            Variant::B => "B",
            Variant::C => "C",
            Variant::D => "D",
            Variant::E => "E",
        }
    }
    /// the (language, protocol major version) pair a caller uses to select the variant
    pub fn selector(&self) -> (uplc::Language, u16) {
        match self {
            Variant::A => (uplc::Language::PlutusV1, 8),
            Variant::B => (uplc::Language::PlutusV2, 10),
            Variant::C => (uplc::Language::PlutusV3, 10),
            Variant::D => (uplc::Language::PlutusV2, 11),
            Variant::E => (uplc::Language::PlutusV3, 11),
        }
    }
    pub fn case_on_constants(&self) -> bool {
        matches!(self, Variant::E)
    }
}

pub const STEP_KINDS: [&str; 9] = [
    "const", "var", "lam", "apply", "delay", "force", "builtin", "constr", "case",
];

#[derive(Clone, Debug, Default)]
pub struct Stats {
    /// compute steps by kind, in the order of STEP_KINDS
    pub steps: [u64; 9],
    /// saturated builtin calls, in order: (function, arguments)
    pub calls: Vec<(F, Vec<RValue>)>,
    /// which return/compute rules fired (vacuity indicator), indexed by RULES
    pub rules: [u64; 16],
    pub traces: Vec<String>,
}

pub const RULES: [&str; 16] = [
    "force-delay",
    "force-builtin",
    "apply-lambda",
    "apply-builtin-partial",
    "apply-builtin-saturated",
    "constr-field",
    "constr-done",
    "case-constr",
    "case-const",
    "var-lookup",
    "error-term",
    "stuck-force",
    "stuck-apply",
    "stuck-case",
    "builtin-failed",
    "open-var",
];

#[derive(Debug, Clone, PartialEq, Eq)]
pub enum Outcome {
    Value,
    Failure,
    /// reference horizon exceeded – the oracle is undefined for this case
    Horizon,
    /// the reference does not model something the term uses – undefined
    Unsupported,
}

pub struct RefResult {
    pub outcome: Outcome,
    pub term: Option<RTerm>,
    pub stats: Stats,
}

pub fn arity(f: F) -> Option<usize> {
    spec_signature(f).map(|(_, a)| a)
}
pub fn force_count(f: F) -> Option<u32> {
    spec_signature(f).map(|(q, _)| q)
}

/// (number of type quantifiers, number of term arguments), transcribed from the builtin
/// tables of the Plutus Core specification (batches 1-6).
pub fn spec_signature(f: F) -> Option<(u32, usize)> {
    use F::*;
    Some(match f {
        AddInteger | SubtractInteger | MultiplyInteger | DivideInteger | QuotientInteger
        | RemainderInteger | ModInteger | EqualsInteger | LessThanInteger | LessThanEqualsInteger => (0, 2),
        AppendByteString | ConsByteString => (0, 2),
        SliceByteString => (0, 3),
        LengthOfByteString => (0, 1),
        IndexByteString | EqualsByteString | LessThanByteString | LessThanEqualsByteString => (0, 2),
        Sha2_256 | Sha3_256 | Blake2b_256 | Blake2b_224 | Keccak_256 | Ripemd_160 => (0, 1),
        VerifyEd25519Signature | VerifyEcdsaSecp256k1Signature | VerifySchnorrSecp256k1Signature => (0, 3),
        AppendString | EqualsString => (0, 2),
        EncodeUtf8 | DecodeUtf8 => (0, 1),
        IfThenElse => (1, 3),
        ChooseUnit => (1, 2),
        Trace => (1, 2),
        FstPair | SndPair => (2, 1),
        ChooseList => (2, 3),
        MkCons => (1, 2),
        HeadList | TailList | NullList => (1, 1),
        ChooseData => (1, 6),
        ConstrData => (0, 2),
        MapData | ListData | IData | BData => (0, 1),
        UnConstrData | UnMapData | UnListData | UnIData | UnBData => (0, 1),
        EqualsData => (0, 2),
        SerialiseData => (0, 1),
        MkPairData => (0, 2),
        MkNilData | MkNilPairData => (0, 1),
        Bls12_381_G1_Add | Bls12_381_G2_Add => (0, 2),
        Bls12_381_G1_Neg | Bls12_381_G2_Neg => (0, 1),
        Bls12_381_G1_ScalarMul | Bls12_381_G2_ScalarMul => (0, 2),
        Bls12_381_G1_Equal | Bls12_381_G2_Equal => (0, 2),
        Bls12_381_G1_Compress | Bls12_381_G2_Compress => (0, 1),
        Bls12_381_G1_Uncompress | Bls12_381_G2_Uncompress => (0, 1),
        Bls12_381_G1_HashToGroup | Bls12_381_G2_HashToGroup => (0, 2),
        Bls12_381_MillerLoop | Bls12_381_MulMlResult | Bls12_381_FinalVerify => (0, 2),
        IntegerToByteString => (0, 3),
        ByteStringToInteger => (0, 2),
        AndByteString | OrByteString | XorByteString => (0, 3),
        ComplementByteString => (0, 1),
        ReadBit => (0, 2),
        WriteBits => (0, 3),
        ReplicateByte => (0, 2),
        ShiftByteString | RotateByteString => (0, 2),
        CountSetBits | FindFirstSetBit => (0, 1),
        ExpModInteger => (0, 3),
        DropList => (1, 2),
        Bls12_381_G1_MultiScalarMul | Bls12_381_G2_MultiScalarMul => (0, 2),
    })
}

/// Builtins whose denotation the reference machine implements.
pub fn supported(f: F) -> bool {
    use F::*;
    matches!(
        f,
        AddInteger
            | SubtractInteger
            | MultiplyInteger
            | EqualsInteger
            | LessThanInteger
            | LessThanEqualsInteger
            | IfThenElse
            | ChooseUnit
            | Trace
            | FstPair
            | SndPair
            | ChooseList
            | MkCons
            | HeadList
            | TailList
            | NullList
            | ChooseData
            | IData
            | BData
            | UnIData
            | UnBData
            | EqualsData
            | AppendByteString
            | LengthOfByteString
            | EqualsByteString
    )
}

fn as_int(v: &RValue) -> Option<&BigInt> {
    match v {
        RValue::Con(c) => match c.as_ref() {
            RConst::Integer(i) => Some(i),
            _ => None,
        },
        _ => None,
    }
}
fn as_bytes(v: &RValue) -> Option<&Vec<u8>> {
    match v {
        RValue::Con(c) => match c.as_ref() {
            RConst::ByteString(i) => Some(i),
            _ => None,
        },
        _ => None,
    }
}
fn as_const(v: &RValue) -> Option<&RConst> {
    match v {
        RValue::Con(c) => Some(c.as_ref()),
        _ => None,
    }
}
fn con(c: RConst) -> RValue {
    RValue::Con(Rc::new(c))
}

/// The denotation of a saturated builtin application. `None` = evaluation failure.
fn denote(f: F, args: &[RValue], traces: &mut Vec<String>) -> Option<RValue> {
    use F::*;
    match f {
        AddInteger => Some(con(RConst::Integer(as_int(&args[0])? + as_int(&args[1])?))),
        SubtractInteger => Some(con(RConst::Integer(as_int(&args[0])? - as_int(&args[1])?))),
        MultiplyInteger => Some(con(RConst::Integer(as_int(&args[0])? * as_int(&args[1])?))),
        EqualsInteger => Some(con(RConst::Bool(as_int(&args[0])? == as_int(&args[1])?))),
        LessThanInteger => Some(con(RConst::Bool(as_int(&args[0])? < as_int(&args[1])?))),
        LessThanEqualsInteger => Some(con(RConst::Bool(as_int(&args[0])? <= as_int(&args[1])?))),
        AppendByteString => {
            let mut a = as_bytes(&args[0])?.clone();
            a.extend(as_bytes(&args[1])?.iter());
            Some(con(RConst::ByteString(a)))
        }
        LengthOfByteString => Some(con(RConst::Integer(BigInt::from(as_bytes(&args[0])?.len())))),
        EqualsByteString => Some(con(RConst::Bool(as_bytes(&args[0])? == as_bytes(&args[1])?))),
        IfThenElse => match as_const(&args[0])? {
            RConst::Bool(true) => Some(args[1].clone()),
            RConst::Bool(false) => Some(args[2].clone()),
            _ => None,
        },
        ChooseUnit => match as_const(&args[0])? {
            RConst::Unit => Some(args[1].clone()),
            _ => None,
        },
        Trace => match as_const(&args[0])? {
            RConst::String(s) => {
                traces.push(s.clone());
                Some(args[1].clone())
            }
            _ => None,
        },
        FstPair => match as_const(&args[0])? {
            RConst::Pair(a, _) => Some(con(a.as_ref().clone())),
            _ => None,
        },
        SndPair => match as_const(&args[0])? {
            RConst::Pair(_, b) => Some(con(b.as_ref().clone())),
            _ => None,
        },
        ChooseList => match as_const(&args[0])? {
            RConst::List(_, xs) => Some(if xs.is_empty() { args[1].clone() } else { args[2].clone() }),
            _ => None,
        },
        MkCons => {
            let x = as_const(&args[0])?;
            match as_const(&args[1])? {
                RConst::List(t, xs) => {
                    if &x.ty() != t {
                        return None;
                    }
                    let mut v = vec![x.clone()];
                    v.extend(xs.iter().cloned());
                    Some(con(RConst::List(t.clone(), v)))
                }
                _ => None,
            }
        }
        HeadList => match as_const(&args[0])? {
            RConst::List(_, xs) => xs.first().map(|x| con(x.clone())),
            _ => None,
        },
        TailList => match as_const(&args[0])? {
            RConst::List(t, xs) => {
                if xs.is_empty() {
                    None
                } else {
                    Some(con(RConst::List(t.clone(), xs[1..].to_vec())))
                }
            }
            _ => None,
        },
        NullList => match as_const(&args[0])? {
            RConst::List(_, xs) => Some(con(RConst::Bool(xs.is_empty()))),
            _ => None,
        },
        ChooseData => match as_const(&args[0])? {
            RConst::Data(d) => Some(match d {
                RData::Constr(..) => args[1].clone(),
                RData::Map(..) => args[2].clone(),
                RData::List(..) => args[3].clone(),
                RData::I(..) => args[4].clone(),
                RData::B(..) => args[5].clone(),
            }),
            _ => None,
        },
        IData => Some(con(RConst::Data(RData::I(as_int(&args[0])?.clone())))),
        BData => Some(con(RConst::Data(RData::B(as_bytes(&args[0])?.clone())))),
        UnIData => match as_const(&args[0])? {
            RConst::Data(RData::I(i)) => Some(con(RConst::Integer(i.clone()))),
            _ => None,
        },
        UnBData => match as_const(&args[0])? {
            RConst::Data(RData::B(i)) => Some(con(RConst::ByteString(i.clone()))),
            _ => None,
        },
        EqualsData => match (as_const(&args[0])?, as_const(&args[1])?) {
            (RConst::Data(a), RConst::Data(b)) => Some(con(RConst::Bool(a == b))),
            _ => None,
        },
        _ => None,
    }
}

pub fn uses_unsupported(t: &RTerm) -> bool {
    match t {
        RTerm::Builtin(b) => !supported(*b),
        RTerm::Con(c) => matches!(c.as_ref(), RConst::Opaque(_)),
        RTerm::Var(_) | RTerm::Error => false,
        RTerm::Lam(b) | RTerm::Delay(b) | RTerm::Force(b) => uses_unsupported(b),
        RTerm::App(f, a) => uses_unsupported(f) || uses_unsupported(a),
        RTerm::Constr(_, fs) => fs.iter().any(uses_unsupported),
        RTerm::Case(s, bs) => uses_unsupported(s) || bs.iter().any(uses_unsupported),
    }
}

enum State {
    Compute(Rc<RTerm>, Env),
    Return(RValue),
}

/// Evaluate `term` (at top level: empty environment) for at most `horizon` machine steps.
pub fn eval(term: &RTerm, variant: Variant, horizon: u64) -> RefResult {
    let mut stats = Stats::default();
    // note: unsupported builtins are only a problem when *called*; we treat any occurrence
    // as unsupported to keep the rule simple and conservative.
    if uses_unsupported(term) {
        return RefResult { outcome: Outcome::Unsupported, term: None, stats };
    }
    let mut stack: Vec<Frame> = vec![];
    let mut state = State::Compute(Rc::new(term.clone()), None);
    let mut n: u64 = 0;
    macro_rules! fail {
        ($rule:expr) => {{
            stats.rules[$rule] += 1;
            return RefResult { outcome: Outcome::Failure, term: None, stats };
        }};
    }
    loop {
        n += 1;
        if n > horizon {
            return RefResult { outcome: Outcome::Horizon, term: None, stats };
        }
        state = match state {
            State::Compute(t, env) => match t.as_ref() {
                RTerm::Var(i) => {
                    stats.steps[1] += 1;
                    match env_lookup(&env, *i) {
                        Some(v) => {
                            stats.rules[9] += 1;
                            State::Return(v)
                        }
                        None => fail!(15),
                    }
                }
                RTerm::Con(c) => {
                    stats.steps[0] += 1;
                    State::Return(RValue::Con(c.clone()))
                }
                RTerm::Lam(b) => {
                    stats.steps[2] += 1;
                    State::Return(RValue::Lam(b.clone(), env))
                }
                RTerm::Delay(b) => {
                    stats.steps[4] += 1;
                    State::Return(RValue::Delay(b.clone(), env))
                }
                RTerm::Force(b) => {
                    stats.steps[5] += 1;
                    stack.push(Frame::Force);
                    State::Compute(b.clone(), env)
                }
                RTerm::App(f, a) => {
                    stats.steps[3] += 1;
                    stack.push(Frame::AppArgTerm(a.clone(), env.clone()));
                    State::Compute(f.clone(), env)
                }
                RTerm::Builtin(b) => {
                    stats.steps[6] += 1;
                    State::Return(RValue::Builtin(*b, 0, vec![]))
                }
                RTerm::Error => fail!(10),
                RTerm::Constr(tag, fields) => {
                    stats.steps[7] += 1;
                    if fields.is_empty() {
                        stats.rules[6] += 1;
                        State::Return(RValue::Constr(*tag, vec![]))
                    } else {
                        stack.push(Frame::Constr(*tag, vec![], fields.clone(), 1, env.clone()));
                        State::Compute(Rc::new(fields[0].clone()), env)
                    }
                }
                RTerm::Case(scrut, branches) => {
                    stats.steps[8] += 1;
                    stack.push(Frame::Case(branches.clone(), env.clone()));
                    State::Compute(scrut.clone(), env)
                }
            },
            State::Return(v) => match stack.pop() {
                None => {
                    let term = discharge(&v);
                    return RefResult { outcome: Outcome::Value, term: Some(term), stats };
                }
                Some(Frame::Force) => match v {
                    RValue::Delay(b, env) => {
                        stats.rules[0] += 1;
                        State::Compute(b, env)
                    }
                    RValue::Builtin(f, forces, args) => {
                        let (q, a) = spec_signature(f).unwrap();
                        // a force is expected only while quantifiers remain; all quantifiers
                        // precede all term arguments in every builtin signature
                        if forces < q {
                            stats.rules[1] += 1;
                            let forces = forces + 1;
                            if forces == q && a == 0 {
                                unreachable!("no nullary builtins");
                            }
                            State::Return(RValue::Builtin(f, forces, args))
                        } else {
                            fail!(11)
                        }
                    }
                    _ => fail!(11),
                },
                Some(Frame::AppArgTerm(m, env)) => {
                    stack.push(Frame::AppFun(v));
                    State::Compute(m, env)
                }
                Some(Frame::AppArgVal(arg)) => match apply(v, arg, &mut stats) {
                    Ok(s) => s,
                    Err(rule) => fail!(rule),
                },
                Some(Frame::AppFun(fun)) => match apply(fun, v, &mut stats) {
                    Ok(s) => s,
                    Err(rule) => fail!(rule),
                },
                Some(Frame::Constr(tag, mut done, fields, next, env)) => {
                    done.push(v);
                    if next < fields.len() {
                        stats.rules[5] += 1;
                        let t = Rc::new(fields[next].clone());
                        stack.push(Frame::Constr(tag, done, fields, next + 1, env.clone()));
                        State::Compute(t, env)
                    } else {
                        stats.rules[6] += 1;
                        State::Return(RValue::Constr(tag, done))
                    }
                }
                Some(Frame::Case(branches, env)) => match v {
                    RValue::Constr(tag, fields) => {
                        if tag < branches.len() {
                            stats.rules[7] += 1;
                            // [_ V1 ... Vn]: V1 is applied first
                            for f in fields.into_iter().rev() {
                                stack.push(Frame::AppArgVal(f));
                            }
                            State::Compute(Rc::new(branches[tag].clone()), env)
                        } else {
                            fail!(13)
                        }
                    }
                    RValue::Con(c) if variant.case_on_constants() => {
                        // case on values of built-in types (Plutus Core 1.1.0 from PV11):
                        //   bool : False -> 0, True -> 1, at most 2 branches
                        //   unit : () -> 0, at most 1 branch
                        //   integer : n >= 0 -> n, any number of branches
                        //   list : x:xs -> branch 0 applied to x and xs; [] -> branch 1; at most 2
                        //   pair : (a,b) -> branch 0 applied to a and b; at most 1 branch
                        let (tag, args, max): (usize, Vec<RValue>, usize) = match c.as_ref() {
                            RConst::Unit => (0, vec![], 1),
                            RConst::Bool(false) => (0, vec![], 2),
                            RConst::Bool(true) => (1, vec![], 2),
                            RConst::Integer(i) => match i.to_usize() {
                                Some(t) if !i.is_negative() => (t, vec![], usize::MAX),
                                _ => fail!(13),
                            },
                            RConst::List(t, xs) => {
                                if xs.is_empty() {
                                    (1, vec![], 2)
                                } else {
                                    (
                                        0,
                                        vec![con(xs[0].clone()), con(RConst::List(t.clone(), xs[1..].to_vec()))],
                                        2,
                                    )
                                }
                            }
                            RConst::Pair(a, b) => (0, vec![con(a.as_ref().clone()), con(b.as_ref().clone())], 1),
                            _ => fail!(13),
                        };
                        if branches.len() > max || tag >= branches.len() {
                            fail!(13)
                        }
                        stats.rules[8] += 1;
                        for f in args.into_iter().rev() {
                            stack.push(Frame::AppArgVal(f));
                        }
                        State::Compute(Rc::new(branches[tag].clone()), env)
                    }
                    _ => fail!(13),
                },
            },
        };
    }
}

fn apply(fun: RValue, arg: RValue, stats: &mut Stats) -> Result<State, usize> {
    match fun {
        RValue::Lam(body, env) => {
            stats.rules[2] += 1;
            Ok(State::Compute(body, env_push(&env, arg)))
        }
        RValue::Builtin(f, forces, mut args) => {
            let (q, a) = spec_signature(f).unwrap();
            if forces == q && args.len() < a {
                args.push(arg);
                if args.len() == a {
                    stats.rules[4] += 1;
                    stats.calls.push((f, args.clone()));
                    match denote(f, &args, &mut stats.traces) {
                        Some(v) => Ok(State::Return(v)),
                        None => Err(14),
                    }
                } else {
                    stats.rules[3] += 1;
                    Ok(State::Return(RValue::Builtin(f, forces, args)))
                }
            } else {
                Err(12)
            }
        }
        _ => Err(12),
    }
}

/// Spec-style discharge: a value becomes a term; captured variables are substituted by the
/// (discharged) values of the closure's environment, through every term constructor.
pub fn discharge(v: &RValue) -> RTerm {
    match v {
        RValue::Con(c) => RTerm::Con(c.clone()),
        RValue::Delay(b, env) => RTerm::Delay(Rc::new(subst(b, env, 0))),
        RValue::Lam(b, env) => RTerm::Lam(Rc::new(subst(b, env, 1))),
        RValue::Constr(tag, fs) => RTerm::Constr(*tag, fs.iter().map(discharge).collect()),
        RValue::Builtin(f, forces, args) => {
            let mut t = RTerm::Builtin(*f);
            for _ in 0..*forces {
                t = RTerm::Force(Rc::new(t));
            }
            for a in args {
                t = RTerm::App(Rc::new(t), Rc::new(discharge(a)));
            }
            t
        }
    }
}

fn subst(t: &RTerm, env: &Env, depth: usize) -> RTerm {
    match t {
        RTerm::Var(i) => {
            if *i <= depth {
                RTerm::Var(*i)
            } else {
                match env_lookup(env, *i - depth) {
                    Some(v) => discharge(&v),
                    None => RTerm::Var(*i),
                }
            }
        }
        RTerm::Lam(b) => RTerm::Lam(Rc::new(subst(b, env, depth + 1))),
        RTerm::App(f, a) => RTerm::App(Rc::new(subst(f, env, depth)), Rc::new(subst(a, env, depth))),
        RTerm::Delay(b) => RTerm::Delay(Rc::new(subst(b, env, depth))),
        RTerm::Force(b) => RTerm::Force(Rc::new(subst(b, env, depth))),
        RTerm::Error => RTerm::Error,
        RTerm::Con(c) => RTerm::Con(c.clone()),
        RTerm::Builtin(b) => RTerm::Builtin(*b),
        RTerm::Constr(tag, fs) => RTerm::Constr(*tag, fs.iter().map(|f| subst(f, env, depth)).collect()),
        RTerm::Case(s, bs) => RTerm::Case(
            Rc::new(subst(s, env, depth)),
            bs.iter().map(|f| subst(f, env, depth)).collect(),
        ),
    }
}

/// Worked examples used as a self test at set-up.
pub fn self_test() -> Result<(), String> {
    use crate::rterm::RConst as C;
    let i = |n: i64| RTerm::Con(Rc::new(C::int(n)));
    let app = |f: RTerm, a: RTerm| RTerm::App(Rc::new(f), Rc::new(a));
    let lam = |b: RTerm| RTerm::Lam(Rc::new(b));
    // [(lam x (lam y x)) 1 2]  = 1
    let t = app(app(lam(lam(RTerm::Var(2))), i(1)), i(2));
    let r = eval(&t, Variant::C, 1000);
    if r.term != Some(i(1)) {
        return Err(format!("K combinator: {:?}", r.term));
    }
    // [(builtin addInteger) 1 2] = 3
    let t = app(app(RTerm::Builtin(F::AddInteger), i(1)), i(2));
    if eval(&t, Variant::C, 1000).term != Some(i(3)) {
        return Err("addInteger".into());
    }
    // (force (builtin addInteger)) fails ; [(builtin ifThenElse) True] fails
    if eval(&RTerm::Force(Rc::new(RTerm::Builtin(F::AddInteger))), Variant::C, 1000).outcome != Outcome::Failure {
        return Err("force addInteger".into());
    }
    let t = app(RTerm::Builtin(F::IfThenElse), RTerm::Con(Rc::new(C::Bool(true))));
    if eval(&t, Variant::C, 1000).outcome != Outcome::Failure {
        return Err("apply unforced ifThenElse".into());
    }
    // discharge through constr: [(lam x (delay (constr 0 x))) 1] = (delay (constr 0 1))
    let t = app(lam(RTerm::Delay(Rc::new(RTerm::Constr(0, vec![RTerm::Var(1)])))), i(1));
    let want = RTerm::Delay(Rc::new(RTerm::Constr(0, vec![i(1)])));
    if eval(&t, Variant::C, 1000).term != Some(want) {
        return Err("discharge through constr".into());
    }
    // (case (constr 1 1 2) (lam a (lam b a)) (lam a (lam b b))) = 2
    let t = RTerm::Case(
        Rc::new(RTerm::Constr(1, vec![i(1), i(2)])),
        vec![lam(lam(RTerm::Var(2))), lam(lam(RTerm::Var(1)))],
    );
    if eval(&t, Variant::C, 1000).term != Some(i(2)) {
        return Err("case/constr".into());
    }
    // case on a constant only under E
    let t = RTerm::Case(Rc::new(RTerm::Con(Rc::new(C::Bool(true)))), vec![i(0), i(1)]);
    if eval(&t, Variant::E, 1000).term != Some(i(1)) || eval(&t, Variant::C, 1000).outcome != Outcome::Failure {
        return Err("case on bool".into());
    }
    let _ = (BigInt::zero(), 1.div_floor(&1));
    Ok(())
}
