//! E-DATA: the PlutusData universe by depth, and the single-change mutation ball of a value.
use crate::rterm::RData;

pub fn leaves() -> Vec<RData> {
    vec![RData::I(0.into()), RData::I(1.into()), RData::I((-1).into()), RData::B(vec![]), RData::B(vec![0xff])]
}

/// all Data of depth <= `depth` built from `inner` (the universe one level down):
/// constructor tags `tags` with <= 2 fields, lists of <= 2 items, maps of <= 1 entry
fn level(inner: &[RData], tags: &[u64]) -> Vec<RData> {
    let mut out = leaves();
    let mut seqs: Vec<Vec<RData>> = vec![vec![]];
    for a in inner {
        seqs.push(vec![a.clone()]);
    }
    for a in inner {
        for b in inner {
            seqs.push(vec![a.clone(), b.clone()]);
        }
    }
    for t in tags {
        for s in &seqs {
            out.push(RData::Constr(*t, s.clone()));
        }
    }
    for s in &seqs {
        out.push(RData::List(s.clone()));
    }
    out.push(RData::Map(vec![]));
    for k in inner {
        for v in inner {
            out.push(RData::Map(vec![(k.clone(), v.clone())]));
        }
    }
    out
}

pub const TAGS: [u64; 5] = [0, 1, 2, 7, 128];

pub fn depth1() -> Vec<RData> {
    level(&leaves(), &TAGS)
}

/// depth 2 over a reduced inner set (the leaves plus one representative of every depth-1
/// shape), so that the count stays in the thousands
pub fn depth2_reduced() -> Vec<RData> {
    let mut inner = leaves();
    let i0 = RData::I(0.into());
    inner.extend([
        RData::Constr(0, vec![]),
        RData::Constr(1, vec![]),
        RData::Constr(0, vec![i0.clone()]),
        RData::Constr(1, vec![i0.clone()]),
        RData::Constr(2, vec![i0.clone(), i0.clone()]),
        RData::Constr(0, vec![i0.clone(), RData::Constr(1, vec![]), RData::B(vec![])]),
        RData::List(vec![]),
        RData::List(vec![i0.clone()]),
        RData::List(vec![i0.clone(), RData::Constr(1, vec![])]),
        RData::Map(vec![]),
        RData::Map(vec![(i0.clone(), RData::Constr(1, vec![]))]),
    ]);
    let mut out = level(&inner, &[0, 1, 2, 3]);
    out.extend(depth1());
    dedup(out)
}

pub fn depth2_full() -> Vec<RData> {
    dedup(level(&depth1(), &TAGS))
}

pub fn dedup(v: Vec<RData>) -> Vec<RData> {
    let mut seen = std::collections::HashSet::new();
    v.into_iter().filter(|d| seen.insert(format!("{:?}", d))).collect()
}

/// every single change of a value: tag +-1, drop / add / swap fields, leaf kind, list <-> constr
/// <-> map, applied at every position
pub fn mutation_ball(d: &RData) -> Vec<(String, RData)> {
    let mut out: Vec<(String, RData)> = vec![];
    let i0 = RData::I(0.into());
    match d {
        RData::I(i) => {
            out.push(("int->bytes".into(), RData::B(vec![])));
            out.push(("int->constr".into(), RData::Constr(0, vec![])));
            out.push(("int->list".into(), RData::List(vec![d.clone()])));
            out.push(("int+1".into(), RData::I(i + 1)));
        }
        RData::B(_) => {
            out.push(("bytes->int".into(), i0.clone()));
            out.push(("bytes->list".into(), RData::List(vec![])));
        }
        RData::Constr(t, fs) => {
            out.push(("tag+1".into(), RData::Constr(t + 1, fs.clone())));
            if *t > 0 {
                out.push(("tag-1".into(), RData::Constr(t - 1, fs.clone())));
            }
            out.push(("tag->128".into(), RData::Constr(128, fs.clone())));
            let mut more = fs.clone();
            more.push(i0.clone());
            out.push(("extra-field".into(), RData::Constr(*t, more)));
            if !fs.is_empty() {
                out.push(("missing-field".into(), RData::Constr(*t, fs[..fs.len() - 1].to_vec())));
            }
            if fs.len() >= 2 {
                let mut sw = fs.clone();
                sw.swap(0, 1);
                out.push(("fields-swapped".into(), RData::Constr(*t, sw)));
            }
            out.push(("constr->list".into(), RData::List(fs.clone())));
            out.push(("constr->int".into(), i0.clone()));
            for (i, f) in fs.iter().enumerate() {
                for (n, m) in mutation_ball(f) {
                    let mut g = fs.clone();
                    g[i] = m;
                    out.push((format!("field{i}:{n}"), RData::Constr(*t, g)));
                }
            }
        }
        RData::List(xs) => {
            let mut more = xs.clone();
            more.push(i0.clone());
            out.push(("extra-item".into(), RData::List(more)));
            if !xs.is_empty() {
                out.push(("missing-item".into(), RData::List(xs[..xs.len() - 1].to_vec())));
            }
            if xs.len() >= 2 {
                let mut sw = xs.clone();
                sw.swap(0, 1);
                out.push(("items-swapped".into(), RData::List(sw)));
            }
            out.push(("list->constr".into(), RData::Constr(0, xs.clone())));
            out.push(("list->map".into(), RData::Map(xs.iter().map(|x| (x.clone(), x.clone())).collect())));
            for (i, f) in xs.iter().enumerate() {
                for (n, m) in mutation_ball(f) {
                    let mut g = xs.clone();
                    g[i] = m;
                    out.push((format!("item{i}:{n}"), RData::List(g)));
                }
            }
        }
        RData::Map(kvs) => {
            out.push(("map->list-of-2-lists".into(), RData::List(kvs.iter().map(|(k, v)| RData::List(vec![k.clone(), v.clone()])).collect())));
            out.push(("map->constr".into(), RData::Constr(0, vec![])));
            for (i, (k, v)) in kvs.iter().enumerate() {
                for (n, m) in mutation_ball(k) {
                    let mut g = kvs.clone();
                    g[i] = (m, v.clone());
                    out.push((format!("key{i}:{n}"), RData::Map(g)));
                }
                for (n, m) in mutation_ball(v) {
                    let mut g = kvs.clone();
                    g[i] = (k.clone(), m);
                    out.push((format!("value{i}:{n}"), RData::Map(g)));
                }
            }
        }
    }
    out
}
