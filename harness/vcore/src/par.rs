//! Sharded parallel enumeration: the index space [0,total) is cut in chunks that worker
//! threads claim from an atomic counter. Each worker builds its own (Rc-based) objects.

use std::sync::atomic::{AtomicBool, AtomicU64, Ordering};
use std::sync::Mutex;

/// Panics that escaped a case's own `guarded` sections (typically the implementation
/// panicking while the harness renders or converts a result).  `Run::finish` turns them into
/// violations (panic site inside the repository or its dependencies) or machinery errors.
pub static WORKER_PANICS: Mutex<Vec<(u64, String)>> = Mutex::new(Vec::new());
use std::time::{Duration, Instant};

pub fn workers() -> usize {
    std::env::var("VERIF_WORKERS")
        .ok()
        .and_then(|s| s.parse().ok())
        .unwrap_or_else(|| {
            std::thread::available_parallelism()
                .map(|n| n.get())
                .unwrap_or(8)
                .min(16)
        })
}

pub struct ParOutcome<R> {
    pub results: Vec<R>,
    /// number of indices actually handed out and completed
    pub done: u64,
    pub capped: bool,
}

/// `f(worker_state, index)`; `init()` creates the per-worker state; `fin(state)` yields R.
pub fn par_indices<S, R: Send>(
    total: u64,
    chunk: u64,
    wall_cap: Option<Duration>,
    init: impl Fn(usize) -> S + Sync,
    f: impl Fn(&mut S, u64) + Sync,
    fin: impl Fn(S) -> R + Sync,
) -> ParOutcome<R> {
    let next = AtomicU64::new(0);
    let done = AtomicU64::new(0);
    let capped = AtomicBool::new(false);
    let start = Instant::now();
    let n = workers();
    let results = std::thread::scope(|sc| {
        let mut hs = vec![];
        for w in 0..n {
            let next = &next;
            let done = &done;
            let capped = &capped;
            let init = &init;
            let f = &f;
            let fin = &fin;
            hs.push(
                std::thread::Builder::new()
                    .stack_size(256 * 1024 * 1024)
                    .spawn_scoped(sc, move || {
                        let mut st = init(w);
                        loop {
                            if let Some(cap) = wall_cap {
                                if start.elapsed() > cap {
                                    capped.store(true, Ordering::Relaxed);
                                    break;
                                }
                            }
                            let s = next.fetch_add(chunk, Ordering::Relaxed);
                            if s >= total {
                                break;
                            }
                            let e = (s + chunk).min(total);
                            for i in s..e {
                                let r = std::panic::catch_unwind(std::panic::AssertUnwindSafe(|| f(&mut st, i)));
                                if r.is_err() {
                                    let mut g = WORKER_PANICS.lock().unwrap();
                                    if g.len() < 200 {
                                        g.push((i, crate::evid::last_panic()));
                                    }
                                }
                            }
                            done.fetch_add(e - s, Ordering::Relaxed);
                        }
                        fin(st)
                    })
                    .unwrap(),
            );
        }
        hs.into_iter().map(|h| h.join().expect("worker panicked outside guarded case")).collect::<Vec<R>>()
    });
    let d = done.load(Ordering::Relaxed);
    ParOutcome {
        results,
        done: d,
        capped: capped.load(Ordering::Relaxed) && d < total,
    }
}
