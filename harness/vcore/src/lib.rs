pub mod blake2b;
pub mod datau;
pub mod cek_ref;
pub mod flat_ref;
pub mod nterm;
pub mod evid;
pub mod par;
pub mod rterm;
