//! Independent BLAKE2b (RFC 7693), unkeyed, variable digest length. Used as the oracle for
//! script hashes (blake2b-224 of `version_byte ‖ cbor`).

const IV: [u64; 8] = [
    0x6a09e667f3bcc908,
    0xbb67ae8584caa73b,
    0x3c6ef372fe94f82b,
    0xa54ff53a5f1d36f1,
    0x510e527fade682d1,
    0x9b05688c2b3e6c1f,
    0x1f83d9abfb41bd6b,
    0x5be0cd19137e2179,
];

const SIGMA: [[usize; 16]; 12] = [
    [0, 1, 2, 3, 4, 5, 6, 7, 8, 9, 10, 11, 12, 13, 14, 15],
    [14, 10, 4, 8, 9, 15, 13, 6, 1, 12, 0, 2, 11, 7, 5, 3],
    [11, 8, 12, 0, 5, 2, 15, 13, 10, 14, 3, 6, 7, 1, 9, 4],
    [7, 9, 3, 1, 13, 12, 11, 14, 2, 6, 5, 10, 4, 0, 15, 8],
    [9, 0, 5, 7, 2, 4, 10, 15, 14, 1, 11, 12, 6, 8, 3, 13],
    [2, 12, 6, 10, 0, 11, 8, 3, 4, 13, 7, 5, 15, 14, 1, 9],
    [12, 5, 1, 15, 14, 13, 4, 10, 0, 7, 6, 3, 9, 2, 8, 11],
    [13, 11, 7, 14, 12, 1, 3, 9, 5, 0, 15, 4, 8, 6, 2, 10],
    [6, 15, 14, 9, 11, 3, 0, 8, 12, 2, 13, 7, 1, 4, 10, 5],
    [10, 2, 8, 4, 7, 6, 1, 5, 15, 11, 9, 14, 3, 12, 13, 0],
    [0, 1, 2, 3, 4, 5, 6, 7, 8, 9, 10, 11, 12, 13, 14, 15],
    [14, 10, 4, 8, 9, 15, 13, 6, 1, 12, 0, 2, 11, 7, 5, 3],
];

fn g(v: &mut [u64; 16], a: usize, b: usize, c: usize, d: usize, x: u64, y: u64) {
    v[a] = v[a].wrapping_add(v[b]).wrapping_add(x);
    v[d] = (v[d] ^ v[a]).rotate_right(32);
    v[c] = v[c].wrapping_add(v[d]);
    v[b] = (v[b] ^ v[c]).rotate_right(24);
    v[a] = v[a].wrapping_add(v[b]).wrapping_add(y);
    v[d] = (v[d] ^ v[a]).rotate_right(16);
    v[c] = v[c].wrapping_add(v[d]);
    v[b] = (v[b] ^ v[c]).rotate_right(63);
}

fn compress(h: &mut [u64; 8], block: &[u8; 128], t: u128, last: bool) {
    let mut m = [0u64; 16];
    for i in 0..16 {
        let mut w = [0u8; 8];
        w.copy_from_slice(&block[i * 8..i * 8 + 8]);
        m[i] = u64::from_le_bytes(w);
    }
    let mut v = [0u64; 16];
    v[..8].copy_from_slice(h);
    v[8..].copy_from_slice(&IV);
    v[12] ^= t as u64;
    v[13] ^= (t >> 64) as u64;
    if last {
        v[14] = !v[14];
    }
    for r in 0..12 {
        let s = &SIGMA[r];
        g(&mut v, 0, 4, 8, 12, m[s[0]], m[s[1]]);
        g(&mut v, 1, 5, 9, 13, m[s[2]], m[s[3]]);
        g(&mut v, 2, 6, 10, 14, m[s[4]], m[s[5]]);
        g(&mut v, 3, 7, 11, 15, m[s[6]], m[s[7]]);
        g(&mut v, 0, 5, 10, 15, m[s[8]], m[s[9]]);
        g(&mut v, 1, 6, 11, 12, m[s[10]], m[s[11]]);
        g(&mut v, 2, 7, 8, 13, m[s[12]], m[s[13]]);
        g(&mut v, 3, 4, 9, 14, m[s[14]], m[s[15]]);
    }
    for i in 0..8 {
        h[i] ^= v[i] ^ v[i + 8];
    }
}

pub fn blake2b(data: &[u8], outlen: usize) -> Vec<u8> {
    assert!(outlen >= 1 && outlen <= 64);
    let mut h = IV;
    h[0] ^= 0x01010000 ^ (outlen as u64);
    let mut t: u128 = 0;
    let n = data.len();
    let mut off = 0;
    // all blocks but the last
    while n - off > 128 {
        let mut block = [0u8; 128];
        block.copy_from_slice(&data[off..off + 128]);
        t += 128;
        compress(&mut h, &block, t, false);
        off += 128;
    }
    let mut block = [0u8; 128];
    block[..n - off].copy_from_slice(&data[off..]);
    t += (n - off) as u128;
    compress(&mut h, &block, t, true);
    let mut out = vec![];
    for w in h.iter() {
        out.extend_from_slice(&w.to_le_bytes());
    }
    out.truncate(outlen);
    out
}

pub fn blake2b_224(data: &[u8]) -> Vec<u8> {
    blake2b(data, 28)
}

pub fn self_test() -> Result<(), String> {
    // RFC 7693 appendix A: BLAKE2b-512("abc")
    let want = "ba80a53f981c4d0d6a2797b69f12f6e94c212f14685ac4b74b12bb6fdbffa2d17d87c5392aab792dc252d5de4533cc9518d38aa8dbf1925ab92386edd4009923";
    if hex::encode(blake2b(b"abc", 64)) != want {
        return Err("blake2b-512(abc)".into());
    }
    // blake2b-224("") and blake2b-256("") (values reproducible with Python hashlib)
    if hex::encode(blake2b(b"", 28)) != "836cc68931c2e4e3e838602eca1902591d216837bafddfe6f0c8cb07" {
        return Err("blake2b-224(empty)".into());
    }
    if hex::encode(blake2b(b"", 32)) != "0e5751c026e543b2e8ab2eb06099daa1d1e5df47778f7787faab45cdf12fe3a8" {
        return Err("blake2b-256(empty)".into());
    }
    // multi-block
    for (n, want) in [
        (300u32, "ea5eb12d32efd9ff01bb4b6a09c7e4a00d898b5d6629311c57bba023"),
        (256, "ec444fe0a0d9c43200044f483ad270bb77858945b4d69ae581a14d29"),
        (128, "f0ca1b2d7e6d603147b07d0560027876df36e2eeca2d7b3d59b47ee2"),
    ] {
        let data: Vec<u8> = (0..n).map(|i| (i % 251) as u8).collect();
        if hex::encode(blake2b(&data, 28)) != want {
            return Err(format!("blake2b-224 of {n} bytes"));
        }
    }
    Ok(())
}
