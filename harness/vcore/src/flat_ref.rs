//! Independent encoder for the `flat` serialisation of de Bruijn UPLC programs, written from
//! the Plutus Core specification (appendix "Serialising Plutus Core Terms and Programs")
//! and an independent CBOR encoder for `Data` (the encoding the Plutus `Data` encoder
//! produces, which is also what `serialiseData` returns).

use crate::rterm::{RConst, RData, RTerm, RType};
use num_bigint::BigInt;
use num_traits::{Signed, Zero};

pub struct Bits {
    pub bytes: Vec<u8>,
    cur: u8,
    used: u8,
}

impl Bits {
    pub fn new() -> Self {
        Bits { bytes: vec![], cur: 0, used: 0 }
    }
    pub fn bit(&mut self, b: bool) {
        if b {
            self.cur |= 0x80 >> self.used;
        }
        self.used += 1;
        if self.used == 8 {
            self.bytes.push(self.cur);
            self.cur = 0;
            self.used = 0;
        }
    }
    pub fn bits(&mut self, n: u8, v: u8) {
        for i in (0..n).rev() {
            self.bit((v >> i) & 1 == 1);
        }
    }
    /// filler: zero bits then a final 1 bit, up to the next byte boundary (a whole byte
    /// 00000001 when already aligned)
    pub fn pad(&mut self) {
        while self.used != 7 {
            self.bit(false);
        }
        self.bit(true);
    }
    pub fn byte(&mut self, b: u8) {
        self.bits(8, b);
    }
    /// natural number: 7-bit groups, least significant first, high bit = continuation
    pub fn natural(&mut self, n: &BigInt) {
        assert!(!n.is_negative());
        let mut n = n.clone();
        loop {
            let low: u8 = (&n & BigInt::from(0x7f)).try_into().unwrap();
            n >>= 7;
            if n.is_zero() {
                self.byte(low);
                break;
            } else {
                self.byte(low | 0x80);
            }
        }
    }
    pub fn integer(&mut self, i: &BigInt) {
        // zigzag
        let z = if i.is_negative() { (-i) * 2 - 1 } else { i * 2 };
        self.natural(&z);
    }
    pub fn bytestring(&mut self, b: &[u8]) {
        self.pad();
        for chunk in b.chunks(255) {
            self.byte(chunk.len() as u8);
            for x in chunk {
                self.byte(*x);
            }
        }
        self.byte(0);
    }
}

fn type_tags(t: &RType, out: &mut Vec<u8>) {
    match t {
        RType::Integer => out.push(0),
        RType::ByteString => out.push(1),
        RType::String => out.push(2),
        RType::Unit => out.push(3),
        RType::Bool => out.push(4),
        RType::List(e) => {
            out.extend([7, 5]);
            type_tags(e, out);
        }
        RType::Pair(a, b) => {
            out.extend([7, 7, 6]);
            type_tags(a, out);
            type_tags(b, out);
        }
        RType::Data => out.push(8),
    }
}

fn const_value(c: &RConst, w: &mut Bits) {
    match c {
        RConst::Integer(i) => w.integer(i),
        RConst::ByteString(b) => w.bytestring(b),
        RConst::String(s) => w.bytestring(s.as_bytes()),
        RConst::Unit => {}
        RConst::Bool(b) => w.bit(*b),
        RConst::List(_, xs) => {
            for x in xs {
                w.bit(true);
                const_value(x, w);
            }
            w.bit(false);
        }
        RConst::Pair(a, b) => {
            const_value(a, w);
            const_value(b, w);
        }
        RConst::Data(d) => w.bytestring(&data_cbor(d)),
        RConst::Opaque(_) => panic!("opaque constant has no flat encoding"),
    }
}

pub fn builtin_tag(f: uplc::builtins::DefaultFunction) -> u8 {
    // tags from the specification's builtin tables (batches 1-6)
    use uplc::builtins::DefaultFunction::*;
    match f {
        AddInteger => 0,
        SubtractInteger => 1,
        MultiplyInteger => 2,
        DivideInteger => 3,
        QuotientInteger => 4,
        RemainderInteger => 5,
        ModInteger => 6,
        EqualsInteger => 7,
        LessThanInteger => 8,
        LessThanEqualsInteger => 9,
        AppendByteString => 10,
        ConsByteString => 11,
        SliceByteString => 12,
        LengthOfByteString => 13,
        IndexByteString => 14,
        EqualsByteString => 15,
        LessThanByteString => 16,
        LessThanEqualsByteString => 17,
        Sha2_256 => 18,
        Sha3_256 => 19,
        Blake2b_256 => 20,
        VerifyEd25519Signature => 21,
        AppendString => 22,
        EqualsString => 23,
        EncodeUtf8 => 24,
        DecodeUtf8 => 25,
        IfThenElse => 26,
        ChooseUnit => 27,
        Trace => 28,
        FstPair => 29,
        SndPair => 30,
        ChooseList => 31,
        MkCons => 32,
        HeadList => 33,
        TailList => 34,
        NullList => 35,
        ChooseData => 36,
        ConstrData => 37,
        MapData => 38,
        ListData => 39,
        IData => 40,
        BData => 41,
        UnConstrData => 42,
        UnMapData => 43,
        UnListData => 44,
        UnIData => 45,
        UnBData => 46,
        EqualsData => 47,
        MkPairData => 48,
        MkNilData => 49,
        MkNilPairData => 50,
        SerialiseData => 51,
        VerifyEcdsaSecp256k1Signature => 52,
        VerifySchnorrSecp256k1Signature => 53,
        Bls12_381_G1_Add => 54,
        Bls12_381_G1_Neg => 55,
        Bls12_381_G1_ScalarMul => 56,
        Bls12_381_G1_Equal => 57,
        Bls12_381_G1_Compress => 58,
        Bls12_381_G1_Uncompress => 59,
        Bls12_381_G1_HashToGroup => 60,
        Bls12_381_G2_Add => 61,
        Bls12_381_G2_Neg => 62,
        Bls12_381_G2_ScalarMul => 63,
        Bls12_381_G2_Equal => 64,
        Bls12_381_G2_Compress => 65,
        Bls12_381_G2_Uncompress => 66,
        Bls12_381_G2_HashToGroup => 67,
        Bls12_381_MillerLoop => 68,
        Bls12_381_MulMlResult => 69,
        Bls12_381_FinalVerify => 70,
        Keccak_256 => 71,
        Blake2b_224 => 72,
        IntegerToByteString => 73,
        ByteStringToInteger => 74,
        AndByteString => 75,
        OrByteString => 76,
        XorByteString => 77,
        ComplementByteString => 78,
        ReadBit => 79,
        WriteBits => 80,
        ReplicateByte => 81,
        ShiftByteString => 82,
        RotateByteString => 83,
        CountSetBits => 84,
        FindFirstSetBit => 85,
        Ripemd_160 => 86,
        ExpModInteger => 87,
        DropList => 88,
        Bls12_381_G1_MultiScalarMul => 92,
        Bls12_381_G2_MultiScalarMul => 93,
    }
}

fn term(t: &RTerm, w: &mut Bits) {
    match t {
        RTerm::Var(i) => {
            w.bits(4, 0);
            w.natural(&BigInt::from(*i));
        }
        RTerm::Delay(b) => {
            w.bits(4, 1);
            term(b, w);
        }
        RTerm::Lam(b) => {
            w.bits(4, 2);
            term(b, w);
        }
        RTerm::App(f, a) => {
            w.bits(4, 3);
            term(f, w);
            term(a, w);
        }
        RTerm::Con(c) => {
            w.bits(4, 4);
            let mut tags = vec![];
            type_tags(&c.ty(), &mut tags);
            for t in tags {
                w.bit(true);
                w.bits(4, t);
            }
            w.bit(false);
            const_value(c, w);
        }
        RTerm::Force(b) => {
            w.bits(4, 5);
            term(b, w);
        }
        RTerm::Error => w.bits(4, 6),
        RTerm::Builtin(f) => {
            w.bits(4, 7);
            w.bits(7, builtin_tag(*f));
        }
        RTerm::Constr(tag, fs) => {
            w.bits(4, 8);
            w.natural(&BigInt::from(*tag));
            for f in fs {
                w.bit(true);
                term(f, w);
            }
            w.bit(false);
        }
        RTerm::Case(s, bs) => {
            w.bits(4, 9);
            term(s, w);
            for f in bs {
                w.bit(true);
                term(f, w);
            }
            w.bit(false);
        }
    }
}

pub fn program_flat(version: (usize, usize, usize), t: &RTerm) -> Vec<u8> {
    let mut w = Bits::new();
    w.natural(&BigInt::from(version.0));
    w.natural(&BigInt::from(version.1));
    w.natural(&BigInt::from(version.2));
    term(t, &mut w);
    w.pad();
    w.bytes
}


/// Where a raw Data constant sits inside the program's single constant.
#[derive(Clone, Copy, Debug, PartialEq, Eq)]
pub enum RawShape {
    Top,
    InList,
    InPair,
    InListOfPairs,
}

/// The flat encoding of `(program v (con T ..))` whose Data leaves are given as raw CBOR
/// bytes (so that non-canonical encodings can be expressed): a Data constant is the byte
/// string of its CBOR, wherever it occurs.
pub fn program_flat_raw_data(version: (usize, usize, usize), shape: RawShape, cbor: &[u8]) -> Vec<u8> {
    let mut w = Bits::new();
    w.natural(&BigInt::from(version.0));
    w.natural(&BigInt::from(version.1));
    w.natural(&BigInt::from(version.2));
    w.bits(4, 4);
    let pair_dd = RType::Pair(Box::new(RType::Data), Box::new(RType::Data));
    let ty = match shape {
        RawShape::Top => RType::Data,
        RawShape::InList => RType::List(Box::new(RType::Data)),
        RawShape::InPair => pair_dd.clone(),
        RawShape::InListOfPairs => RType::List(Box::new(pair_dd)),
    };
    let mut tags = vec![];
    type_tags(&ty, &mut tags);
    for t in tags {
        w.bit(true);
        w.bits(4, t);
    }
    w.bit(false);
    match shape {
        RawShape::Top => w.bytestring(cbor),
        RawShape::InList => {
            w.bit(true);
            w.bytestring(cbor);
            w.bit(false);
        }
        RawShape::InPair => {
            w.bytestring(cbor);
            w.bytestring(cbor);
        }
        RawShape::InListOfPairs => {
            w.bit(true);
            w.bytestring(cbor);
            w.bytestring(cbor);
            w.bit(false);
        }
    }
    w.pad();
    w.bytes
}

/// CBOR byte string wrapping (definite length), as used for script bytes.
pub fn cbor_bytes_wrap(b: &[u8]) -> Vec<u8> {
    let mut out = vec![];
    cbor_head(2, b.len() as u64, &mut out);
    out.extend_from_slice(b);
    out
}

fn cbor_head(major: u8, n: u64, out: &mut Vec<u8>) {
    let m = major << 5;
    if n < 24 {
        out.push(m | n as u8);
    } else if n < 0x100 {
        out.push(m | 24);
        out.push(n as u8);
    } else if n < 0x10000 {
        out.push(m | 25);
        out.extend_from_slice(&(n as u16).to_be_bytes());
    } else if n < 0x1_0000_0000 {
        out.push(m | 26);
        out.extend_from_slice(&(n as u32).to_be_bytes());
    } else {
        out.push(m | 27);
        out.extend_from_slice(&n.to_be_bytes());
    }
}

fn cbor_bytes(b: &[u8], out: &mut Vec<u8>) {
    if b.len() <= 64 {
        cbor_head(2, b.len() as u64, out);
        out.extend_from_slice(b);
    } else {
        out.push(0x5f);
        for chunk in b.chunks(64) {
            cbor_head(2, chunk.len() as u64, out);
            out.extend_from_slice(chunk);
        }
        out.push(0xff);
    }
}

fn cbor_list(xs: &[RData], out: &mut Vec<u8>) {
    if xs.is_empty() {
        out.push(0x80);
    } else {
        out.push(0x9f);
        for x in xs {
            data_cbor_into(x, out);
        }
        out.push(0xff);
    }
}

pub fn data_cbor_into(d: &RData, out: &mut Vec<u8>) {
    match d {
        RData::Constr(ix, fs) => {
            if *ix < 7 {
                cbor_head(6, 121 + ix, out);
                cbor_list(fs, out);
            } else if *ix < 128 {
                cbor_head(6, 1280 + (ix - 7), out);
                cbor_list(fs, out);
            } else {
                cbor_head(6, 102, out);
                out.push(0x82);
                cbor_head(0, *ix, out);
                cbor_list(fs, out);
            }
        }
        RData::Map(kvs) => {
            cbor_head(5, kvs.len() as u64, out);
            for (k, v) in kvs {
                data_cbor_into(k, out);
                data_cbor_into(v, out);
            }
        }
        RData::List(xs) => cbor_list(xs, out),
        RData::I(i) => {
            let two64 = BigInt::from(1u8) << 64;
            if !i.is_negative() && i < &two64 {
                cbor_head(0, i.try_into().unwrap(), out);
            } else if i.is_negative() && i >= &(-&two64) {
                let m: BigInt = -i - 1;
                cbor_head(1, (&m).try_into().unwrap(), out);
            } else if i.is_negative() {
                let m: BigInt = -i - 1;
                out.push(0xc3);
                cbor_bytes(&m.to_bytes_be().1, out);
            } else {
                out.push(0xc2);
                cbor_bytes(&i.to_bytes_be().1, out);
            }
        }
        RData::B(b) => cbor_bytes(b, out),
    }
}

pub fn data_cbor(d: &RData) -> Vec<u8> {
    let mut out = vec![];
    data_cbor_into(d, &mut out);
    out
}

pub fn self_test() -> Result<(), String> {
    use std::rc::Rc;
    // the documented example: (program 1.0.0 (lam x x)) = 01 00 00 20 01 01
    let t = RTerm::Lam(Rc::new(RTerm::Var(1)));
    let got = program_flat((1, 0, 0), &t);
    if got != vec![0x01, 0x00, 0x00, 0x20, 0x01, 0x01] {
        return Err(format!("flat (lam x x): {}", hex::encode(got)));
    }
    // Data encodings
    let cases: Vec<(RData, &str)> = vec![
        (RData::Constr(0, vec![]), "d87980"),
        (RData::I(0.into()), "00"),
        (RData::I((-1).into()), "20"),
        (RData::List(vec![RData::I(1.into())]), "9f01ff"),
        (RData::Map(vec![]), "a0"),
        (RData::B(vec![]), "40"),
        (RData::Constr(7, vec![]), "d9050080"),
        (RData::Constr(128, vec![]), "d8668218808 0"),
        (RData::I(BigInt::from(1u8) << 64), "c249010000000000000000"),
    ];
    for (d, want) in cases {
        let want = want.replace(' ', "");
        if hex::encode(data_cbor(&d)) != want {
            return Err(format!("cbor of {:?}: {} != {}", d, hex::encode(data_cbor(&d)), want));
        }
    }
    Ok(())
}
