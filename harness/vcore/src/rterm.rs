//! E-TERM: the harness's own UPLC term type, an exact-count enumerator by size, and
//! conversions to / from the implementation's `Term`.

use num_bigint::BigInt;
use std::collections::HashMap;
use std::rc::Rc;
use uplc::ast::{Constant, DeBruijn, NamedDeBruijn, Term, Type};
use uplc::builtins::DefaultFunction;
use uplc::{BigInt as PBigInt, Constr, KeyValuePairs, MaybeIndefArray, PlutusData};

#[derive(Clone, Debug, PartialEq, Eq, Hash)]
pub enum RType {
    Integer,
    ByteString,
    String,
    Unit,
    Bool,
    Data,
    List(Box<RType>),
    Pair(Box<RType>, Box<RType>),
}

#[derive(Clone, Debug, PartialEq, Eq, Hash)]
pub enum RData {
    Constr(u64, Vec<RData>),
    Map(Vec<(RData, RData)>),
    List(Vec<RData>),
    I(BigInt),
    B(Vec<u8>),
}

#[derive(Clone, Debug, PartialEq, Eq, Hash)]
pub enum RConst {
    Integer(BigInt),
    ByteString(Vec<u8>),
    String(String),
    Unit,
    Bool(bool),
    List(RType, Vec<RConst>),
    Pair(Box<RConst>, Box<RConst>),
    Data(RData),
    /// a constant the reference does not model (BLS elements, ...): kept as printed text
    Opaque(String),
}

impl RConst {
    pub fn ty(&self) -> RType {
        match self {
            RConst::Integer(_) => RType::Integer,
            RConst::ByteString(_) => RType::ByteString,
            RConst::String(_) => RType::String,
            RConst::Unit => RType::Unit,
            RConst::Bool(_) => RType::Bool,
            RConst::List(t, _) => RType::List(Box::new(t.clone())),
            RConst::Pair(a, b) => RType::Pair(Box::new(a.ty()), Box::new(b.ty())),
            RConst::Data(_) => RType::Data,
            RConst::Opaque(_) => RType::Unit,
        }
    }
    pub fn int(i: i64) -> RConst {
        RConst::Integer(BigInt::from(i))
    }
}

#[derive(Clone, Debug, PartialEq, Eq, Hash)]
pub enum RTerm {
    /// de Bruijn index, 1 = innermost binder (0 is malformed but representable)
    Var(usize),
    Lam(Rc<RTerm>),
    App(Rc<RTerm>, Rc<RTerm>),
    Delay(Rc<RTerm>),
    Force(Rc<RTerm>),
    Error,
    Con(Rc<RConst>),
    Builtin(DefaultFunction),
    Constr(usize, Vec<RTerm>),
    Case(Rc<RTerm>, Vec<RTerm>),
}

impl RTerm {
    pub fn size(&self) -> usize {
        match self {
            RTerm::Var(_) | RTerm::Error | RTerm::Con(_) | RTerm::Builtin(_) => 1,
            RTerm::Lam(b) | RTerm::Delay(b) | RTerm::Force(b) => 1 + b.size(),
            RTerm::App(f, a) => 1 + f.size() + a.size(),
            RTerm::Constr(_, fs) => 1 + fs.iter().map(|f| f.size()).sum::<usize>(),
            RTerm::Case(s, bs) => 1 + s.size() + bs.iter().map(|f| f.size()).sum::<usize>(),
        }
    }

    /// Largest (index - binder depth) over all variables; <= 0 means closed.
    pub fn max_free(&self, depth: usize) -> isize {
        match self {
            RTerm::Var(i) => {
                if *i == 0 {
                    isize::MAX
                } else {
                    *i as isize - depth as isize
                }
            }
            RTerm::Error | RTerm::Con(_) | RTerm::Builtin(_) => isize::MIN,
            RTerm::Lam(b) => b.max_free(depth + 1),
            RTerm::Delay(b) | RTerm::Force(b) => b.max_free(depth),
            RTerm::App(f, a) => f.max_free(depth).max(a.max_free(depth)),
            RTerm::Constr(_, fs) => fs.iter().map(|f| f.max_free(depth)).max().unwrap_or(isize::MIN),
            RTerm::Case(s, bs) => bs
                .iter()
                .map(|f| f.max_free(depth))
                .max()
                .unwrap_or(isize::MIN)
                .max(s.max_free(depth)),
        }
    }

    pub fn is_closed(&self) -> bool {
        self.max_free(0) <= 0
    }
}

// ------------------------------------------------------------------------------------
// printing (harness's own printer; used for samples / replay files only)

pub fn show_data(d: &RData) -> String {
    match d {
        RData::Constr(t, fs) => format!(
            "Constr {} [{}]",
            t,
            fs.iter().map(show_data).collect::<Vec<_>>().join(", ")
        ),
        RData::Map(kvs) => format!(
            "Map [{}]",
            kvs.iter()
                .map(|(k, v)| format!("({}, {})", show_data(k), show_data(v)))
                .collect::<Vec<_>>()
                .join(", ")
        ),
        RData::List(xs) => format!("List [{}]", xs.iter().map(show_data).collect::<Vec<_>>().join(", ")),
        RData::I(i) => format!("I {}", i),
        RData::B(b) => format!("B #{}", hex::encode(b)),
    }
}

pub fn show_type(t: &RType) -> String {
    match t {
        RType::Integer => "integer".into(),
        RType::ByteString => "bytestring".into(),
        RType::String => "string".into(),
        RType::Unit => "unit".into(),
        RType::Bool => "bool".into(),
        RType::Data => "data".into(),
        RType::List(t) => format!("(list {})", show_type(t)),
        RType::Pair(a, b) => format!("(pair {} {})", show_type(a), show_type(b)),
    }
}

fn show_const_val(c: &RConst) -> String {
    match c {
        RConst::Integer(i) => format!("{}", i),
        RConst::ByteString(b) => format!("#{}", hex::encode(b)),
        RConst::String(s) => format!("{:?}", s),
        RConst::Unit => "()".into(),
        RConst::Bool(b) => if *b { "True".into() } else { "False".into() },
        RConst::List(_, xs) => format!("[{}]", xs.iter().map(show_const_val).collect::<Vec<_>>().join(", ")),
        RConst::Pair(a, b) => format!("({}, {})", show_const_val(a), show_const_val(b)),
        RConst::Data(d) => format!("({})", show_data(d)),
        RConst::Opaque(s) => s.clone(),
    }
}

pub fn show_const(c: &RConst) -> String {
    format!("(con {} {})", show_type(&c.ty()), show_const_val(c))
}

pub fn show(t: &RTerm) -> String {
    match t {
        RTerm::Var(i) => format!("i{}", i),
        RTerm::Lam(b) => format!("(lam {})", show(b)),
        RTerm::App(f, a) => format!("[{} {}]", show(f), show(a)),
        RTerm::Delay(b) => format!("(delay {})", show(b)),
        RTerm::Force(b) => format!("(force {})", show(b)),
        RTerm::Error => "(error)".into(),
        RTerm::Con(c) => show_const(c),
        RTerm::Builtin(b) => format!("(builtin {:?})", b),
        RTerm::Constr(tag, fs) => format!(
            "(constr {}{})",
            tag,
            fs.iter().map(|f| format!(" {}", show(f))).collect::<String>()
        ),
        RTerm::Case(s, bs) => format!(
            "(case {}{})",
            show(s),
            bs.iter().map(|f| format!(" {}", show(f))).collect::<String>()
        ),
    }
}

// ------------------------------------------------------------------------------------
// enumeration

#[derive(Clone)]
pub struct Alphabet {
    pub consts: Vec<Rc<RConst>>,
    pub builtins: Vec<DefaultFunction>,
    pub constr_tags: Vec<usize>,
    pub max_fields: usize,
    pub max_branches: usize,
    /// how many indices beyond the binder depth are generated (0 = closed terms only)
    pub free_extra: usize,
    /// also generate the malformed index 0
    pub index0: bool,
}

pub struct Enumerator {
    pub a: Alphabet,
    memo: HashMap<(usize, usize), u64>,
    seq_memo: HashMap<(usize, usize, usize), u64>,
}

impl Enumerator {
    pub fn new(a: Alphabet) -> Self {
        Enumerator {
            a,
            memo: HashMap::new(),
            seq_memo: HashMap::new(),
        }
    }

    fn nvars(&self, depth: usize) -> u64 {
        (depth + self.a.free_extra + if self.a.index0 { 1 } else { 0 }) as u64
    }

    fn nleaves(&self, depth: usize) -> u64 {
        self.nvars(depth)
            + 1 // error
            + self.a.consts.len() as u64
            + self.a.builtins.len() as u64
            + self.a.constr_tags.len() as u64 // constr with no field
    }

    /// number of terms with exactly `size` nodes under `depth` binders
    pub fn count(&mut self, size: usize, depth: usize) -> u64 {
        if size == 0 {
            return 0;
        }
        if size == 1 {
            return self.nleaves(depth);
        }
        if let Some(c) = self.memo.get(&(size, depth)) {
            return *c;
        }
        let mut total: u64 = 0;
        // lam
        total += self.count(size - 1, depth + 1);
        // delay, force
        total += 2 * self.count(size - 1, depth);
        // app
        for i in 1..size.saturating_sub(1) {
            total += self.count(i, depth) * self.count(size - 1 - i, depth);
        }
        // constr with k>=1 fields
        for k in 1..=self.a.max_fields {
            total += self.a.constr_tags.len() as u64 * self.seq_count(k, size - 1, depth);
        }
        // case with b branches, b in 0..=max_branches
        for b in 0..=self.a.max_branches {
            for s in 1..size {
                let rest = size - 1 - s;
                total += self.count(s, depth) * self.seq_count(b, rest, depth);
            }
        }
        self.memo.insert((size, depth), total);
        total
    }

    /// number of k-sequences of terms whose sizes sum to m
    pub fn seq_count(&mut self, k: usize, m: usize, depth: usize) -> u64 {
        if k == 0 {
            return if m == 0 { 1 } else { 0 };
        }
        if m < k {
            return 0;
        }
        if k == 1 {
            return self.count(m, depth);
        }
        // key packs k and depth
        if let Some(c) = self.seq_memo.get(&(k, m, depth)) {
            return *c;
        }
        let mut total = 0;
        for s in 1..=(m - (k - 1)) {
            total += self.count(s, depth) * self.seq_count(k - 1, m - s, depth);
        }
        self.seq_memo.insert((k, m, depth), total);
        total
    }

    pub fn unrank_seq(&mut self, k: usize, m: usize, depth: usize, mut idx: u64) -> Vec<RTerm> {
        if k == 0 {
            return vec![];
        }
        if k == 1 {
            return vec![self.unrank(m, depth, idx)];
        }
        for s in 1..=(m - (k - 1)) {
            let c1 = self.count(s, depth);
            let c2 = self.seq_count(k - 1, m - s, depth);
            let block = c1 * c2;
            if idx < block {
                let first = self.unrank(s, depth, idx / c2);
                let mut rest = self.unrank_seq(k - 1, m - s, depth, idx % c2);
                let mut v = vec![first];
                v.append(&mut rest);
                return v;
            }
            idx -= block;
        }
        unreachable!("unrank_seq out of range")
    }

    pub fn unrank(&mut self, size: usize, depth: usize, mut idx: u64) -> RTerm {
        if size == 1 {
            let nv = self.nvars(depth);
            if idx < nv {
                let i = if self.a.index0 { idx as usize } else { idx as usize + 1 };
                return RTerm::Var(i);
            }
            idx -= nv;
            if idx == 0 {
                return RTerm::Error;
            }
            idx -= 1;
            if (idx as usize) < self.a.consts.len() {
                return RTerm::Con(self.a.consts[idx as usize].clone());
            }
            idx -= self.a.consts.len() as u64;
            if (idx as usize) < self.a.builtins.len() {
                return RTerm::Builtin(self.a.builtins[idx as usize]);
            }
            idx -= self.a.builtins.len() as u64;
            return RTerm::Constr(self.a.constr_tags[idx as usize], vec![]);
        }
        // lam
        let c = self.count(size - 1, depth + 1);
        if idx < c {
            return RTerm::Lam(Rc::new(self.unrank(size - 1, depth + 1, idx)));
        }
        idx -= c;
        let c = self.count(size - 1, depth);
        if idx < c {
            return RTerm::Delay(Rc::new(self.unrank(size - 1, depth, idx)));
        }
        idx -= c;
        if idx < c {
            return RTerm::Force(Rc::new(self.unrank(size - 1, depth, idx)));
        }
        idx -= c;
        for i in 1..size.saturating_sub(1) {
            let c1 = self.count(i, depth);
            let c2 = self.count(size - 1 - i, depth);
            let block = c1 * c2;
            if idx < block {
                let f = self.unrank(i, depth, idx / c2);
                let a = self.unrank(size - 1 - i, depth, idx % c2);
                return RTerm::App(Rc::new(f), Rc::new(a));
            }
            idx -= block;
        }
        for k in 1..=self.a.max_fields {
            let sc = self.seq_count(k, size - 1, depth);
            let block = self.a.constr_tags.len() as u64 * sc;
            if idx < block {
                let tag = self.a.constr_tags[(idx / sc) as usize];
                let fields = self.unrank_seq(k, size - 1, depth, idx % sc);
                return RTerm::Constr(tag, fields);
            }
            idx -= block;
        }
        for b in 0..=self.a.max_branches {
            for s in 1..size {
                let rest = size - 1 - s;
                let c1 = self.count(s, depth);
                let c2 = self.seq_count(b, rest, depth);
                let block = c1 * c2;
                if idx < block {
                    let scrut = self.unrank(s, depth, idx / c2);
                    let branches = self.unrank_seq(b, rest, depth, idx % c2);
                    return RTerm::Case(Rc::new(scrut), branches);
                }
                idx -= block;
            }
        }
        unreachable!("unrank out of range")
    }

    /// (size, count) for sizes 1..=max, at depth 0
    pub fn sizes(&mut self, max: usize) -> Vec<(usize, u64)> {
        (1..=max).map(|s| (s, self.count(s, 0))).collect()
    }

    /// global index over sizes 1..=max -> term
    pub fn unrank_global(&mut self, max: usize, mut idx: u64) -> RTerm {
        for s in 1..=max {
            let c = self.count(s, 0);
            if idx < c {
                return self.unrank(s, 0, idx);
            }
            idx -= c;
        }
        unreachable!()
    }

    pub fn total(&mut self, max: usize) -> u64 {
        (1..=max).map(|s| self.count(s, 0)).sum()
    }
}

// ------------------------------------------------------------------------------------
// conversions to the implementation's types

pub fn to_impl_type(t: &RType) -> Type {
    match t {
        RType::Integer => Type::Integer,
        RType::ByteString => Type::ByteString,
        RType::String => Type::String,
        RType::Unit => Type::Unit,
        RType::Bool => Type::Bool,
        RType::Data => Type::Data,
        RType::List(t) => Type::List(Rc::new(to_impl_type(t))),
        RType::Pair(a, b) => Type::Pair(Rc::new(to_impl_type(a)), Rc::new(to_impl_type(b))),
    }
}

pub fn from_impl_type(t: &Type) -> Option<RType> {
    Some(match t {
        Type::Integer => RType::Integer,
        Type::ByteString => RType::ByteString,
        Type::String => RType::String,
        Type::Unit => RType::Unit,
        Type::Bool => RType::Bool,
        Type::Data => RType::Data,
        Type::List(t) => RType::List(Box::new(from_impl_type(t)?)),
        Type::Pair(a, b) => RType::Pair(Box::new(from_impl_type(a)?), Box::new(from_impl_type(b)?)),
        _ => return None,
    })
}

/// Harness-side encoding of Data, mirroring what the toolchain itself builds
/// (`Data::constr`, `Data::list`): arrays indefinite unless empty, maps definite.
pub fn to_impl_data(d: &RData) -> PlutusData {
    match d {
        RData::Constr(ix, fs) => {
            let fields: Vec<PlutusData> = fs.iter().map(to_impl_data).collect();
            let fields = if fields.is_empty() {
                MaybeIndefArray::Def(fields)
            } else {
                MaybeIndefArray::Indef(fields)
            };
            let ix = *ix;
            if ix < 7 {
                PlutusData::Constr(Constr { tag: 121 + ix, any_constructor: None, fields })
            } else if ix < 128 {
                PlutusData::Constr(Constr { tag: 1280 + ix - 7, any_constructor: None, fields })
            } else {
                PlutusData::Constr(Constr { tag: 102, any_constructor: Some(ix), fields })
            }
        }
        RData::Map(kvs) => PlutusData::Map(KeyValuePairs::Def(
            kvs.iter().map(|(k, v)| (to_impl_data(k), to_impl_data(v))).collect(),
        )),
        RData::List(xs) => {
            let xs: Vec<PlutusData> = xs.iter().map(to_impl_data).collect();
            PlutusData::Array(if xs.is_empty() {
                MaybeIndefArray::Def(xs)
            } else {
                MaybeIndefArray::Indef(xs)
            })
        }
        RData::I(i) => PlutusData::BigInt(bigint_to_pallas(i)),
        RData::B(b) => PlutusData::BoundedBytes(b.clone().into()),
    }
}

/// Independent of `uplc::machine::value::to_pallas_bigint`: written from the CBOR rules
/// (major type 0/1 when it fits in 64 bits, otherwise tag 2/3 big-endian magnitude, where a
/// negative n is stored as -1-n).
pub fn bigint_to_pallas(n: &BigInt) -> PBigInt {
    use num_traits::Signed;
    let two64 = BigInt::from(1u8) << 64;
    if n >= &(-&two64) && n < &two64 {
        // fits CBOR int (major 0: 0..2^64-1, major 1: -2^64..-1)
        let v: i128 = n.try_into().unwrap();
        PBigInt::Int(pallas_codec::utils::Int::try_from(v).unwrap())
    } else if n.is_negative() {
        let m: BigInt = -n - 1;
        let (_, bytes) = m.to_bytes_be();
        PBigInt::BigNInt(bytes.into())
    } else {
        let (_, bytes) = n.to_bytes_be();
        PBigInt::BigUInt(bytes.into())
    }
}

pub fn pallas_to_bigint(n: &PBigInt) -> BigInt {
    match n {
        PBigInt::Int(i) => {
            let v: i128 = (*i).into();
            BigInt::from(v)
        }
        PBigInt::BigUInt(b) => BigInt::from_bytes_be(num_bigint::Sign::Plus, b),
        PBigInt::BigNInt(b) => -BigInt::from_bytes_be(num_bigint::Sign::Plus, b) - 1,
    }
}

pub fn from_impl_data(d: &PlutusData) -> RData {
    match d {
        PlutusData::Constr(c) => {
            let ix = if c.tag >= 121 && c.tag <= 127 {
                c.tag - 121
            } else if c.tag >= 1280 && c.tag <= 1400 {
                c.tag - 1280 + 7
            } else {
                c.any_constructor.unwrap_or(u64::MAX)
            };
            RData::Constr(ix, c.fields.iter().map(from_impl_data).collect())
        }
        PlutusData::Map(kvs) => RData::Map(
            kvs.iter().map(|(k, v)| (from_impl_data(k), from_impl_data(v))).collect(),
        ),
        PlutusData::Array(xs) => RData::List(xs.iter().map(from_impl_data).collect()),
        PlutusData::BigInt(i) => RData::I(pallas_to_bigint(i)),
        PlutusData::BoundedBytes(b) => RData::B(b.to_vec()),
    }
}

pub fn to_impl_const(c: &RConst) -> Constant {
    match c {
        RConst::Integer(i) => Constant::Integer(i.clone()),
        RConst::ByteString(b) => Constant::ByteString(b.clone()),
        RConst::String(s) => Constant::String(s.clone()),
        RConst::Unit => Constant::Unit,
        RConst::Bool(b) => Constant::Bool(*b),
        RConst::List(t, xs) => Constant::ProtoList(to_impl_type(t), xs.iter().map(to_impl_const).collect()),
        RConst::Pair(a, b) => Constant::ProtoPair(
            to_impl_type(&a.ty()),
            to_impl_type(&b.ty()),
            Rc::new(to_impl_const(a)),
            Rc::new(to_impl_const(b)),
        ),
        RConst::Data(d) => Constant::Data(to_impl_data(d)),
        RConst::Opaque(_) => panic!("opaque constants cannot be converted back"),
    }
}

pub fn from_impl_const(c: &Constant) -> RConst {
    match c {
        Constant::Integer(i) => RConst::Integer(i.clone()),
        Constant::ByteString(b) => RConst::ByteString(b.clone()),
        Constant::String(s) => RConst::String(s.clone()),
        Constant::Unit => RConst::Unit,
        Constant::Bool(b) => RConst::Bool(*b),
        Constant::ProtoList(t, xs) => match from_impl_type(t) {
            Some(t) => RConst::List(t, xs.iter().map(from_impl_const).collect()),
            None => RConst::Opaque(format!("{:?}", c)),
        },
        Constant::ProtoPair(_, _, a, b) => RConst::Pair(Box::new(from_impl_const(a)), Box::new(from_impl_const(b))),
        Constant::Data(d) => RConst::Data(from_impl_data(d)),
        other => RConst::Opaque(format!("{:?}", other)),
    }
}

pub fn to_debruijn(t: &RTerm) -> Term<DeBruijn> {
    match t {
        RTerm::Var(i) => Term::Var(Rc::new(DeBruijn::new(*i))),
        RTerm::Lam(b) => Term::Lambda {
            parameter_name: Rc::new(DeBruijn::new(0)),
            body: Rc::new(to_debruijn(b)),
        },
        RTerm::App(f, a) => Term::Apply {
            function: Rc::new(to_debruijn(f)),
            argument: Rc::new(to_debruijn(a)),
        },
        RTerm::Delay(b) => Term::Delay(Rc::new(to_debruijn(b))),
        RTerm::Force(b) => Term::Force(Rc::new(to_debruijn(b))),
        RTerm::Error => Term::Error,
        RTerm::Con(c) => Term::Constant(Rc::new(to_impl_const(c))),
        RTerm::Builtin(b) => Term::Builtin(*b),
        RTerm::Constr(tag, fs) => Term::Constr {
            tag: *tag,
            fields: fs.iter().map(to_debruijn).collect(),
        },
        RTerm::Case(s, bs) => Term::Case {
            constr: Rc::new(to_debruijn(s)),
            branches: bs.iter().map(to_debruijn).collect(),
        },
    }
}

pub fn to_named_debruijn(t: &RTerm) -> Term<NamedDeBruijn> {
    match t {
        RTerm::Var(i) => Term::Var(Rc::new(NamedDeBruijn {
            text: "i".to_string(),
            index: DeBruijn::new(*i),
        })),
        RTerm::Lam(b) => Term::Lambda {
            parameter_name: Rc::new(NamedDeBruijn {
                text: "i".to_string(),
                index: DeBruijn::new(0),
            }),
            body: Rc::new(to_named_debruijn(b)),
        },
        RTerm::App(f, a) => Term::Apply {
            function: Rc::new(to_named_debruijn(f)),
            argument: Rc::new(to_named_debruijn(a)),
        },
        RTerm::Delay(b) => Term::Delay(Rc::new(to_named_debruijn(b))),
        RTerm::Force(b) => Term::Force(Rc::new(to_named_debruijn(b))),
        RTerm::Error => Term::Error,
        RTerm::Con(c) => Term::Constant(Rc::new(to_impl_const(c))),
        RTerm::Builtin(b) => Term::Builtin(*b),
        RTerm::Constr(tag, fs) => Term::Constr {
            tag: *tag,
            fields: fs.iter().map(to_named_debruijn).collect(),
        },
        RTerm::Case(s, bs) => Term::Case {
            constr: Rc::new(to_named_debruijn(s)),
            branches: bs.iter().map(to_named_debruijn).collect(),
        },
    }
}

pub trait IndexOf {
    fn idx(&self) -> usize;
}
impl IndexOf for DeBruijn {
    fn idx(&self) -> usize {
        self.inner()
    }
}
impl IndexOf for NamedDeBruijn {
    fn idx(&self) -> usize {
        self.index.inner()
    }
}

pub fn from_impl<T: IndexOf>(t: &Term<T>) -> RTerm {
    match t {
        Term::Var(n) => RTerm::Var(n.idx()),
        Term::Lambda { body, .. } => RTerm::Lam(Rc::new(from_impl(body))),
        Term::Apply { function, argument } => {
            RTerm::App(Rc::new(from_impl(function)), Rc::new(from_impl(argument)))
        }
        Term::Delay(b) => RTerm::Delay(Rc::new(from_impl(b))),
        Term::Force(b) => RTerm::Force(Rc::new(from_impl(b))),
        Term::Error => RTerm::Error,
        Term::Constant(c) => RTerm::Con(Rc::new(from_impl_const(c))),
        Term::Builtin(b) => RTerm::Builtin(*b),
        Term::Constr { tag, fields } => RTerm::Constr(*tag, fields.iter().map(from_impl).collect()),
        Term::Case { constr, branches } => {
            RTerm::Case(Rc::new(from_impl(constr)), branches.iter().map(from_impl).collect())
        }
    }
}
