//! Evidence, violations, known findings and the exit protocol shared by all checks.
//!
//! exit 0  – property held on everything explored (known findings are printed, not failed)
//! exit 1  – at least one violation whose signature is not in /verif/known_findings.json
//! exit 2  – machinery error (vacuous run, harness/impl binding broken, engine crash)

use serde_json::{Value as J, json};
use std::{
    collections::BTreeMap,
    sync::Mutex,
    time::Instant,
};

pub const VERIF_ROOT: &str = "/verif";

#[derive(Clone, Debug)]
pub struct Violation {
    /// Stable identity of the failure class: `kind|subject|input_class`. Computed by the
    /// harness from the *case*, never from a panic message or a line number.
    pub signature: String,
    /// Human readable description of what failed.
    pub what: String,
    /// Engine specific replayable case.
    pub case: J,
}

#[derive(Clone, Copy, Debug, PartialEq, Eq)]
pub enum Tier {
    Quick,
    Thorough,
}

impl Tier {
    pub fn as_str(&self) -> &'static str {
        match self {
            Tier::Quick => "quick",
            Tier::Thorough => "thorough",
        }
    }
}

pub struct Run {
    pub property: String,
    pub tier: Tier,
    pub seed: i64,
    start: Instant,
    pub coverage: BTreeMap<String, J>,
    pub assumptions: Vec<String>,
    pub samples: Vec<J>,
    violations: Mutex<Vec<Violation>>,
    pub machinery_errors: Mutex<Vec<String>>,
    pub exhaustive: bool,
    pub caps_hit: Vec<String>,
}

pub fn parse_args() -> (String, Tier, Option<String>) {
    let args: Vec<String> = std::env::args().collect();
    let mut prop = String::new();
    let mut tier = match std::env::var("VERIF_TIER").as_deref() {
        Ok("thorough") => Tier::Thorough,
        _ => Tier::Quick,
    };
    let mut replay = None;
    let mut i = 1;
    while i < args.len() {
        match args[i].as_str() {
            "--tier" => {
                i += 1;
                tier = if args[i] == "thorough" {
                    Tier::Thorough
                } else {
                    Tier::Quick
                };
            }
            "--replay" => {
                i += 1;
                replay = Some(args[i].clone());
            }
            s if prop.is_empty() => prop = s.to_string(),
            _ => {}
        }
        i += 1;
    }
    (prop, tier, replay)
}

impl Run {
    pub fn new(property: &str, tier: Tier) -> Run {
        let seed = std::env::var("VERIF_SEED")
            .ok()
            .and_then(|s| s.parse::<i64>().ok())
            .unwrap_or(0);
        Run {
            property: property.to_string(),
            tier,
            seed,
            start: Instant::now(),
            coverage: BTreeMap::new(),
            assumptions: vec![],
            samples: vec![],
            violations: Mutex::new(vec![]),
            machinery_errors: Mutex::new(vec![]),
            exhaustive: true,
            caps_hit: vec![],
        }
    }

    pub fn elapsed(&self) -> f64 {
        self.start.elapsed().as_secs_f64()
    }

    pub fn set(&mut self, key: &str, v: impl Into<J>) {
        self.coverage.insert(key.to_string(), v.into());
    }

    pub fn add(&mut self, key: &str, n: u64) {
        let cur = self
            .coverage
            .get(key)
            .and_then(|v| v.as_u64())
            .unwrap_or(0);
        self.coverage.insert(key.to_string(), json!(cur + n));
    }

    pub fn get(&self, key: &str) -> u64 {
        self.coverage
            .get(key)
            .and_then(|v| v.as_u64())
            .unwrap_or(0)
    }

    pub fn assume(&mut self, s: &str) {
        self.assumptions.push(s.to_string());
    }

    pub fn sample(&mut self, s: impl Into<J>) {
        if self.samples.len() < 24 {
            self.samples.push(s.into());
        }
    }

    pub fn violation(&self, v: Violation) {
        let mut g = self.violations.lock().unwrap();
        // keep memory bounded: at most 50 per signature
        if g.iter().filter(|x| x.signature == v.signature).count() < 50 {
            g.push(v);
        }
    }

    /// take what was recorded so far (replay modes that re-run a small family)
    pub fn take_violations(&self) -> Vec<Violation> {
        std::mem::take(&mut *self.violations.lock().unwrap())
    }

    pub fn violations_extend(&self, vs: Vec<Violation>) {
        for v in vs {
            self.violation(v);
        }
    }

    pub fn machinery_error(&self, s: impl Into<String>) {
        self.machinery_errors.lock().unwrap().push(s.into());
    }

    pub fn cap_hit(&mut self, s: &str) {
        self.exhaustive = false;
        self.caps_hit.push(s.to_string());
    }

    /// Write evidence, print protocol lines, and return the exit code.
    pub fn finish(mut self) -> i32 {
        let wall = self.elapsed();
        // panics that escaped the per-case guards
        for (idx, msg) in std::mem::take(&mut *crate::par::WORKER_PANICS.lock().unwrap()) {
            let file = panic_site_file(&msg);
            if msg.contains("/verif/") {
                self.machinery_error(format!("harness panic at enumeration index {idx}: {msg}"));
            } else {
                self.violation(Violation {
                    signature: format!("panic|while-handling-a-result|{file}"),
                    what: format!("the implementation panicked while the harness was rendering / converting / comparing a result (enumeration index {idx}): {msg}"),
                    case: json!({"engine":"worker-panic","index":idx,"panic":msg}),
                });
            }
        }
        let violations = std::mem::take(&mut *self.violations.lock().unwrap());
        let mach = std::mem::take(&mut *self.machinery_errors.lock().unwrap());
        let known = load_known(&self.property);

        // group by signature
        let mut by_sig: BTreeMap<String, Vec<Violation>> = BTreeMap::new();
        for v in violations {
            by_sig.entry(v.signature.clone()).or_default().push(v);
        }
        let mut new_sigs = vec![];
        let mut known_hit = vec![];
        for (sig, vs) in &by_sig {
            if let Some(k) = known.iter().find(|k| &k.0 == sig) {
                known_hit.push((k.clone(), vs.len()));
            } else {
                new_sigs.push(sig.clone());
            }
        }

        for ((sig, what), n) in &known_hit {
            println!(
                "KNOWN-FINDING: property={} {} [signature={}; {} case(s) this run]",
                self.property, what, sig, n
            );
        }
        let mut unreported = 0usize;
        let mut replay_paths = vec![];
        for sig in &new_sigs {
            let vs = &by_sig[sig];
            let v = &vs[0];
            let dir = format!("{}/replays/{}", VERIF_ROOT, self.property);
            let _ = std::fs::create_dir_all(&dir);
            let h = fnv(&format!("{}{}", sig, v.case));
            let path = format!("{}/{:016x}.json", dir, h);
            let doc = json!({
                "property": self.property,
                "signature": sig,
                "what": v.what,
                "case": v.case,
                "more_cases_with_same_signature": vs.iter().skip(1).take(5).map(|x| x.case.clone()).collect::<Vec<_>>(),
                "count_this_run": vs.len(),
            });
            let _ = std::fs::write(&path, serde_json::to_string_pretty(&doc).unwrap());
            if replay_paths.len() < 40 {
                println!("VIOLATION property={} replay={}", self.property, path);
                println!("  what: {}", v.what);
                println!("  signature: {}", sig);
            } else {
                unreported += 1;
            }
            replay_paths.push(path);
        }
        if unreported > 0 {
            println!("({} further violation signatures written to replays/ but not printed)", unreported);
        }
        for m in &mach {
            println!("MACHINERY-ERROR property={} {}", self.property, m);
        }

        // evidence
        let mut cov = serde_json::Map::new();
        for (k, v) in &self.coverage {
            cov.insert(k.clone(), v.clone());
        }
        if self.samples.is_empty() {
            self.samples.push(json!("(no sample recorded)"));
        }
        cov.insert("samples".into(), J::Array(self.samples.clone()));
        cov.insert("exhaustive".into(), json!(self.exhaustive));
        cov.insert("caps_hit".into(), json!(self.caps_hit));
        cov.insert(
            "known_findings_hit".into(),
            json!(known_hit.iter().map(|((s, _), n)| json!({"signature": s, "cases": n})).collect::<Vec<_>>()),
        );
        cov.insert("machinery_errors".into(), json!(mach));
        let ev = json!({
            "property_id": self.property,
            "tier": self.tier.as_str(),
            "seed": self.seed,
            "level": "model_checking",
            "coverage": J::Object(cov),
            "assumptions": self.assumptions,
            "wall_s": (wall * 1000.0).round() / 1000.0,
            "violations": new_sigs.len(),
        });
        let dir = format!("{}/evidence", VERIF_ROOT);
        let _ = std::fs::create_dir_all(&dir);
        let path = format!("{}/{}.json", dir, self.property);
        std::fs::write(&path, serde_json::to_string_pretty(&ev).unwrap()).expect("write evidence");

        println!(
            "[{}] tier={} wall={:.1}s violations(new)={} known-findings-hit={} exhaustive={} evidence={}",
            self.property,
            self.tier.as_str(),
            wall,
            new_sigs.len(),
            known_hit.len(),
            self.exhaustive,
            path
        );
        if !new_sigs.is_empty() {
            1
        } else if !mach.is_empty() {
            2
        } else {
            0
        }
    }
}

pub fn fnv(s: &str) -> u64 {
    let mut h: u64 = 0xcbf29ce484222325;
    for b in s.as_bytes() {
        h ^= *b as u64;
        h = h.wrapping_mul(0x100000001b3);
    }
    h
}

/// (signature, what) for every *open* finding of this property.
fn load_known(property: &str) -> Vec<(String, String)> {
    let path = format!("{}/known_findings.json", VERIF_ROOT);
    let Ok(text) = std::fs::read_to_string(&path) else {
        return vec![];
    };
    let Ok(doc) = serde_json::from_str::<J>(&text) else {
        eprintln!("known_findings.json does not parse; ignoring (nothing is suppressed)");
        return vec![];
    };
    let mut out = vec![];
    if let Some(arr) = doc.get("findings").and_then(|f| f.as_array()) {
        for f in arr {
            if f.get("property").and_then(|p| p.as_str()) == Some(property) {
                if let (Some(sig), Some(what)) = (
                    f.get("signature").and_then(|s| s.as_str()),
                    f.get("what").and_then(|s| s.as_str()),
                ) {
                    out.push((sig.to_string(), what.to_string()));
                }
            }
        }
    }
    out
}

/// Install a panic hook that stays silent (cases are run under catch_unwind) but records
/// the location of the last panic in a thread local, for diagnostics only.
pub fn silence_panics() {
    std::panic::set_hook(Box::new(|info| {
        let loc = info
            .location()
            .map(|l| format!("{}:{}", l.file(), l.line()))
            .unwrap_or_default();
        let msg = if let Some(s) = info.payload().downcast_ref::<&str>() {
            s.to_string()
        } else if let Some(s) = info.payload().downcast_ref::<String>() {
            s.clone()
        } else {
            "?".to_string()
        };
        LAST_PANIC.with(|p| *p.borrow_mut() = format!("{} @ {}", msg, loc));
    }));
}

thread_local! {
    pub static LAST_PANIC: std::cell::RefCell<String> = const { std::cell::RefCell::new(String::new()) };
}

pub fn last_panic() -> String {
    LAST_PANIC.with(|p| p.borrow().clone())
}

/// Run `f` under catch_unwind; Err(panic description) if it panicked.
pub fn guarded<T>(f: impl FnOnce() -> T) -> Result<T, String> {
    match std::panic::catch_unwind(std::panic::AssertUnwindSafe(f)) {
        Ok(v) => Ok(v),
        Err(_) => Err(last_panic()),
    }
}

/// Strip the line number / message details from a panic description so that it can be part
/// of a signature (file name only).
pub fn panic_site_file(desc: &str) -> String {
    match desc.rsplit_once(" @ ") {
        Some((_, loc)) => loc
            .rsplit_once(':')
            .map(|(f, _)| f.rsplit('/').next().unwrap_or(f).to_string())
            .unwrap_or_default(),
        None => String::new(),
    }
}
