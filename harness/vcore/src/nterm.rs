//! Named UPLC terms over a small set of colliding names, an exact-count enumerator, and
//! the reference binder resolution (explicit scope stack, innermost binder wins).

use crate::rterm::{RConst, RTerm};
use std::collections::HashMap;
use std::rc::Rc;
use uplc::ast::{Constant, Name, Term, Unique};
use uplc::builtins::DefaultFunction;

#[derive(Clone, Debug, PartialEq, Eq, Hash)]
pub enum NTerm {
    Var(usize),
    Lam(usize, Rc<NTerm>),
    App(Rc<NTerm>, Rc<NTerm>),
    Delay(Rc<NTerm>),
    Force(Rc<NTerm>),
    Error,
    One,
    Add,
    Constr(usize, Vec<NTerm>),
    Case(Rc<NTerm>, Vec<NTerm>),
}

/// (text, unique)
pub type NameSet = Vec<(&'static str, isize)>;

pub struct NEnum {
    pub names: usize,
    pub max_fields: usize,
    pub max_branches: usize,
    memo: HashMap<usize, u64>,
    seq_memo: HashMap<(usize, usize), u64>,
}

impl NEnum {
    pub fn new(names: usize, max_fields: usize, max_branches: usize) -> Self {
        NEnum { names, max_fields, max_branches, memo: HashMap::new(), seq_memo: HashMap::new() }
    }
    fn leaves(&self) -> u64 {
        self.names as u64 + 4 // vars, error, const, builtin, constr 0 []
    }
    pub fn count(&mut self, size: usize) -> u64 {
        if size == 0 {
            return 0;
        }
        if size == 1 {
            return self.leaves();
        }
        if let Some(c) = self.memo.get(&size) {
            return *c;
        }
        let mut t = self.names as u64 * self.count(size - 1); // lam
        t += 2 * self.count(size - 1);
        for i in 1..size.saturating_sub(1) {
            t += self.count(i) * self.count(size - 1 - i);
        }
        for k in 1..=self.max_fields {
            t += self.seq_count(k, size - 1);
        }
        for b in 0..=self.max_branches {
            for s in 1..size {
                t += self.count(s) * self.seq_count(b, size - 1 - s);
            }
        }
        self.memo.insert(size, t);
        t
    }
    pub fn seq_count(&mut self, k: usize, m: usize) -> u64 {
        if k == 0 {
            return if m == 0 { 1 } else { 0 };
        }
        if m < k {
            return 0;
        }
        if k == 1 {
            return self.count(m);
        }
        if let Some(c) = self.seq_memo.get(&(k, m)) {
            return *c;
        }
        let mut t = 0;
        for s in 1..=(m - (k - 1)) {
            t += self.count(s) * self.seq_count(k - 1, m - s);
        }
        self.seq_memo.insert((k, m), t);
        t
    }
    fn unrank_seq(&mut self, k: usize, m: usize, mut idx: u64) -> Vec<NTerm> {
        if k == 0 {
            return vec![];
        }
        if k == 1 {
            return vec![self.unrank(m, idx)];
        }
        for s in 1..=(m - (k - 1)) {
            let c1 = self.count(s);
            let c2 = self.seq_count(k - 1, m - s);
            if idx < c1 * c2 {
                let mut v = vec![self.unrank(s, idx / c2)];
                v.extend(self.unrank_seq(k - 1, m - s, idx % c2));
                return v;
            }
            idx -= c1 * c2;
        }
        unreachable!()
    }
    pub fn unrank(&mut self, size: usize, mut idx: u64) -> NTerm {
        if size == 1 {
            if (idx as usize) < self.names {
                return NTerm::Var(idx as usize);
            }
            return match idx as usize - self.names {
                0 => NTerm::Error,
                1 => NTerm::One,
                2 => NTerm::Add,
                _ => NTerm::Constr(0, vec![]),
            };
        }
        let c = self.count(size - 1);
        if idx < self.names as u64 * c {
            return NTerm::Lam((idx / c) as usize, Rc::new(self.unrank(size - 1, idx % c)));
        }
        idx -= self.names as u64 * c;
        if idx < c {
            return NTerm::Delay(Rc::new(self.unrank(size - 1, idx)));
        }
        idx -= c;
        if idx < c {
            return NTerm::Force(Rc::new(self.unrank(size - 1, idx)));
        }
        idx -= c;
        for i in 1..size.saturating_sub(1) {
            let c1 = self.count(i);
            let c2 = self.count(size - 1 - i);
            if idx < c1 * c2 {
                return NTerm::App(Rc::new(self.unrank(i, idx / c2)), Rc::new(self.unrank(size - 1 - i, idx % c2)));
            }
            idx -= c1 * c2;
        }
        for k in 1..=self.max_fields {
            let sc = self.seq_count(k, size - 1);
            if idx < sc {
                return NTerm::Constr(0, self.unrank_seq(k, size - 1, idx));
            }
            idx -= sc;
        }
        for b in 0..=self.max_branches {
            for s in 1..size {
                let c1 = self.count(s);
                let c2 = self.seq_count(b, size - 1 - s);
                if idx < c1 * c2 {
                    return NTerm::Case(Rc::new(self.unrank(s, idx / c2)), self.unrank_seq(b, size - 1 - s, idx % c2));
                }
                idx -= c1 * c2;
            }
        }
        unreachable!()
    }
    pub fn total(&mut self, max: usize) -> u64 {
        (1..=max).map(|s| self.count(s)).sum()
    }
    pub fn unrank_global(&mut self, max: usize, mut idx: u64) -> NTerm {
        for s in 1..=max {
            let c = self.count(s);
            if idx < c {
                return self.unrank(s, idx);
            }
            idx -= c;
        }
        unreachable!()
    }
}

pub fn show(t: &NTerm, names: &NameSet) -> String {
    let n = |i: &usize| format!("{}#{}", names[*i].0, names[*i].1);
    match t {
        NTerm::Var(i) => n(i),
        NTerm::Lam(i, b) => format!("(lam {} {})", n(i), show(b, names)),
        NTerm::App(f, a) => format!("[{} {}]", show(f, names), show(a, names)),
        NTerm::Delay(b) => format!("(delay {})", show(b, names)),
        NTerm::Force(b) => format!("(force {})", show(b, names)),
        NTerm::Error => "(error)".into(),
        NTerm::One => "(con integer 1)".into(),
        NTerm::Add => "(builtin addInteger)".into(),
        NTerm::Constr(t, fs) => format!("(constr {}{})", t, fs.iter().map(|f| format!(" {}", show(f, names))).collect::<String>()),
        NTerm::Case(s, bs) => format!("(case {}{})", show(s, names), bs.iter().map(|f| format!(" {}", show(f, names))).collect::<String>()),
    }
}

pub fn to_impl(t: &NTerm, names: &NameSet) -> Term<Name> {
    let n = |i: &usize| Rc::new(Name { text: names[*i].0.to_string(), unique: Unique::new(names[*i].1) });
    match t {
        NTerm::Var(i) => Term::Var(n(i)),
        NTerm::Lam(i, b) => Term::Lambda { parameter_name: n(i), body: Rc::new(to_impl(b, names)) },
        NTerm::App(f, a) => Term::Apply { function: Rc::new(to_impl(f, names)), argument: Rc::new(to_impl(a, names)) },
        NTerm::Delay(b) => Term::Delay(Rc::new(to_impl(b, names))),
        NTerm::Force(b) => Term::Force(Rc::new(to_impl(b, names))),
        NTerm::Error => Term::Error,
        NTerm::One => Term::Constant(Rc::new(Constant::Integer(1.into()))),
        NTerm::Add => Term::Builtin(DefaultFunction::AddInteger),
        NTerm::Constr(tag, fs) => Term::Constr { tag: *tag, fields: fs.iter().map(|f| to_impl(f, names)).collect() },
        NTerm::Case(s, bs) => Term::Case { constr: Rc::new(to_impl(s, names)), branches: bs.iter().map(|f| to_impl(f, names)).collect() },
    }
}

#[derive(Clone, Copy, PartialEq, Eq, Debug)]
pub enum Key {
    /// a binder is identified by its unique alone (what the de Bruijn converter documents)
    Unique,
    /// a binder is identified by (text, unique) (what the code-gen interner documents)
    Pair,
}

/// Reference resolution: Ok(de Bruijn term) or Err(index of the first free name in
/// left-to-right traversal order).
pub fn resolve(t: &NTerm, names: &NameSet, key: Key, scope: &mut Vec<usize>) -> Result<RTerm, usize> {
    let same = |a: usize, b: usize| match key {
        Key::Unique => names[a].1 == names[b].1,
        Key::Pair => names[a] == names[b],
    };
    Ok(match t {
        NTerm::Var(i) => {
            let mut found = None;
            for (d, b) in scope.iter().rev().enumerate() {
                if same(*b, *i) {
                    found = Some(d + 1);
                    break;
                }
            }
            match found {
                Some(ix) => RTerm::Var(ix),
                None => return Err(*i),
            }
        }
        NTerm::Lam(i, b) => {
            scope.push(*i);
            let r = resolve(b, names, key, scope);
            scope.pop();
            RTerm::Lam(Rc::new(r?))
        }
        NTerm::App(f, a) => RTerm::App(Rc::new(resolve(f, names, key, scope)?), Rc::new(resolve(a, names, key, scope)?)),
        NTerm::Delay(b) => RTerm::Delay(Rc::new(resolve(b, names, key, scope)?)),
        NTerm::Force(b) => RTerm::Force(Rc::new(resolve(b, names, key, scope)?)),
        NTerm::Error => RTerm::Error,
        NTerm::One => RTerm::Con(Rc::new(RConst::int(1))),
        NTerm::Add => RTerm::Builtin(DefaultFunction::AddInteger),
        NTerm::Constr(tag, fs) => {
            let mut v = vec![];
            for f in fs {
                v.push(resolve(f, names, key, scope)?);
            }
            RTerm::Constr(*tag, v)
        }
        NTerm::Case(s, bs) => {
            let s = resolve(s, names, key, scope)?;
            let mut v = vec![];
            for f in bs {
                v.push(resolve(f, names, key, scope)?);
            }
            RTerm::Case(Rc::new(s), v)
        }
    })
}
