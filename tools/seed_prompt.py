#!/usr/bin/env python3
"""Prints the prompt handed to an independent sub-agent that is asked to break a property.
usage: seed_prompt.py <Cxx> <worktree-dir> [extra hint]
The agent gets only the property record and its own scratch worktree (nothing from /verif)."""
import json, sys
pid, wt = sys.argv[1], sys.argv[2]
extra = sys.argv[3] if len(sys.argv) > 3 else ""
p = next(json.loads(l) for l in open('/verif/properties.jsonl') if json.loads(l)['id'] == pid)
rec = {k: p[k] for k in ('id', 'title', 'statement', 'quantifier', 'why_tests_cant', 'anchors')}
print(f"""You are helping to evaluate a verification framework for the Rust project aiken-lang/aiken (a Cardano smart-contract language toolchain: parser, type checker, UPLC code generator/optimiser, CEK evaluator).

You have your own scratch git worktree of the repository at {wt} (detached HEAD). Work ONLY inside {wt}. Do not read or touch /verif or /repo (another team's checks live there; your work must be independent of them). The sandbox is offline: always pass --offline to cargo. Use `CARGO_TARGET_DIR={wt}/target` (the default) so your build output stays in your worktree.

Here is a semantic property the project is supposed to satisfy (JSON record):

{json.dumps(rec, indent=1)}

YOUR TASK: produce ONE realistic change to the project's source (under {wt}/crates) that BREAKS this property, while
 (1) the project still compiles,
 (2) the project's existing test suite still passes: run
       cd {wt} && cargo nextest run --workspace --no-fail-fast --offline --test-threads 8 2>&1 | tail -15
     (if nextest is unavailable: cargo test --workspace --no-fail-fast --offline). All tests that pass before your change must pass after it. The build takes a few minutes the first time.
 (3) you have a DEMONSTRATION: a small Rust test or program (put it in {wt}/seed_demo/ as a standalone file or cargo test file, plus a README saying exactly how to run it) that FAILS with your change and PASSES without it (verify both; toggle your change with `git diff -- crates > /tmp/mine.diff; git apply -R /tmp/mine.diff` and `git apply /tmp/mine.diff` using a file name of your own - do NOT use `git stash`, the stash is shared with other worktrees of this repository).

The change must be subtle: the kind of bug a maintainer could plausibly introduce in a refactor (an off-by-one, a swapped argument, a dropped check, a wrong boundary, a stale cache, a missing case for one constructor, an ordering change), and it must need something SPECIFIC to manifest — a particular unusual input, a boundary value, a multi-step sequence of operations, a particular configuration, or two cooperating sites that each look fine alone — NOT something ordinary use would expose at once (if it broke every program the existing tests would catch it). Do not add new public API; do not touch tests; keep the diff small (ideally < 25 lines). Do not break the build of other crates. {extra}

When done:
 - write the diff to {wt}/seed_demo/patch.diff  (cd {wt} && git diff -- crates > seed_demo/patch.diff ; the diff must contain ONLY the source change, not the demo)
 - leave the demonstration and README in {wt}/seed_demo/
 - make sure the working tree still has your change applied.
 - run `cargo clean` is NOT needed; leave the build output.
Report back: (a) the diff, (b) what exactly is needed for the bug to manifest, (c) the exact commands you ran for the existing suite with and without the change and their summary lines, (d) how to run the demonstration and its output with and without the change. If after real effort you cannot find a change that passes the existing suite, say so plainly rather than handing in something the suite catches.
""")
