#!/opt/veriftools/pyvenv/bin/python
"""Validate MANIFEST.json and every evidence file against the schemas."""
import json, jsonschema, glob, sys
ok = True
try:
    jsonschema.validate(json.load(open('/verif/MANIFEST.json')), json.load(open('/root/.vp/MANIFEST.schema.json')))
except Exception as e:
    print("MANIFEST invalid:", str(e)[:500]); ok = False
es = json.load(open('/root/.vp/EVIDENCE.schema.json'))
for f in sorted(glob.glob('/verif/evidence/*.json')):
    try:
        jsonschema.validate(json.load(open(f)), es)
    except Exception as e:
        print(f, "invalid:", str(e)[:300]); ok = False
m = json.load(open('/verif/MANIFEST.json'))
ids = {c['property_id'] for c in m['checks']} | {c['property_id'] for c in m.get('not_applicable', [])}
print("valid" if ok else "INVALID", "claimed", sorted(c['property_id'] for c in m['checks']), "props covered", len(ids))
sys.exit(0 if ok else 1)
