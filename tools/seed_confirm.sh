#!/bin/bash
# usage: [DEMO_CMD="cmd run from the worktree root"] seed_confirm.sh <seed-name> <property> <worktree> [demo test args]
# Confirms a seeded change independently of the sub-agent that produced it:
#  1. with the change: the repository's suite passes, the demonstration fails
#  2. without the change: the demonstration passes
#  3. copies patch + demo into /verif/seeded/<seed-name>/
#  4. applies the patch to /repo, runs the property's quick check, reverts /repo
NAME=$1; PROP=$2; WT=$3; shift 3
OUT=/verif/seeded/$NAME
mkdir -p "$OUT"
LOG=$OUT/confirm.log
: > "$LOG"
export CARGO_NET_OFFLINE=true
cd "$WT" || exit 2
echo "== suite with change" | tee -a "$LOG"
(cargo nextest run --workspace --no-fail-fast --offline --test-threads 8 2>&1 | grep -E "Summary|FAIL" | head -20) | tee -a "$LOG"
echo "== demo with change (expected to fail)" | tee -a "$LOG"
demo() {
  if [ -n "${DEMO_CMD:-}" ]; then (cd "$WT" && CARGO_TARGET_DIR=$WT/target bash -c "$DEMO_CMD" 2>&1 | grep -E "^test |test result|PANIC|FAILED|failed:" | head -40)
  else (cd seed_demo && CARGO_TARGET_DIR=$WT/target cargo test --offline "$@" 2>&1 | grep -E "^test |test result" | head -40); fi
}
demo "$@" | tee -a "$LOG"
git diff -- crates > "$OUT/patch.diff"
git apply -R "$OUT/patch.diff"   # (not `git stash`: the stash is shared between worktrees)
echo "== demo without change (expected to pass)" | tee -a "$LOG"
demo "$@" | tee -a "$LOG"
git apply "$OUT/patch.diff"
mkdir -p "$OUT/demo"
rsync -a --exclude target --exclude '*.log' seed_demo/ "$OUT/demo/" 2>/dev/null
rm -f "$OUT/demo/patch.diff"
echo "== my check on /repo with the patch applied" | tee -a "$LOG"
if git -C /repo apply --check "$OUT/patch.diff" 2>>"$LOG"; then
  git -C /repo apply "$OUT/patch.diff"
  for P in $PROP; do
    (cd /verif && timeout 1500 ./check $P --tier quick 2>&1 | grep -E "^VIOLATION|^\[C|^MACHINERY|signature:|what:" | cut -c1-300 | head -12) | tee -a "$LOG"
  done
  git -C /repo checkout -- .
else
  echo "PATCH DOES NOT APPLY to /repo HEAD" | tee -a "$LOG"
fi
echo "== done" | tee -a "$LOG"
# rebuild the harness on the clean tree: the binaries under /verif/target were just built against the patched sources
(cd /verif/harness && CARGO_NET_OFFLINE=true cargo build --offline --release -p h_uplc -p h_lang -p h_proj >/dev/null 2>&1)
