#!/bin/bash
# usage: seed_check.sh <seed-name> <property...>   applies /verif/seeded/<name>/patch.diff to /repo,
# runs the quick check(s), reverts /repo.  Prints the outcome lines.
NAME=$1; shift
P=/verif/seeded/$NAME/patch.diff
git -C /repo diff --quiet || { echo "/repo has uncommitted changes; refusing"; exit 2; }
git -C /repo apply "$P" || { echo "patch does not apply"; exit 2; }
trap 'git -C /repo checkout -- .' EXIT
for PROP in "$@"; do
  (cd /verif && timeout 1800 ./check $PROP --tier quick 2>&1 | grep -E "^VIOLATION|^\[C|^MACHINERY|signature:|what:" | cut -c1-400 | head -14)
done
# rebuild the harness on the clean tree: the binaries under /verif/target were just built against the patched sources
git -C /repo checkout -- .
(cd /verif/harness && CARGO_NET_OFFLINE=true cargo build --offline --release -p h_uplc -p h_lang -p h_proj >/dev/null 2>&1)
