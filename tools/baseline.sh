#!/bin/bash
# Run the repository's pinned test suite (guard OFF) and compare with BASELINE.json.
# usage: tools/baseline.sh [repo_dir]   (default /repo)
REPO=${1:-/repo}
cd "$REPO" || exit 2
export CARGO_NET_OFFLINE=true
rm -f target/nextest/pb/junit.xml
cargo nextest run --workspace --no-fail-fast --tool-config-file pb:/w/lib/nextest.toml --profile pb --test-threads 8 --offline > /tmp/baseline_run.log 2>&1
python3 - "$REPO" <<'PY'
import json,sys,xml.etree.ElementTree as ET
repo=sys.argv[1]
b=json.load(open('/root/.vp/BASELINE.json'))
root=ET.parse(repo+'/target/nextest/pb/junit.xml').getroot()
passed=set(); failed=set()
for tc in root.iter('testcase'):
    tid=(tc.get('classname') or '')+'::'+(tc.get('name') or '')
    if tc.find('failure') is not None or tc.find('error') is not None: failed.add(tid)
    else: passed.add(tid)
want=set(b['stable_pass'])
missing=sorted(want-passed)
print(f"baseline: {len(want)} expected, {len(want&passed)} passed, {len(missing)} missing/failed, {len(failed)} failed overall")
for m in missing[:40]: print("  NOT PASSING:", m)
sys.exit(1 if missing else 0)
PY
