#!/usr/bin/env python3
"""Regenerates /verif/MANIFEST.json from the table below (single source of truth)."""
import json, subprocess

props = [json.loads(l) for l in open('/verif/properties.jsonl')]

# id -> dict(engine, technique, text, note, design_ref)
CLAIMED = {
 "C01": dict(engine="h_lang", design_ref="DESIGN.md §4 C01",
   technique="bounded exhaustive enumeration of typed Aiken function bodies x full argument products, each compiled by the real pipeline and evaluated on the real machine; oracle: an independent reference interpreter of the source semantics",
   text="Every function body up to a size bound in each of 13 strata that are closed under typing (arithmetic/comparison/if/let; connectives with fail/todo/trace operands; when over ADTs, records, tuples, options, lists and a recursive tree; recursive/higher-order/generic helpers; expect patterns; Data up- and down-casts; lambdas, captures, pipes; structural equality) - 107k functions quick - is parsed, type-checked and compiled by the real code generator and optimiser, applied to the full cartesian product of its parameters' value universes (3.9M evaluations quick) and compared with a strict big-step reference interpreter written from the language reference: same value, or both abort. A disagreement that is absent before optimisation is attributed to the optimiser and reported under C02's signature.",
   note="trusted: h_lang::ak (printer emitting fully bracketed source + interpreter: strict left-to-right, first-match when, floor division/modulo, short-circuit connectives, Data encoding of values); unused lets are not evaluated (documented behaviour); only the fragment and the argument alphabet are covered"),
 "C02": dict(engine="h_lang", design_ref="DESIGN.md §4 C02",
   technique="explicit-state exploration of the optimiser's pass sequence on real compiler output (states = programs after each public pass, replayed by the harness and bound to the pipeline's own result by byte equality), every state evaluated on the full argument product and compared with the pre-optimisation state",
   text="For every function of the C01 strata and for a constant-folding family (every foldable builtin applied to boundary literals inside an Aiken body) the program handed to the optimiser is captured (hook H1); the harness applies the public passes in the order of aiken_optimize_and_intern, checks that its final state is flat-byte-identical to what the pipeline returned (binding), and evaluates every distinct intermediate and final state on every argument tuple: failure/constant result must equal that of the pre-optimisation program; no pass may panic or produce an open term.",
   note="a state is given meaning by erasing the `__no_inline__` marker lambdas (annotations, not binders) and applying the pipeline's own CodeGenInterner to a copy (binder identity of generated names is (text, unique); checked by C11); quick tier evaluates all intermediate states for every 4th function and s0 vs final for the rest; acceptance-project validators are not yet fed through this check"),
 "C03": dict(engine="h_uplc", design_ref="DESIGN.md §4 C03",
   technique="bounded exhaustive enumeration of closed UPLC terms, each executed on the real evaluator and on an independent reference CEK machine",
   text="Every closed term up to a size bound (full alphabet: size<=5 quick / <=6 thorough; small alphabet two sizes deeper) under each of the five semantics variants is evaluated by the real machine and by a reference CEK machine written from the specification; results (discharged value or failure) must coincide. Complete within the bound, silent beyond it.",
   note="trusted: the reference machine vcore::cek_ref (own term type, persistent environments, spec-style discharge) and the spec-transcribed builtin signature table; builtin denotations beyond the 8 in the alphabet are C04's job"),
 "C04": dict(engine="h_uplc", design_ref="DESIGN.md §4 C04",
   technique="bounded exhaustive enumeration of saturated builtin applications (full cartesian product of per-position boundary sets x 5 semantics variants) on the real evaluator; oracle: independent Python denotations written from the builtin specification; BLS12-381 by exhaustive algebraic laws over a point x scalar alphabet",
   text="For each of the 72 non-BLS builtins the full cartesian product of per-argument boundary sets (integers around 2^31/2^63/2^64/2^127/2^128 and the 8192-byte limits, byte strings at 0/1/31/32/33/64/255/256 bytes, non-ASCII strings, Data in every tag encoding, lists, pairs, wrong-typed and non-constant arguments; 211k tuples quick, 560k thorough) is evaluated under each of the variants A-E through Program::eval_version_with_protocol and compared (value or failure) with a Python model of the specification; every application is evaluated twice (determinism, incl. cost). The 17 BLS12-381 builtins are checked by group laws, scalar multiplication vs repeated addition, group order, canonical encodings under every single-bit flip, bilinearity and multi-scalar multiplication = sum, over a point x scalar alphabet (6k law instances quick).",
   note="trusted: /verif/oracle/*.py (self-tested against worked examples of CIP-121/122/123, hashlib and RFC vectors); the oracle answers `undefined` (counted, not compared) where the variant-specific rule could not be confirmed offline (shift/rotate amounts outside i64 under variant E, some dropList/serialiseData classes); BLS correctness only up to the laws; cost is not modelled (an expected value whose literal-size cost exceeds the harness budget is counted as inconclusive)"),
 "C05": dict(engine="h_uplc", design_ref="DESIGN.md §4 C05",
   technique="bounded exhaustive enumeration of closed UPLC terms x slippages x budgets on the real machine; oracle: accounting identity from an independent reference machine's step/builtin-call counts, threshold law, golden budgets, size-bucket relations",
   text="For every closed term up to the size bound that terminates (per the reference machine), under each semantics variant: the charged cost equals startup + sum over step kinds of count x step cost + the costs of the saturated builtin calls, with counts and call arguments taken from the independent reference machine; the cost is identical for 9 slippage values; for 7 budgets around the exact cost evaluation succeeds iff the budget covers the cost component-wise (OutOfExError otherwise, remaining budget never negative); the 655 V3 conformance budget goldens are reproduced exactly; and for every size-costed builtin, arguments of equal size measure cost the same and cost is monotone across bucket boundaries.",
   note="trusted: cek_ref's step counting; BuiltinCosts::to_ex_budget is used for the per-call term of the identity and is itself pinned by the goldens and the size-bucket relations; V2 budget goldens excluded (no in-repo cost vector reproduces them, DESIGN §4 C05)"),
 "C06": dict(engine="h_lang", design_ref="DESIGN.md §4 C06",
   technique="bounded exhaustive enumeration of type-checked Aiken functions x valid argument encodings on the real machine; oracle: classification of the machine's error (structural errors and panics forbidden)",
   text="Every function body of the 14 strata (each accepted by the real type checker) is compiled and run on the full cartesian product of valid encodings of its parameter types (Data parameters: the whole Data universe); each of the ~3.9M evaluations is classified: TypeMismatch, NonFunctionalApplication, OpenTermEvaluated, MissingCaseBranch, NotAConstant, NonConstrScrutinized and the other structural machine errors, or a panic, are violations; DivideByZero, EmptyList, DeserialisationError and explicit failure are the permitted ways to stop.",
   note="the candidate space is the typed enumerator's (C01's) rather than all untyped candidates filtered by the checker; opaque types and aiken/builtin wrappers beyond the constant-folding family are not in the fragment yet"),
 "C12": dict(engine="h_proj", design_ref="DESIGN.md §4 C12",
   technique="bounded exhaustive enumeration of (type, Data) pairs over a depth-bounded Data universe plus the single-change mutation ball of every valid value; three-way comparison of the real schema validator, the compiled on-chain decoder and the documented encoding",
   text="For each of 22 types (primitives, Option/List nestings, tuples, List<Pair> maps, enums, multi-constructor ADTs, records, a generic box, a recursive tree) a scratch project built by the real Project exports an encoder and a decoder (`expect _: T = d`); for every Data value of the depth-2 universe (1.7k quick, 236k thorough) and every single-change mutation (tag, arity, field order, leaf kind, list/constr/map confusion) of every valid value: Parameter::validate against the exported schema accepts it iff the compiled decoder succeeds iff the documented encoding accepts it; the compiled up-cast of every valid value must produce the documented encoding; validation may not panic.",
   note="trusted: h_lang::ak::from_data / to_data (documented Data encoding); types with @tag / @list decorators, opaque wrappers and aliases are not in the universe yet; top-level Pair parameters are out of scope"),
 "C17": dict(engine="h_proj", design_ref="DESIGN.md §4 C17",
   technique="exhaustive enumeration of test-set configurations (all subsets up to a size bound x trace levels) with an ownership audit of every reference-counted allocation entering the parallel section (hook H2): the audit decides the independence relation under which one schedule represents all; plus re-runs under 1/2/3/16 threads",
   text="For every subset of size <= 2 (3 thorough) and the whole set of 16 collision-prone tests (unit and property tests sharing list/pair/nested/derived module constants, a hoisted generic function, user types, fuzzers; expected failures) under each trace level, hook H2 hands the harness the exact Vec<Test> about to enter rayon; every Rc reachable from each test's program(s) is walked: allocations of different tests must be pairwise disjoint, every allocation's strong count must equal the number of references from inside its own test (nothing the main thread keeps co-owns it), and no unit test may still carry its typed-AST assertion. Each test's reported result must be identical in every selection, and a spanning family is re-run in child processes with RAYON_NUM_THREADS in {1,2,3,16} and compared.",
   note="rayon's schedules themselves are not enumerated (rayon is invisible to loom/shuttle): the audit establishes that worker transitions commute, rayon's order-preserving collect is trusted; Fuzzer.type_info (Rc<Type> shared with the AST) is excluded because Test::run never touches it; H1's thread-local copies are dropped before counting owners (they exist only under the hooks feature)"),
 "C18": dict(engine="h_proj", design_ref="DESIGN.md §4 C18",
   technique="explicit-state breadth-first search over blueprint states (JSON text, re-parsed at every step as the CLI does) whose transitions are the real Blueprint::apply_parameter; invariants evaluated in every state, including behavioural equality with the function applied to the same parameters",
   text="Initial state: the blueprint the real Project::build writes for five purpose-built validators with 1-3 parameters (Int, ByteArray, enum, List<Int>, Option<Int>, tuple, record, Data, the same type twice) whose two handlers accept exactly the redeemer built from all parameter values. Operations at each state: apply_parameter with conforming values of the next parameter's type, the mutation ball of one of them, and values of the other parameters' types. Invariants in every state: a non-conforming value is rejected without panic and leaves the blueprint unchanged; a conforming one is accepted and the remaining parameters are exactly the tail for every handler entry; the JSON round trip is the identity; the published hash is an independent blake2b-224 of 03||compiledCode; sibling handlers share one program; every completion with remaining conforming values accepts exactly the redeemer built from all parameters (mint and spend); complete states equal apply_params_to_script with all parameters at once; nothing can be applied beyond the last parameter.",
   note="Plutus V3 only (ProjectConfig rejects other versions); script contexts are minimal hand-built Data (the handlers ignore everything but purpose and redeemer); also serves the blueprint/hash half of C08"),
 "C14": dict(engine="h_lang", design_ref="DESIGN.md §4 C14",
   technique="bounded exhaustive enumeration of Aiken functions, each type-checked and compiled under all 9 Tracing values and evaluated on the full argument product; oracle: the nine builds agree on failure/value",
   text="Every function of the strata (the trace-operand stratum at its full bound; strata with trace, ?, expect, fail, todo, casts one size smaller; the rest two sizes smaller in the quick tier) is type-checked and generated under each of the 3 scopes x 3 levels of Tracing and run on every argument tuple; the verdict and result constant must equal the all-silent build's. The evidence reports how many functions compile to different code under verbose tracing (non-vacuity).",
   note="nine builds per function make the quick tier wall-capped on a loaded machine (reported as exhaustive=false with the number of batches completed; traced strata are scheduled first); traces, size and cost are not compared"),
 "C16": dict(engine="h_lang", design_ref="DESIGN.md §4 C16",
   technique="explicit-state exploration of the real shrinker and cache from every start state / query history up to a bound, driven by abstract prefix-consuming fuzzers; invariants re-checked by uncached runs",
   text="(a) From every start state - every choice sequence of length <= 6 (8 thorough) over {0,1,2,3,255} that one of 8 abstract fuzzer shapes consumes entirely and on which one of 6 properties fails - the real Counterexample::simplify is run; afterwards, with fresh uncached runs: the final choices still falsify the property, the final value is what they generate, the result is not larger than the start in shortlex order, simplifying again with a fresh cache changes nothing, and the number of runs stays under an explicit horizon (termination). (c) Every sequence of up to 3 (4) Cache::get queries over 40 keys is replayed on a real Cache and each answer compared with the uncached run.",
   note="the real PropertyTest::run loop over compiled Aiken fuzzers (seed reproducibility, labels, OnTestFailure modes) is not built yet: only the shrinker and its cache are covered; abstract fuzzers are prefix-consuming like every fuzzer built from the PRNG primitives"),
 "C08": dict(engine="h_uplc", design_ref="DESIGN.md §4 C08",
   technique="bounded exhaustive enumeration of programs over serialisation-boundary constants through the real flat/CBOR/hex encoders and decoders; oracle: round-trip identities plus an independent flat encoder and an independent blake2b-224",
   text="Every closed program up to a size bound (all builtins and 42 serialisation-boundary constants at size<=3; a structural alphabet to size 6), in de Bruijn / named de Bruijn / named form and four version triples, is encoded by the real encoder and by an independent flat encoder (must agree bit for bit), decoded back (must be equal), re-encoded (bit-identical), passed through CBOR and hex, and its script hash for V1/V2/V3 is compared with an independent blake2b-224 of version byte || cbor; addresses must carry that hash. Non-canonical Data CBOR variants inside constants are decoded and re-encoded (bit-preservation; three known findings).",
   note="uplc half: the blueprint JSON / CLI-composition half is checked with the h_proj engine (C18 invariants); trusted: vcore::flat_ref (written from the flat specification) and vcore::blake2b (RFC 7693, cross-checked against hashlib at self-test)"),
 "C10": dict(engine="h_uplc", design_ref="DESIGN.md §4 C10",
   technique="bounded exhaustive enumeration of open/ill-typed terms x budgets x variants and of every builtin x every tuple of value kinds on the real evaluator; oracle: terminates with value or error",
   text="All terms (free indices, index 0, ill-typed) up to a size bound x 4 budgets x 5 variants, and every builtin applied to the full cartesian product of 27 value kinds (integer boundaries, wrong types, non-constants) x 5 variants, run on the real machine under catch_unwind with overflow checks on; any panic is a violation; rendering the returned error is part of the case.",
   note="evaluator half only so far (compiler half is built with the h_lang engine); stack exhaustion on very deep terms is outside the size bound and not claimed"),
 "C11": dict(engine="h_uplc", design_ref="DESIGN.md §4 C11",
   technique="bounded exhaustive enumeration of named and de Bruijn terms over colliding names, compared with an independent scope-stack binder resolution",
   text="Every named term up to a size bound over colliding name sets and every de Bruijn term with indices 0..depth+1 is pushed through the real conversions (Name<->DeBruijn<->NamedDeBruijn, CodeGenInterner) and compared with an independent binder resolution: same image for closed terms, an error exactly for terms with a free variable, identity on round trips, equal evaluation results.",
   note="trusted: vcore::nterm::resolve (explicit scope stack); binder identity = unique for the converter and (text,unique) for CodeGenInterner as documented in the code"),
 "C15": dict(engine="h_uplc", design_ref="DESIGN.md §4 C15",
   technique="bounded exhaustive enumeration of programs/constants/strings through the real printer and parser; oracle: parse(print(p)) == p and print idempotence",
   text="Every builtin, constants of every type nesting to depth 2, every Unicode scalar value as a string, all 2-character combinations of special characters, and every closed program up to a size bound over mixed leaves with identifier-alphabet names are printed by the real printer, parsed by the real parser and compared structurally (binders by de Bruijn image); printing the parse result must reproduce the text.",
   note="Data compared by abstract value (text cannot express definite/indefinite arrays); Bls12_381MlResult excluded (no concrete syntax by specification)"),
}

NOT_YET = "check not built yet (work in progress; see DESIGN.md §9 for the build order)"

def main():
    head = subprocess.run(['git','-C','/repo','log','--format=%h %s'],capture_output=True,text=True).stdout.strip().split('\n')
    hook_commits = [l.split()[0] for l in head if l.split(' ',1)[1].startswith('verif-hooks:')]
    m = {
     "version": 1,
     "setup_cmd": "./setup.sh",
     "hooks": {
        "guard": "cargo feature `verif-hooks` (on aiken-lang; aiken-project forwards it)",
        "enable": "harness crates h_lang / h_proj depend on /repo/crates/* by path with features=[\"verif-hooks\"]; nothing else enables the feature",
        "baseline_off_cmd": "/verif/tools/baseline.sh /repo",
        "source_commits": hook_commits,
        "add_only": True,
     },
     "engines": [
        {"name":"h_uplc","path":"harness/h_uplc","serves_properties":[p for p,v in CLAIMED.items() if v['engine']=="h_uplc"],"kind_free_text":"bounded exhaustive enumeration (unranking by exact counts) of UPLC terms / builtin applications / byte strings, reference models in vcore"},
        {"name":"h_lang","path":"harness/h_lang","serves_properties":[p for p,v in CLAIMED.items() if v['engine']=="h_lang"],"kind_free_text":"typed Aiken program enumerator + reference interpreter; explicit-state search over optimiser passes and shrinker"},
        {"name":"h_proj","path":"harness/h_proj","serves_properties":[p for p,v in CLAIMED.items() if v['engine']=="h_proj"],"kind_free_text":"explicit-state BFS over real code generator / blueprint objects; Rc-graph independence audit"},
     ],
     "checks": [],
     "not_applicable": [],
     "notes": "All checks: exit 0 held / exit 1 + VIOLATION line / exit 2 machinery error. Known findings: /verif/known_findings.json. ./check <id> --tier quick|thorough rebuilds the harness against /repo's working tree.",
    }
    for p in props:
        pid = p['id']
        if pid in CLAIMED:
            c = CLAIMED[pid]
            m["checks"].append({
              "property_id": pid,
              "quick_cmd": f"./check {pid} --tier quick",
              "thorough_cmd": f"./check {pid} --tier thorough",
              "evidence_file": f"/verif/evidence/{pid}.json",
              "replay_cmd_template": f"./check {pid} --replay {{path}}",
              "engine": c['engine'],
              "level_claimed": {"category":"model_checking","text":c['text'],"design_ref":c['design_ref']},
              "level_note": c['note'],
              "technique": c['technique'],
            })
        else:
            m["not_applicable"].append({"property_id": pid, "reason": NOT_YET})
    json.dump(m, open('/verif/MANIFEST.json','w'), indent=1)
    print("claimed:", sorted(CLAIMED), "not yet:", [x['property_id'] for x in m['not_applicable']])

main()
