#!/bin/bash
# Run every check of one tier on the current tree and print one line per property.
# usage: tools/run_all.sh [quick|thorough]
TIER=${1:-quick}
cd /verif
for p in C01 C02 C03 C04 C05 C06 C07 C08 C09 C10 C11 C12 C13 C14 C15 C16 C17 C18 C19 C20; do
  s=$(date +%s)
  out=$(./check $p --tier $TIER 2>/dev/null | grep "^\[$p\]" | tail -1)
  echo "$p exit=${PIPESTATUS[0]} $(( $(date +%s) - s ))s $out"
done
