"""Pure-Python keccak_256 and ripemd_160 (hashlib may lack them), plus hashlib wrappers."""
import hashlib

M64 = (1 << 64) - 1

_RC = [
    0x0000000000000001, 0x0000000000008082, 0x800000000000808A, 0x8000000080008000,
    0x000000000000808B, 0x0000000080000001, 0x8000000080008081, 0x8000000000008009,
    0x000000000000008A, 0x0000000000000088, 0x0000000080008009, 0x000000008000000A,
    0x000000008000808B, 0x800000000000008B, 0x8000000000008089, 0x8000000000008003,
    0x8000000000008002, 0x8000000000000080, 0x000000000000800A, 0x800000008000000A,
    0x8000000080008081, 0x8000000000008080, 0x0000000080000001, 0x8000000080008008,
]
# rotation offsets r[x][y]
_ROT = [
    [0, 36, 3, 41, 18],
    [1, 44, 10, 45, 2],
    [62, 6, 43, 15, 61],
    [28, 55, 25, 21, 56],
    [27, 20, 39, 8, 14],
]


def _rol64(v, n):
    n %= 64
    return ((v << n) | (v >> (64 - n))) & M64 if n else v


def _keccak_f(A):
    for rnd in range(24):
        C = [A[x][0] ^ A[x][1] ^ A[x][2] ^ A[x][3] ^ A[x][4] for x in range(5)]
        D = [C[(x - 1) % 5] ^ _rol64(C[(x + 1) % 5], 1) for x in range(5)]
        for x in range(5):
            for y in range(5):
                A[x][y] ^= D[x]
        B = [[0] * 5 for _ in range(5)]
        for x in range(5):
            for y in range(5):
                B[y][(2 * x + 3 * y) % 5] = _rol64(A[x][y], _ROT[x][y])
        for x in range(5):
            for y in range(5):
                A[x][y] = B[x][y] ^ ((~B[(x + 1) % 5][y]) & M64 & B[(x + 2) % 5][y])
        A[0][0] ^= _RC[rnd]
    return A


def _keccak(data, rate, suffix, outlen):
    A = [[0] * 5 for _ in range(5)]
    msg = bytearray(data)
    msg.append(suffix)
    while len(msg) % rate:
        msg.append(0)
    msg[-1] |= 0x80
    for off in range(0, len(msg), rate):
        block = msg[off:off + rate]
        for i in range(rate // 8):
            lane = int.from_bytes(block[8 * i:8 * i + 8], "little")
            A[i % 5][i // 5] ^= lane
        _keccak_f(A)
    out = b""
    for i in range(rate // 8):
        out += A[i % 5][i // 5].to_bytes(8, "little")
    return out[:outlen]


def keccak_256(data):
    return _keccak(data, 136, 0x01, 32)


def sha3_256_pure(data):
    return _keccak(data, 136, 0x06, 32)


def sha3_256(data):
    return hashlib.sha3_256(data).digest()


def sha2_256(data):
    return hashlib.sha256(data).digest()


def blake2b_256(data):
    return hashlib.blake2b(data, digest_size=32).digest()


def blake2b_224(data):
    return hashlib.blake2b(data, digest_size=28).digest()


# ---------------- RIPEMD-160 ----------------
M32 = 0xFFFFFFFF
_RL = [
    0, 1, 2, 3, 4, 5, 6, 7, 8, 9, 10, 11, 12, 13, 14, 15,
    7, 4, 13, 1, 10, 6, 15, 3, 12, 0, 9, 5, 2, 14, 11, 8,
    3, 10, 14, 4, 9, 15, 8, 1, 2, 7, 0, 6, 13, 11, 5, 12,
    1, 9, 11, 10, 0, 8, 12, 4, 13, 3, 7, 15, 14, 5, 6, 2,
    4, 0, 5, 9, 7, 12, 2, 10, 14, 1, 3, 8, 11, 6, 15, 13,
]
_RR = [
    5, 14, 7, 0, 9, 2, 11, 4, 13, 6, 15, 8, 1, 10, 3, 12,
    6, 11, 3, 7, 0, 13, 5, 10, 14, 15, 8, 12, 4, 9, 1, 2,
    15, 5, 1, 3, 7, 14, 6, 9, 11, 8, 12, 2, 10, 0, 4, 13,
    8, 6, 4, 1, 3, 11, 15, 0, 5, 12, 2, 13, 9, 7, 10, 14,
    12, 15, 10, 4, 1, 5, 8, 7, 6, 2, 13, 14, 0, 3, 9, 11,
]
_SL = [
    11, 14, 15, 12, 5, 8, 7, 9, 11, 13, 14, 15, 6, 7, 9, 8,
    7, 6, 8, 13, 11, 9, 7, 15, 7, 12, 15, 9, 11, 7, 13, 12,
    11, 13, 6, 7, 14, 9, 13, 15, 14, 8, 13, 6, 5, 12, 7, 5,
    11, 12, 14, 15, 14, 15, 9, 8, 9, 14, 5, 6, 8, 6, 5, 12,
    9, 15, 5, 11, 6, 8, 13, 12, 5, 12, 13, 14, 11, 8, 5, 6,
]
_SR = [
    8, 9, 9, 11, 13, 15, 15, 5, 7, 7, 8, 11, 14, 14, 12, 6,
    9, 13, 15, 7, 12, 8, 9, 11, 7, 7, 12, 7, 6, 15, 13, 11,
    9, 7, 15, 11, 8, 6, 6, 14, 12, 13, 5, 14, 13, 13, 7, 5,
    15, 5, 8, 11, 14, 14, 6, 14, 6, 9, 12, 9, 12, 5, 15, 8,
    8, 5, 12, 9, 12, 5, 14, 6, 8, 13, 6, 5, 15, 13, 11, 11,
]
_KL = [0x00000000, 0x5A827999, 0x6ED9EBA1, 0x8F1BBCDC, 0xA953FD4E]
_KR = [0x50A28BE6, 0x5C4DD124, 0x6D703EF3, 0x7A6D76E9, 0x00000000]


def _rol32(v, n):
    return ((v << n) | (v >> (32 - n))) & M32


def _f(j, x, y, z):
    if j < 16:
        return x ^ y ^ z
    if j < 32:
        return (x & y) | (~x & M32 & z)
    if j < 48:
        return (x | (~y & M32)) ^ z
    if j < 64:
        return (x & z) | (y & (~z & M32))
    return x ^ (y | (~z & M32))


def ripemd_160(data):
    h = [0x67452301, 0xEFCDAB89, 0x98BADCFE, 0x10325476, 0xC3D2E1F0]
    msg = bytearray(data)
    bitlen = (len(data) * 8) & M64
    msg.append(0x80)
    while len(msg) % 64 != 56:
        msg.append(0)
    msg += bitlen.to_bytes(8, "little")
    for off in range(0, len(msg), 64):
        X = [int.from_bytes(msg[off + 4 * i:off + 4 * i + 4], "little") for i in range(16)]
        al, bl, cl, dl, el = h
        ar, br, cr, dr, er = h
        for j in range(80):
            t = (_rol32((al + _f(j, bl, cl, dl) + X[_RL[j]] + _KL[j // 16]) & M32, _SL[j]) + el) & M32
            al, el, dl, cl, bl = el, dl, _rol32(cl, 10), bl, t
            t = (_rol32((ar + _f(79 - j, br, cr, dr) + X[_RR[j]] + _KR[j // 16]) & M32, _SR[j]) + er) & M32
            ar, er, dr, cr, br = er, dr, _rol32(cr, 10), br, t
        t = (h[1] + cl + dr) & M32
        h[1] = (h[2] + dl + er) & M32
        h[2] = (h[3] + el + ar) & M32
        h[3] = (h[4] + al + br) & M32
        h[4] = (h[0] + bl + cr) & M32
        h[0] = t
    return b"".join(x.to_bytes(4, "little") for x in h)


def selftest():
    errs = []

    def chk(name, got, want):
        if got.hex() != want:
            errs.append("%s: got %s want %s" % (name, got.hex(), want))

    chk("keccak256('')", keccak_256(b""), "c5d2460186f7233c927e7db2dcc703c0e500b653ca82273b7bfad8045d85a470")
    chk("keccak256('abc')", keccak_256(b"abc"), "4e03657aea45a94fc7d47ba826c8d667c0d1e6e33a64a036ec44f58fa12d6c45")
    chk("ripemd160('')", ripemd_160(b""), "9c1185a5c5e9fc54612808977ee8f548b2258d31")
    chk("ripemd160('abc')", ripemd_160(b"abc"), "8eb208f7e05d987a9b044a8e98c6b087f15a0bfc")
    chk("ripemd160('message digest')", ripemd_160(b"message digest"), "5d0689ef49d2fae572b881b123a85ffa21595f36")
    chk("ripemd160(a..z)", ripemd_160(b"abcdefghijklmnopqrstuvwxyz"), "f71c27109c692c1b56bbdceb5b9d2865b3708dbc")
    # pure-python keccak permutation cross-checked against hashlib's sha3 over many lengths
    for n in [0, 1, 2, 55, 56, 64, 135, 136, 137, 200, 272, 273, 1000]:
        d = bytes((i * 7 + 3) & 0xFF for i in range(n))
        if sha3_256_pure(d) != sha3_256(d):
            errs.append("sha3 pure mismatch at len %d" % n)
    chk("sha256('')", sha2_256(b""), "e3b0c44298fc1c149afbf4c8996fb92427ae41e4649b934ca495991b7852b855")
    chk("sha3_256('')", sha3_256(b""), "a7ffc6f8bf1ed76651c14756a061d662f580ff4de43b49fa82d80a4b80f8434a")
    chk("blake2b_256('')", blake2b_256(b""), "0e5751c026e543b2e8ab2eb06099daa1d1e5df47778f7787faab45cdf12fe3a8")
    chk("blake2b_224('')", blake2b_224(b""), "836cc68931c2e4e3e838602eca1902591d216837bafddfe6f0c8cb07")
    try:
        hr = hashlib.new("ripemd160")
        for n in [0, 1, 55, 56, 63, 64, 65, 119, 120, 128, 300]:
            d = bytes((i * 5 + 1) & 0xFF for i in range(n))
            h2 = hashlib.new("ripemd160")
            h2.update(d)
            if h2.digest() != ripemd_160(d):
                errs.append("ripemd160 vs hashlib mismatch len %d" % n)
    except Exception:
        pass
    return errs


if __name__ == "__main__":
    e = selftest()
    print("\n".join(e) if e else "hashes ok")
