"""Denotations, batches 1-3 (non-crypto): integers, bytestrings, strings, control,
pairs, lists, data.  One function per builtin.  Each function receives already
type-checked internal values (see values.py) and returns a value or raises Fail/Undefined.

Signature patterns:  a concrete type | ("list", pat) | ("pair", pat, pat) |
("var", name) = any *constant* type, consistently bound | "*" = anything at all.
"""
from values import (Fail, Undefined, I, B, S, UNIT, Bool, L, P, D,
                    T_LIST_DATA, T_PAIR_DD, T_LIST_PAIR_DD)
import cbor_data

REG = {}   # name -> (signature, function(variant, *args))


def builtin(name, *sig):
    def deco(fn):
        REG[name] = (list(sig), fn)
        return fn
    return deco


INT, BS, STR, UNITT, BOOL, DATA = "integer", "bytestring", "string", "unit", "bool", "data"
A_, B_ = ("var", "a"), ("var", "b")


# ------------------------------------------------------------------ integers
@builtin("addInteger", INT, INT)
def addInteger(v, a, b):
    return I(a[1] + b[1])


@builtin("subtractInteger", INT, INT)
def subtractInteger(v, a, b):
    return I(a[1] - b[1])


@builtin("multiplyInteger", INT, INT)
def multiplyInteger(v, a, b):
    return I(a[1] * b[1])


def _floor_divmod(a, b):
    """Floor division written out explicitly (not relying on Python's //)."""
    q = abs(a) // abs(b)
    r = abs(a) - q * abs(b)
    if (a < 0) != (b < 0):          # true quotient is negative (or zero)
        q = -q
        if r != 0:
            q -= 1                  # round towards -infinity
    return q, a - q * b


def _trunc_divmod(a, b):
    q = abs(a) // abs(b)
    if (a < 0) != (b < 0):
        q = -q
    return q, a - q * b


@builtin("divideInteger", INT, INT)
def divideInteger(v, a, b):
    if b[1] == 0:
        raise Fail()
    return I(_floor_divmod(a[1], b[1])[0])


@builtin("modInteger", INT, INT)
def modInteger(v, a, b):
    if b[1] == 0:
        raise Fail()
    return I(_floor_divmod(a[1], b[1])[1])


@builtin("quotientInteger", INT, INT)
def quotientInteger(v, a, b):
    if b[1] == 0:
        raise Fail()
    return I(_trunc_divmod(a[1], b[1])[0])


@builtin("remainderInteger", INT, INT)
def remainderInteger(v, a, b):
    if b[1] == 0:
        raise Fail()
    return I(_trunc_divmod(a[1], b[1])[1])


@builtin("equalsInteger", INT, INT)
def equalsInteger(v, a, b):
    return Bool(a[1] == b[1])


@builtin("lessThanInteger", INT, INT)
def lessThanInteger(v, a, b):
    return Bool(a[1] < b[1])


@builtin("lessThanEqualsInteger", INT, INT)
def lessThanEqualsInteger(v, a, b):
    return Bool(a[1] <= b[1])


# ------------------------------------------------------------------ bytestrings
@builtin("appendByteString", BS, BS)
def appendByteString(v, a, b):
    return B(a[1] + b[1])


@builtin("consByteString", INT, BS)
def consByteString(v, n, bs):
    if v in ("A", "B", "D"):
        return B(bytes([n[1] % 256]) + bs[1])
    if 0 <= n[1] <= 255:
        return B(bytes([n[1]]) + bs[1])
    raise Fail()


@builtin("sliceByteString", INT, INT, BS)
def sliceByteString(v, start, length, bs):
    """Bytes b[i..j], i = max(s,0), j = min(i+k-1, n-1); empty if j < i; always succeeds."""
    s, k, b = start[1], length[1], bs[1]
    lo = max(s, 0)
    hi = min(lo + k, len(b)) if k > 0 else lo      # exclusive end
    if lo >= len(b) or hi <= lo:
        return B(b"")
    return B(b[lo:hi])


@builtin("lengthOfByteString", BS)
def lengthOfByteString(v, bs):
    return I(len(bs[1]))


@builtin("indexByteString", BS, INT)
def indexByteString(v, bs, i):
    if not (0 <= i[1] < len(bs[1])):
        raise Fail()
    return I(bs[1][i[1]])


@builtin("equalsByteString", BS, BS)
def equalsByteString(v, a, b):
    return Bool(a[1] == b[1])


def _lex_lt(a, b):
    for x, y in zip(a, b):
        if x != y:
            return x < y
    return len(a) < len(b)


@builtin("lessThanByteString", BS, BS)
def lessThanByteString(v, a, b):
    return Bool(_lex_lt(a[1], b[1]))


@builtin("lessThanEqualsByteString", BS, BS)
def lessThanEqualsByteString(v, a, b):
    return Bool(a[1] == b[1] or _lex_lt(a[1], b[1]))


# ------------------------------------------------------------------ strings
@builtin("appendString", STR, STR)
def appendString(v, a, b):
    return S(a[1] + b[1])


@builtin("equalsString", STR, STR)
def equalsString(v, a, b):
    return Bool(a[1] == b[1])


@builtin("encodeUtf8", STR)
def encodeUtf8(v, s):
    return B(s[1].encode("utf-8"))


@builtin("decodeUtf8", BS)
def decodeUtf8(v, bs):
    try:
        return S(bs[1].decode("utf-8", "strict"))
    except UnicodeDecodeError:
        raise Fail()


# ------------------------------------------------------------------ control
@builtin("ifThenElse", BOOL, "*", "*")
def ifThenElse(v, c, t, e):
    return t if c[1] else e


@builtin("chooseUnit", UNITT, "*")
def chooseUnit(v, u, x):
    return x


@builtin("trace", STR, "*")
def trace(v, s, x):
    return x


# ------------------------------------------------------------------ pairs / lists
@builtin("fstPair", ("pair", A_, B_))
def fstPair(v, p):
    return p[1]


@builtin("sndPair", ("pair", A_, B_))
def sndPair(v, p):
    return p[2]


@builtin("chooseList", ("list", A_), "*", "*")
def chooseList(v, xs, n, c):
    return n if not xs[2] else c


@builtin("mkCons", A_, ("list", A_))
def mkCons(v, x, xs):
    return L(xs[1], [x] + xs[2])


@builtin("headList", ("list", A_))
def headList(v, xs):
    if not xs[2]:
        raise Fail()
    return xs[2][0]


@builtin("tailList", ("list", A_))
def tailList(v, xs):
    if not xs[2]:
        raise Fail()
    return L(xs[1], xs[2][1:])


@builtin("nullList", ("list", A_))
def nullList(v, xs):
    return Bool(not xs[2])


@builtin("dropList", INT, ("list", A_))
def dropList(v, n, xs):
    if n[1] <= 0:
        return xs
    if n[1] > (1 << 63) - 1:
        # Semantically [] (n >= length), but the count is "costed literally", so an
        # implementation may be unable to represent/afford it: not committed.
        raise Undefined("dropList count beyond 64 bits")
    return L(xs[1], xs[2][n[1]:])


# ------------------------------------------------------------------ data
@builtin("chooseData", DATA, "*", "*", "*", "*", "*")
def chooseData(v, d, c, m, l, i, b):
    return {"constr": c, "map": m, "list": l, "int": i, "bytes": b}[d[1][0]]


@builtin("constrData", INT, T_LIST_DATA)
def constrData(v, i, fields):
    return D(("constr", i[1], [x[1] for x in fields[2]]))


@builtin("mapData", T_LIST_PAIR_DD)
def mapData(v, xs):
    return D(("map", [(p[1][1], p[2][1]) for p in xs[2]]))


@builtin("listData", T_LIST_DATA)
def listData(v, xs):
    return D(("list", [x[1] for x in xs[2]]))


@builtin("iData", INT)
def iData(v, i):
    return D(("int", i[1]))


@builtin("bData", BS)
def bData(v, b):
    return D(("bytes", b[1]))


@builtin("unConstrData", DATA)
def unConstrData(v, d):
    if d[1][0] != "constr":
        raise Fail()
    return P(I(d[1][1]), L("data", [D(x) for x in d[1][2]]))


@builtin("unMapData", DATA)
def unMapData(v, d):
    if d[1][0] != "map":
        raise Fail()
    return L(T_PAIR_DD, [P(D(a), D(b)) for a, b in d[1][1]])


@builtin("unListData", DATA)
def unListData(v, d):
    if d[1][0] != "list":
        raise Fail()
    return L("data", [D(x) for x in d[1][1]])


@builtin("unIData", DATA)
def unIData(v, d):
    if d[1][0] != "int":
        raise Fail()
    return I(d[1][1])


@builtin("unBData", DATA)
def unBData(v, d):
    if d[1][0] != "bytes":
        raise Fail()
    return B(d[1][1])


def _data_eq(x, y):
    """Structural equality written out (constructor, then contents, order-sensitive maps)."""
    if x[0] != y[0]:
        return False
    k = x[0]
    if k == "constr":
        return x[1] == y[1] and len(x[2]) == len(y[2]) and all(_data_eq(a, b) for a, b in zip(x[2], y[2]))
    if k == "map":
        return len(x[1]) == len(y[1]) and all(
            _data_eq(a[0], b[0]) and _data_eq(a[1], b[1]) for a, b in zip(x[1], y[1]))
    if k == "list":
        return len(x[1]) == len(y[1]) and all(_data_eq(a, b) for a, b in zip(x[1], y[1]))
    return x[1] == y[1]


@builtin("equalsData", DATA, DATA)
def equalsData(v, a, b):
    return Bool(_data_eq(a[1], b[1]))


@builtin("serialiseData", DATA)
def serialiseData(v, d):
    return B(cbor_data.encode_data(d[1]))


@builtin("mkPairData", DATA, DATA)
def mkPairData(v, a, b):
    return P(a, b)


@builtin("mkNilData", UNITT)
def mkNilData(v, u):
    return L("data", [])


@builtin("mkNilPairData", UNITT)
def mkNilPairData(v, u):
    return L(T_PAIR_DD, [])
