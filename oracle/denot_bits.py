"""Denotations: hashes, signatures, CIP-121/122/123 bitwise builtins, expModInteger."""
from values import Fail, Undefined, I, B, Bool
from denot_core import builtin, INT, BS, BOOL
import hashes
import sigs

MAX_OUT = 8192     # maximum output length (bytes) of integerToByteString / replicateByte


# ------------------------------------------------------------------ hashes
@builtin("sha2_256", BS)
def sha2_256(v, b):
    return B(hashes.sha2_256(b[1]))


@builtin("sha3_256", BS)
def sha3_256(v, b):
    return B(hashes.sha3_256(b[1]))


@builtin("blake2b_256", BS)
def blake2b_256(v, b):
    return B(hashes.blake2b_256(b[1]))


@builtin("blake2b_224", BS)
def blake2b_224(v, b):
    return B(hashes.blake2b_224(b[1]))


@builtin("keccak_256", BS)
def keccak_256(v, b):
    return B(hashes.keccak_256(b[1]))


@builtin("ripemd_160", BS)
def ripemd_160(v, b):
    return B(hashes.ripemd_160(b[1]))


# ------------------------------------------------------------------ signatures
@builtin("verifyEd25519Signature", BS, BS, BS)
def verifyEd25519Signature(v, key, msg, sig):
    if len(key[1]) != 32 or len(sig[1]) != 64:
        raise Fail()
    for enc in (key[1], sig[1][:32]):
        pt = sigs._ed_decompress(enc)
        if pt is not None and sigs._ed_eq(sigs._ed_mul(8, pt), (0, 1, 1, 0)):
            # small-order key or R: RFC 8032 leaves room (cofactored vs cofactorless
            # equation, optional rejection), so the oracle does not commit.
            raise Undefined("ed25519 small-order point")
    return Bool(sigs.ed25519_verify(key[1], msg[1], sig[1]))


@builtin("verifyEcdsaSecp256k1Signature", BS, BS, BS)
def verifyEcdsaSecp256k1Signature(v, key, msg, sig):
    if len(key[1]) != 33 or len(msg[1]) != 32 or len(sig[1]) != 64:
        raise Fail()
    pt = sigs.s_decompress(key[1])
    if pt is None:
        raise Fail()
    r = int.from_bytes(sig[1][:32], "big")
    s = int.from_bytes(sig[1][32:], "big")
    if r >= sigs.SN or s >= sigs.SN:
        # The compact signature does not parse (component >= group order): either an
        # evaluation failure or False depending on where the check is made.
        raise Undefined("ecdsa r or s >= n")
    if s > sigs.SN // 2:
        return Bool(False)          # high-S signatures are not accepted
    return Bool(sigs.ecdsa_verify_raw(pt, msg[1], r, s))


@builtin("verifySchnorrSecp256k1Signature", BS, BS, BS)
def verifySchnorrSecp256k1Signature(v, key, msg, sig):
    if len(key[1]) != 32 or len(sig[1]) != 64:
        raise Fail()
    pt = sigs.s_lift_x(int.from_bytes(key[1], "big"))
    if pt is None:
        raise Fail()                # key is not the x coordinate of a curve point
    return Bool(sigs.schnorr_verify(pt, key[1], msg[1], sig[1]))


# ------------------------------------------------------------------ CIP-121
@builtin("integerToByteString", BOOL, INT, INT)
def integerToByteString(v, big_endian, width, n):
    w, x = width[1], n[1]
    if x < 0 or w < 0 or w > MAX_OUT:
        raise Fail()
    need = (x.bit_length() + 7) // 8
    if w == 0:
        if need > MAX_OUT:
            raise Fail()
        w = need
    elif need > w:
        raise Fail()
    digits = []                     # little-endian base-256 digits
    for _ in range(w):
        digits.append(x & 0xFF)
        x >>= 8
    if big_endian[1]:
        digits.reverse()
    return B(bytes(digits))


@builtin("byteStringToInteger", BOOL, BS)
def byteStringToInteger(v, big_endian, bs):
    seq = bs[1] if big_endian[1] else bs[1][::-1]
    acc = 0
    for byte in seq:
        acc = acc * 256 + byte
    return I(acc)


# ------------------------------------------------------------------ CIP-122
def _binop(pad, a, b, op, neutral):
    """pad=True: result has the longer length, the shorter argument is extended at the
    end with the neutral element; pad=False: both truncated to the shorter length."""
    if pad:
        n = max(len(a), len(b))
        a = a + bytes([neutral]) * (n - len(a))
        b = b + bytes([neutral]) * (n - len(b))
    else:
        n = min(len(a), len(b))
        a, b = a[:n], b[:n]
    return bytes(op(x, y) for x, y in zip(a, b))


@builtin("andByteString", BOOL, BS, BS)
def andByteString(v, pad, a, b):
    return B(_binop(pad[1], a[1], b[1], lambda x, y: x & y, 0xFF))


@builtin("orByteString", BOOL, BS, BS)
def orByteString(v, pad, a, b):
    return B(_binop(pad[1], a[1], b[1], lambda x, y: x | y, 0x00))


@builtin("xorByteString", BOOL, BS, BS)
def xorByteString(v, pad, a, b):
    return B(_binop(pad[1], a[1], b[1], lambda x, y: x ^ y, 0x00))


@builtin("complementByteString", BS)
def complementByteString(v, bs):
    return B(bytes(x ^ 0xFF for x in bs[1]))


def _bits(bs):
    """Bit list indexed by CIP-122 bit index: index 0 = LSB of the last byte."""
    out = []
    for byte in reversed(bs):
        for k in range(8):
            out.append((byte >> k) & 1)
    return out


def _from_bits(bits):
    nbytes = len(bits) // 8
    out = bytearray(nbytes)
    for j in range(nbytes):                 # j-th byte from the end
        byte = 0
        for k in range(8):
            byte |= bits[8 * j + k] << k
        out[nbytes - 1 - j] = byte
    return bytes(out)


@builtin("readBit", BS, INT)
def readBit(v, bs, i):
    if not (0 <= i[1] < 8 * len(bs[1])):
        raise Fail()
    return Bool(_bits(bs[1])[i[1]] == 1)


@builtin("writeBits", BS, ("list", INT), BOOL)
def writeBits(v, bs, idxs, bit):
    bits = _bits(bs[1])
    for ix in idxs[2]:
        if not (0 <= ix[1] < len(bits)):
            raise Fail()
        bits[ix[1]] = 1 if bit[1] else 0
    return B(_from_bits(bits))


@builtin("replicateByte", INT, INT)
def replicateByte(v, n, byte):
    if n[1] < 0 or n[1] > MAX_OUT or not (0 <= byte[1] <= 255):
        raise Fail()
    return B(bytes([byte[1]]) * n[1])


# ------------------------------------------------------------------ CIP-123
def _shift_amount_defined(variant, k):
    """CIP-123 defines shift/rotate for every integer.  The newest ledger variant (E) bounds
    the amount to a machine integer; I cannot confirm from the specification text available
    offline whether an out-of-range amount fails or is still accepted there, so the oracle
    does not commit for (variant E, amount outside [-2^63, 2^63))."""
    if variant == "E" and not (-2 ** 63 <= k < 2 ** 63):
        raise Undefined()


@builtin("shiftByteString", BS, INT)
def shiftByteString(v, bs, k):
    _shift_amount_defined(v, k[1])
    bits = _bits(bs[1])
    n = len(bits)
    out = [0] * n
    for i in range(n):
        src = i - k[1]                      # positive k moves bits to higher indices
        if 0 <= src < n:
            out[i] = bits[src]
    return B(_from_bits(out))


@builtin("rotateByteString", BS, INT)
def rotateByteString(v, bs, k):
    _shift_amount_defined(v, k[1])
    bits = _bits(bs[1])
    n = len(bits)
    if n == 0:
        return B(b"")
    return B(_from_bits([bits[(i - k[1]) % n] for i in range(n)]))


@builtin("countSetBits", BS)
def countSetBits(v, bs):
    return I(sum(_bits(bs[1])))


@builtin("findFirstSetBit", BS)
def findFirstSetBit(v, bs):
    for i, bit in enumerate(_bits(bs[1])):
        if bit:
            return I(i)
    return I(-1)


# ------------------------------------------------------------------ expModInteger
def _egcd(a, b):
    """Returns (g, x) with a*x == g (mod b), g = gcd(a, b), for a >= 0, b > 0."""
    x0, x1 = 1, 0
    r0, r1 = a, b
    while r1:
        q = r0 // r1
        r0, r1 = r1, r0 - q * r1
        x0, x1 = x1, x0 - q * x1
    return r0, x0


def _powmod(b, e, m):
    acc, b = 1 % m, b % m
    while e > 0:
        if e & 1:
            acc = acc * b % m
        b = b * b % m
        e >>= 1
    return acc


@builtin("expModInteger", INT, INT, INT)
def expModInteger(v, b, e, m):
    bb, ee, mm = b[1], e[1], m[1]
    if mm <= 0:
        raise Fail()
    if mm == 1:
        return I(0)
    if ee >= 0:
        return I(_powmod(bb, ee, mm))
    g, x = _egcd(bb % mm, mm)
    if g != 1:
        raise Fail()
    return I(_powmod(x % mm, -ee, mm))
