"""Internal value/type representation and conversion to the JSON exchange format.

Values (Python tuples):
    ("int", n) ("bytes", b) ("str", s) ("unit",) ("bool", b)
    ("list", elem_type, [values]) ("pair", v1, v2) ("data", D) ("nonconst", kind)
Types: "integer" "bytestring" "string" "unit" "bool" "data" ("list", t) ("pair", t1, t2)
Data:  ("constr", tag, [D]) ("map", [(D, D)]) ("list", [D]) ("int", n) ("bytes", b)
"""


class Fail(Exception):
    """Evaluation failure."""


class Undefined(Exception):
    """The oracle does not commit to an answer for this input."""


# ---- constructors
def I(n):
    return ("int", n)


def B(b):
    return ("bytes", bytes(b))


def S(s):
    return ("str", s)


UNIT = ("unit",)


def Bool(b):
    return ("bool", bool(b))


def L(ty, items):
    return ("list", ty, list(items))


def P(a, b):
    return ("pair", a, b)


def D(d):
    return ("data", d)


def NC(kind):
    return ("nonconst", kind)


T_LIST_DATA = ("list", "data")
T_PAIR_DD = ("pair", "data", "data")
T_LIST_PAIR_DD = ("list", T_PAIR_DD)


def type_of(v):
    """Type of a constant value; None for non-constants."""
    k = v[0]
    if k == "int":
        return "integer"
    if k == "bytes":
        return "bytestring"
    if k == "str":
        return "string"
    if k == "unit":
        return "unit"
    if k == "bool":
        return "bool"
    if k == "data":
        return "data"
    if k == "list":
        return ("list", v[1])
    if k == "pair":
        return ("pair", type_of(v[1]), type_of(v[2]))
    return None


def well_formed(v):
    """Sanity check used by the selftest: list items have the declared element type."""
    if v[0] == "list":
        return all(well_formed(x) and type_of(x) == v[1] for x in v[2])
    if v[0] == "pair":
        return well_formed(v[1]) and well_formed(v[2])
    return True


# ---- JSON
def type_json(t):
    if isinstance(t, str):
        return t
    if t[0] == "list":
        return {"list": type_json(t[1])}
    return {"pair": [type_json(t[1]), type_json(t[2])]}


def data_json(d):
    k = d[0]
    if k == "constr":
        # tags outside u64 cannot be held by the implementation's (or the harness's) Data
        # representation: written as a string, which the reader classifies as "big tag"
        # (a bare JSON number beyond f64 range does not even parse)
        tag = d[1] if 0 <= d[1] < 2 ** 64 else str(d[1])
        return {"constr": [tag, [data_json(x) for x in d[2]]]}
    if k == "map":
        return {"map": [[data_json(a), data_json(b)] for a, b in d[1]]}
    if k == "list":
        return {"list": [data_json(x) for x in d[1]]}
    if k == "int":
        return {"int": str(d[1])}
    return {"bytes": d[1].hex()}


def value_json(v):
    k = v[0]
    if k == "int":
        return {"int": str(v[1])}
    if k == "bytes":
        return {"bytes": v[1].hex()}
    if k == "str":
        return {"str": v[1]}
    if k == "unit":
        return {"unit": None}
    if k == "bool":
        return {"bool": v[1]}
    if k == "list":
        return {"list": [type_json(v[1]), [value_json(x) for x in v[2]]]}
    if k == "pair":
        return {"pair": [value_json(v[1]), value_json(v[2])]}
    if k == "data":
        return {"data": data_json(v[1])}
    return {"nonconst": v[1]}
