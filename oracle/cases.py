"""Per-builtin enumeration of argument tuples (exhaustive cartesian products)."""
import itertools
import hashlib
import alphabets as al
from values import I, B, S, UNIT, Bool, L, P, D, T_PAIR_DD
import sigs

BOOLS = [Bool(True), Bool(False)]


def _bsv(raw):
    return [B(b) for b in raw]


def plan(tier):
    """name -> (good, few): per-position full candidate sets and 1-2 'few' values."""
    ext = al.ints(al.int_set(tier, ext=True))
    base = al.ints(al.int_set(tier, ext=False))
    bs_full = _bsv(al.bs_full(tier))
    bs_small = _bsv(al.bs_small(tier))
    strs = al.strings(tier)
    data = al.datas(al.data_set(tier))
    data_x = al.datas(al.data_set(tier, exotic=True))
    lists = al.list_set()
    pairs = al.pair_set()
    anyv = al.anything()
    few_i, few_b, few_s = [I(1), I(-7)], [B(b"\x01\x02"), B(b"")], [S("a")]
    few_d = [D(("int", 1)), D(("constr", 0, []))]
    few_any = [I(0), al.NC("lam")]
    p = {}

    for f in ("addInteger", "subtractInteger", "multiplyInteger", "divideInteger", "quotientInteger",
              "remainderInteger", "modInteger", "equalsInteger", "lessThanInteger", "lessThanEqualsInteger"):
        p[f] = ([ext, ext], [few_i, few_i])

    for f in ("appendByteString", "equalsByteString", "lessThanByteString", "lessThanEqualsByteString"):
        p[f] = ([bs_full, bs_full], [few_b, few_b])
    p["consByteString"] = ([ext, bs_small], [few_i, few_b])

    small = [3, 4, 9, 10, 31, 32, 33, 34, 63, 64, 65, 66, -8, -9, -33, -65]
    slice_i = al.ints(al.dedupe(al.int_set(tier, ext=False) + small))
    p["sliceByteString"] = ([slice_i, slice_i, bs_small], [few_i, [I(1), I(100)], few_b])
    p["lengthOfByteString"] = ([bs_full], [few_b])
    idx = al.ints(al.dedupe(al.int_set(tier, ext=False) + small + [6, 9, 30, 62, 254, 257]))
    p["indexByteString"] = ([bs_full, idx], [few_b, [I(0), I(1)]])

    hash_in = bs_full + _bsv(al.bs_hash_extra(tier))
    for f in ("sha2_256", "sha3_256", "blake2b_256", "blake2b_224", "keccak_256", "ripemd_160"):
        p[f] = ([hash_in], [few_b])

    p["appendString"] = ([strs, strs], [few_s, few_s])
    p["equalsString"] = ([strs, strs], [few_s, few_s])
    p["encodeUtf8"] = ([strs], [few_s])
    utf = _bsv(al.UTF8_BYTES) + bs_full
    p["decodeUtf8"] = ([utf], [few_b])

    p["ifThenElse"] = ([BOOLS, anyv, anyv], [BOOLS, few_any, few_any])
    p["chooseUnit"] = ([[UNIT], anyv], [[UNIT], few_any])
    p["trace"] = ([strs, anyv], [few_s, few_any])

    p["fstPair"] = ([pairs], [pairs[:1]])
    p["sndPair"] = ([pairs], [pairs[:1]])
    p["chooseList"] = ([lists, anyv, anyv], [lists[:2], few_any, few_any])
    elems = [I(1), I(2 ** 64), B(b""), S("a"), UNIT, Bool(False), D(("int", 1)), D(("list", [])),
             L("integer", []), L("integer", [I(3)]), L("data", []), P(I(1), Bool(True)),
             P(D(("int", 1)), D(("bytes", b""))), P(D(("map", [])), D(("int", 0))), P(I(1), I(1))]
    p["mkCons"] = ([elems, lists], [[I(1)], [L("integer", [I(2)])]])
    for f in ("headList", "tailList", "nullList"):
        p[f] = ([lists], [lists[1:2]])
    drop_raw = al.dedupe(al.int_set(tier, ext=False) + list(range(-5, 13)) +
                         [100, 1000, 65536, 2 ** 31 - 1, 2 ** 32, 2 ** 62, -2 ** 31, -100, -2 ** 62, -2 ** 64])
    # counts beyond 64 bits are "undefined" for the oracle: keep only six of them
    huge = [x for x in drop_raw if x > 2 ** 63 - 1]
    drop_i = al.ints([x for x in drop_raw if x <= 2 ** 63 - 1] + huge[:6])
    p["dropList"] = ([drop_i, lists], [[I(1), I(0)], lists[2:3]])

    branches = [[I(0), al.NC("lam")], [I(1), al.NC("delay")], [I(2), al.NC("constr")],
                [I(3), al.NC("builtin")], [I(4), UNIT]]
    p["chooseData"] = ([data_x] + branches, [few_d] + [[I(k)] for k in range(5)])
    ld = [x for x in lists if x[1] == "data"] + [L("data", [D(d) for d in al.data_set(tier)[::7]])]
    tags = al.ints(al.dedupe(al.int_set(tier, ext=False) + al.CONSTR_TAGS + [5, 9, 126]))
    p["constrData"] = ([tags, ld], [[I(0), I(7)], ld[1:2]])
    lp = [x for x in lists if x[1] == T_PAIR_DD] + [
        L(T_PAIR_DD, [P(D(("int", 2)), D(("int", 1))), P(D(("int", 1)), D(("int", 2))), P(D(("int", 2)), D(("int", 3)))])]
    p["mapData"] = ([lp + lists], [lp[1:2]])
    p["listData"] = ([ld + lists], [ld[1:2]])
    p["iData"] = ([ext], [few_i])
    p["bData"] = ([bs_full], [few_b])
    for f in ("unConstrData", "unMapData", "unListData", "unIData", "unBData", "serialiseData"):
        p[f] = ([data_x], [few_d])
    p["equalsData"] = ([data, data], [few_d, few_d])
    dsm = data[::4]
    p["mkPairData"] = ([dsm, dsm], [few_d, few_d])
    p["mkNilData"] = ([[UNIT]], [[UNIT]])
    p["mkNilPairData"] = ([[UNIT]], [[UNIT]])

    widths = al.ints([0, 1, 2, 3, 7, 8, 9, 16, 17, 32, 33, 64, 65, 8191, 8192, 8193, -1, -8192,
                      2 ** 31, 2 ** 63 - 1, 2 ** 63, 2 ** 64, -2 ** 63, -2 ** 64, 2 ** 64 + 8])
    itb_n = al.ints(al.dedupe(al.int_set(tier, ext=False) + [
        254, 257, 65535, 65536, 2 ** 56 - 1, 2 ** 56, 2 ** 64 - 2, 2 ** 72 - 1, 2 ** 72, 2 ** 256 - 1, 2 ** 256,
        2 ** 512, 2 ** 520 - 1, 2 ** (8 * 8191) - 1, 2 ** (8 * 8191), 2 ** (8 * 8192) - 1, 2 ** (8 * 8192),
        2 ** (8 * 8192) + 1, 2 ** (8 * 8193)]))
    p["integerToByteString"] = ([BOOLS, widths, itb_n], [BOOLS[:1], [I(0), I(2)], [I(1), I(258)]])
    p["byteStringToInteger"] = ([BOOLS, bs_full], [BOOLS[:1], few_b])
    for f in ("andByteString", "orByteString", "xorByteString"):
        p[f] = ([BOOLS, bs_full, bs_full], [BOOLS, few_b, few_b])
    p["complementByteString"] = ([bs_full], [few_b])
    for f in ("countSetBits", "findFirstSetBit"):
        p[f] = ([bs_full], [few_b])
    bit_i = al.ints(al.dedupe(list(range(-2, 18)) + [62, 63, 64, 65, 71, 72, 73, 255, 256, 257, 263, 264] +
                              list(range(510, 522)) + al.int_set(tier, ext=False)))
    p["readBit"] = ([bs_full, bit_i], [[B(b"\x01\x02")], [I(0), I(9)]])
    sh = al.ints(al.dedupe(list(range(-20, 21)) + [s * k for k in (62, 63, 64, 65, 71, 72, 73, 255, 256, 257, 263,
                                                                  264, 265, 511, 512, 513, 519, 520, 521, 528)
                                                   for s in (1, -1)] + al.int_set(tier, ext=False)))
    p["shiftByteString"] = ([bs_full, sh], [few_b, [I(1), I(-3)]])
    p["rotateByteString"] = ([bs_full, sh], [few_b, [I(1), I(-3)]])

    def il(xs):
        return L("integer", [I(x) for x in xs])
    idx_lists = [il(x) for x in ([], [0], [7], [8], [15], [16], [0, 0], [0, 7], [7, 0], [0, 1, 2, 3, 4, 5, 6, 7],
                                 [15, 0], [63], [64], [71], [72], [-1], [0, -1], [-1, 0], [16, 0], [0, 16],
                                 [255], [256], [263], [264], [511], [512], [519], [520], [2 ** 63], [2 ** 64],
                                 [0, 2 ** 64], [-2 ** 63 - 1], [3, 3, 3], [1, 8, 9, 14])]
    bs_med = _bsv(al.dedupe(al.bs_small(tier) + [bytes(2), b"\xff\xff", bytes(8), b"\xff" * 9, bytes(65)]))
    p["writeBits"] = ([bs_med, idx_lists + lists, BOOLS], [[B(b"\x01\x02")], idx_lists[1:2], BOOLS[:1]])
    rep_n = al.ints(al.dedupe([0, 1, 2, 3, 8, 64, 65, 255, 256, 4096, 8191, 8192, 8193, 8194, 65536, -1, -2, -8192,
                               2 ** 31, 2 ** 63 - 1, 2 ** 63, 2 ** 64, 2 ** 64 + 1, -2 ** 63, -2 ** 64]))
    rep_b = al.ints(al.dedupe([0, 1, 2, 127, 128, 254, 255, 256, 257, 511, 512, -1, -2, -255, -256, 65535, 2 ** 31,
                               2 ** 63, 2 ** 64, 2 ** 64 + 255, -2 ** 64]))
    p["replicateByte"] = ([rep_n, rep_b], [[I(2), I(0)], [I(1), I(255)]])

    eb = al.ints([0, 1, -1, 2, -2, 3, 7, -7, 10, 255, 2 ** 64 + 1, 2 ** 127])
    ee = al.ints([0, 1, -1, 2, -2, 3, -3, 16, 255, 2 ** 64, -2 ** 64 - 1, 2 ** 127])
    em = al.ints([0, 1, -1, 2, 3, 7, 8, 12, 255, 256, 2 ** 64, 2 ** 127 - 1, -7])
    if tier == "thorough":
        eb += al.ints([4, 6, -255, 2 ** 63, -2 ** 128])
        ee += al.ints([5, -5, 64, -255, 2 ** 63 - 1])
        em += al.ints([4, 9, 15, 2 ** 61 - 1, 2 ** 63, 2 ** 128, -2 ** 64])
    p["expModInteger"] = ([eb, ee, em], [[I(2), I(3)], [I(5), I(-1)], [I(7), I(12)]])
    return p


def generic_cases(good, few):
    """Full product of `good`, then for every position every representative of every type
    (incl. non-constants) with the other positions ranging over `few`."""
    for args in itertools.product(*good):
        yield list(args)
    reps = al.reps()
    for i in range(len(good)):
        others = [few[j] if j != i else reps for j in range(len(good))]
        for args in itertools.product(*others):
            yield list(args)


# ------------------------------------------------------------------ signatures
def _flip(b, pos, mask=0x01):
    b = bytearray(b)
    b[pos] ^= mask
    return bytes(b)


def _sig_variants(key, msg, sig, key_lens, msg_positions):
    """Valid case, signature/message/key corruptions, wrong lengths."""
    yield key, msg, sig
    for pos in (0, 1, 15, 31, 32, 33, 47, 62, 63):
        yield key, msg, _flip(sig, pos)
        yield key, msg, _flip(sig, pos, 0x80)
    for pos in msg_positions:
        if pos < len(msg):
            yield key, _flip(msg, pos), sig
            yield key, _flip(msg, pos, 0x80), sig
    yield key, msg + b"\x00", sig
    yield key, msg[:-1] if msg else b"\x00", sig
    for pos in (0, 1, len(key) // 2, len(key) - 1):
        yield _flip(key, pos), msg, sig
        yield _flip(key, pos, 0x80), msg, sig
    for n in key_lens:
        yield (key + bytes(8))[:n], msg, sig
    for n in (0, 1, 32, 63, 65, 72, 128):
        yield key, msg, (sig + bytes(64))[:n]
    yield key, msg, sig[32:] + sig[:32]
    yield key, msg, bytes(64)
    yield key, msg, b"\xff" * 64


def ed25519_cases(tier):
    seeds = [bytes(range(32)), hashlib.sha256(b"ed-seed-2").digest()]
    msgs = [b"", b"abc", bytes(32), bytes(range(65))]
    if tier == "thorough":
        seeds.append(b"\xff" * 32)
        msgs += [b"\x00", bytes(range(200))]
    for sd in seeds:
        key = sigs.ed25519_public(sd)
        for m in msgs:
            sg = sigs.ed25519_sign(sd, m)
            for k, mm, s in _sig_variants(key, m, sg, (0, 1, 31, 33, 64), (0, 1, 2, 31, 64)):
                yield [B(k), B(mm), B(s)]
    # key of another seed with a valid signature of the first
    k2 = sigs.ed25519_public(seeds[1])
    yield [B(k2), B(b"abc"), B(sigs.ed25519_sign(seeds[0], b"abc"))]


def _secp_privs(tier):
    out = [1, 3, 0xB7E151628AED2A6ABF7158809CF4F3C762E7160F38B4DA56A784D9045190CFEF]
    if tier == "thorough":
        out += [2, sigs.SN - 1]
    return out


def _x_not_on_curve():
    x = 1
    while sigs.s_lift_x(x) is not None:
        x += 1
    return x


def ecdsa_cases(tier):
    msgs = [hashlib.sha256(b"").digest(), hashlib.sha256(b"abc").digest(), bytes(32)]
    if tier == "thorough":
        msgs += [b"\xff" * 32, hashlib.sha256(b"x").digest()]
    bad_x = _x_not_on_curve().to_bytes(32, "big")
    for d in _secp_privs(tier):
        key = sigs.ecdsa_public(d)
        for m in msgs:
            sg = sigs.ecdsa_sign(d, m)
            for k, mm, s in _sig_variants(key, m, sg, (0, 32, 34, 65), (0, 15, 31)):
                yield [B(k), B(mm), B(s)]
            yield [B(key), B(m), B(sigs.ecdsa_sign(d, m, low_s=False))]          # high S
            r, s = sg[:32], sg[32:]
            yield [B(key), B(m), B(bytes(32) + s)]                               # r = 0
            yield [B(key), B(m), B(r + bytes(32))]                               # s = 0
            yield [B(key), B(m), B(sigs.SN.to_bytes(32, "big") + s)]             # r = n
            yield [B(key), B(m), B(r + sigs.SN.to_bytes(32, "big"))]             # s = n
            for prefix in (0, 1, 4, 5, 6, 7, 0xFF):
                yield [B(bytes([prefix]) + key[1:]), B(m), B(sg)]
            yield [B(bytes([5 - key[0]]) + key[1:]), B(m), B(sg)]                # other parity
            yield [B(b"\x02" + bad_x), B(m), B(sg)]
            yield [B(b"\x03" + bad_x), B(m), B(sg)]
            yield [B(b"\x02" + sigs.SP.to_bytes(32, "big")), B(m), B(sg)]        # x >= p
            yield [B(b"\x02" + b"\xff" * 32), B(m), B(sg)]
            yield [B(bytes(33)), B(m), B(sg)]
            # 65-byte uncompressed encoding of the right key must be rejected (length)
            pt = sigs.s_decompress(key)
            yield [B(b"\x04" + pt[0].to_bytes(32, "big") + pt[1].to_bytes(32, "big")), B(m), B(sg)]
            for n in (0, 1, 31, 33, 64):
                yield [B(key), B((m + bytes(32))[:n]), B(sg)]


def schnorr_cases(tier):
    msgs = [b"", b"abc", bytes(32), bytes(range(65))]
    if tier == "thorough":
        msgs += [b"\x00", bytes(range(200))]
    bad_x = _x_not_on_curve().to_bytes(32, "big")
    for d in _secp_privs(tier):
        key = sigs.schnorr_public(d)
        for m in msgs:
            sg = sigs.schnorr_sign(d, m)
            for k, mm, s in _sig_variants(key, m, sg, (0, 1, 31, 33, 64), (0, 1, 2, 31, 64)):
                yield [B(k), B(mm), B(s)]
            r, s = sg[:32], sg[32:]
            yield [B(key), B(m), B(sigs.SP.to_bytes(32, "big") + s)]             # r = p
            yield [B(key), B(m), B(r + sigs.SN.to_bytes(32, "big"))]             # s = n
            yield [B(key), B(m), B(r + bytes(32))]
            yield [B(bad_x), B(m), B(sg)]
            yield [B(sigs.SP.to_bytes(32, "big")), B(m), B(sg)]
            yield [B(b"\xff" * 32), B(m), B(sg)]
            yield [B(bytes(32)), B(m), B(sg)]
            yield [B(sigs.ecdsa_public(d)), B(m), B(sg)]                         # 33-byte key


SIG_CASES = {
    "verifyEd25519Signature": ed25519_cases,
    "verifyEcdsaSecp256k1Signature": ecdsa_cases,
    "verifySchnorrSecp256k1Signature": schnorr_cases,
}


def sig_wrong_typed(name):
    few = [B(bytes(32)), B(bytes(33)), B(bytes(64))]
    good = [[few[0 if name != "verifyEcdsaSecp256k1Signature" else 1]], [few[0]], [few[2]]]
    reps = [r for r in al.reps() if r[0] != "bytes"]
    for i in range(3):
        others = [good[j] if j != i else reps for j in range(3)]
        for args in itertools.product(*others):
            yield list(args)


def all_cases(name, tier, plan_):
    if name in SIG_CASES:
        yield from SIG_CASES[name](tier)
        yield from sig_wrong_typed(name)
    else:
        good, few = plan_[name]
        yield from generic_cases(good, few)
