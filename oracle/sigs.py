"""Pure-Python reference Ed25519 (RFC 8032), secp256k1 ECDSA and BIP-340 Schnorr."""
import hashlib

# ---------------------------------------------------------------- Ed25519
P25519 = 2 ** 255 - 19
L25519 = 2 ** 252 + 27742317777372353535851937790883648493
D25519 = (-121665 * pow(121666, P25519 - 2, P25519)) % P25519
SQRT_M1 = pow(2, (P25519 - 1) // 4, P25519)


def _sha512(b):
    return hashlib.sha512(b).digest()


def _ed_add(P, Q):
    x1, y1, z1, t1 = P
    x2, y2, z2, t2 = Q
    p = P25519
    A = (y1 - x1) * (y2 - x2) % p
    B = (y1 + x1) * (y2 + x2) % p
    C = 2 * t1 * t2 * D25519 % p
    Dd = 2 * z1 * z2 % p
    E, F, G, H = B - A, Dd - C, Dd + C, B + A
    return (E * F % p, G * H % p, F * G % p, E * H % p)


def _ed_mul(s, P):
    Q = (0, 1, 1, 0)
    while s > 0:
        if s & 1:
            Q = _ed_add(Q, P)
        P = _ed_add(P, P)
        s >>= 1
    return Q


def _ed_eq(P, Q):
    p = P25519
    if (P[0] * Q[2] - Q[0] * P[2]) % p != 0:
        return False
    return (P[1] * Q[2] - Q[1] * P[2]) % p == 0


def _ed_recover_x(y, sign):
    p = P25519
    if y >= p:
        return None
    x2 = (y * y - 1) * pow(D25519 * y * y + 1, p - 2, p) % p
    if x2 == 0:
        return None if sign else 0
    x = pow(x2, (p + 3) // 8, p)
    if (x * x - x2) % p != 0:
        x = x * SQRT_M1 % p
    if (x * x - x2) % p != 0:
        return None
    if (x & 1) != sign:
        x = p - x
    return x


_GY = 4 * pow(5, P25519 - 2, P25519) % P25519
_GX = _ed_recover_x(_GY, 0)
ED_G = (_GX, _GY, 1, _GX * _GY % P25519)


def _ed_compress(P):
    p = P25519
    zi = pow(P[2], p - 2, p)
    x, y = P[0] * zi % p, P[1] * zi % p
    return (y | ((x & 1) << 255)).to_bytes(32, "little")


def _ed_decompress(s):
    if len(s) != 32:
        return None
    y = int.from_bytes(s, "little")
    sign = y >> 255
    y &= (1 << 255) - 1
    x = _ed_recover_x(y, sign)
    if x is None:
        return None
    return (x, y, 1, x * y % P25519)


def _ed_expand(secret):
    h = _sha512(secret)
    a = int.from_bytes(h[:32], "little")
    a &= (1 << 254) - 8
    a |= 1 << 254
    return a, h[32:]


def ed25519_public(secret):
    a, _ = _ed_expand(secret)
    return _ed_compress(_ed_mul(a, ED_G))


def ed25519_sign(secret, msg):
    a, prefix = _ed_expand(secret)
    A = _ed_compress(_ed_mul(a, ED_G))
    r = int.from_bytes(_sha512(prefix + msg), "little") % L25519
    Rs = _ed_compress(_ed_mul(r, ED_G))
    h = int.from_bytes(_sha512(Rs + A + msg), "little") % L25519
    s = (r + h * a) % L25519
    return Rs + s.to_bytes(32, "little")


def ed25519_verify(public, msg, sig):
    """RFC 8032 verification (cofactorless equation, canonical S required).
    Caller must have checked len(public)==32 and len(sig)==64."""
    A = _ed_decompress(public)
    if A is None:
        return False
    R = _ed_decompress(sig[:32])
    if R is None:
        return False
    s = int.from_bytes(sig[32:], "little")
    if s >= L25519:
        return False
    h = int.from_bytes(_sha512(sig[:32] + public + msg), "little") % L25519
    return _ed_eq(_ed_mul(s, ED_G), _ed_add(R, _ed_mul(h, A)))


# ---------------------------------------------------------------- secp256k1
SP = 0xFFFFFFFFFFFFFFFFFFFFFFFFFFFFFFFFFFFFFFFFFFFFFFFFFFFFFFFEFFFFFC2F
SN = 0xFFFFFFFFFFFFFFFFFFFFFFFFFFFFFFFEBAAEDCE6AF48A03BBFD25E8CD0364141
SGX = 0x79BE667EF9DCBBAC55A06295CE870B07029BFCDB2DCE28D959F2815B16F81798
SGY = 0x483ADA7726A3C4655DA4FBFC0E1108A8FD17B448A68554199C47D08FFB10D4B8
SG = (SGX, SGY)


def s_add(P, Q):
    if P is None:
        return Q
    if Q is None:
        return P
    if P[0] == Q[0]:
        if (P[1] + Q[1]) % SP == 0:
            return None
        lam = 3 * P[0] * P[0] * pow(2 * P[1], SP - 2, SP) % SP
    else:
        lam = (Q[1] - P[1]) * pow(Q[0] - P[0], SP - 2, SP) % SP
    x = (lam * lam - P[0] - Q[0]) % SP
    return (x, (lam * (P[0] - x) - P[1]) % SP)


def _j_double(P):
    X, Y, Z = P
    if Y == 0:
        return (0, 1, 0)
    S_ = 4 * X * Y * Y % SP
    M = 3 * X * X % SP
    X3 = (M * M - 2 * S_) % SP
    Y3 = (M * (S_ - X3) - 8 * Y * Y * Y * Y) % SP
    return (X3, Y3, 2 * Y * Z % SP)


def _j_add_affine(P, Q):
    """Jacobian P + affine Q (Q not infinity)."""
    X1, Y1, Z1 = P
    if Z1 == 0:
        return (Q[0], Q[1], 1)
    Z1Z1 = Z1 * Z1 % SP
    U2 = Q[0] * Z1Z1 % SP
    S2 = Q[1] * Z1 * Z1Z1 % SP
    H = (U2 - X1) % SP
    R = (S2 - Y1) % SP
    if H == 0:
        return _j_double(P) if R == 0 else (0, 1, 0)
    HH = H * H % SP
    HHH = H * HH % SP
    V = X1 * HH % SP
    X3 = (R * R - HHH - 2 * V) % SP
    Y3 = (R * (V - X3) - Y1 * HHH) % SP
    return (X3, Y3, Z1 * H % SP)


def s_mul(k, P):
    """Scalar multiplication (double-and-add in Jacobian coordinates); s_add is the
    plain affine group law and the selftest cross-checks the two."""
    if P is None or k % SN == 0:
        return None
    k %= SN
    R = (0, 1, 0)
    for bit in bin(k)[2:]:
        R = _j_double(R)
        if bit == "1":
            R = _j_add_affine(R, P)
    if R[2] == 0:
        return None
    zi = pow(R[2], SP - 2, SP)
    return (R[0] * zi * zi % SP, R[1] * zi * zi * zi % SP)


def s_mul_affine(k, P):
    R = None
    while k > 0:
        if k & 1:
            R = s_add(R, P)
        P = s_add(P, P)
        k >>= 1
    return R


def s_lift_x(x, odd=None):
    """Point with given x (even y if odd is None/False). None if not on curve."""
    if x >= SP:
        return None
    c = (pow(x, 3, SP) + 7) % SP
    y = pow(c, (SP + 1) // 4, SP)
    if y * y % SP != c:
        return None
    if bool(y & 1) != bool(odd):
        y = SP - y
    return (x, y)


def s_compress(P):
    return bytes([2 + (P[1] & 1)]) + P[0].to_bytes(32, "big")


def s_decompress(b):
    if len(b) != 33 or b[0] not in (2, 3):
        return None
    return s_lift_x(int.from_bytes(b[1:], "big"), odd=(b[0] == 3))


def ecdsa_public(d):
    return s_compress(s_mul(d, SG))


def ecdsa_sign(d, msghash, low_s=True):
    z = int.from_bytes(msghash, "big")
    ctr = 0
    while True:
        k = int.from_bytes(hashlib.sha256(d.to_bytes(32, "big") + msghash + bytes([ctr])).digest(), "big") % SN
        ctr += 1
        if k == 0:
            continue
        R = s_mul(k, SG)
        r = R[0] % SN
        if r == 0:
            continue
        s = pow(k, SN - 2, SN) * (z + r * d) % SN
        if s == 0:
            continue
        if low_s and s > SN // 2:
            s = SN - s
        if not low_s and s <= SN // 2:
            s = SN - s
        return r.to_bytes(32, "big") + s.to_bytes(32, "big")


def ecdsa_verify_raw(P, msghash, r, s):
    """Textbook ECDSA verify (no low-S rule)."""
    if not (1 <= r < SN and 1 <= s < SN):
        return False
    z = int.from_bytes(msghash, "big")
    w = pow(s, SN - 2, SN)
    X = s_add(s_mul(z * w % SN, SG), s_mul(r * w % SN, P))
    if X is None:
        return False
    return X[0] % SN == r


# ---------------------------------------------------------------- BIP-340
def _tagged(tag, data):
    t = hashlib.sha256(tag.encode()).digest()
    return hashlib.sha256(t + t + data).digest()


def schnorr_public(d):
    return s_mul(d, SG)[0].to_bytes(32, "big")


def schnorr_sign(d0, msg, aux=bytes(32)):
    P = s_mul(d0, SG)
    d = d0 if P[1] % 2 == 0 else SN - d0
    t = (d ^ int.from_bytes(_tagged("BIP0340/aux", aux), "big")).to_bytes(32, "big")
    pb = P[0].to_bytes(32, "big")
    k0 = int.from_bytes(_tagged("BIP0340/nonce", t + pb + msg), "big") % SN
    assert k0 != 0
    R = s_mul(k0, SG)
    k = k0 if R[1] % 2 == 0 else SN - k0
    rb = R[0].to_bytes(32, "big")
    e = int.from_bytes(_tagged("BIP0340/challenge", rb + pb + msg), "big") % SN
    return rb + ((k + e * d) % SN).to_bytes(32, "big")


def schnorr_verify(P, pk, msg, sig):
    """P = lifted point of the 32-byte key pk (already validated)."""
    r = int.from_bytes(sig[:32], "big")
    s = int.from_bytes(sig[32:], "big")
    if r >= SP or s >= SN:
        return False
    e = int.from_bytes(_tagged("BIP0340/challenge", sig[:32] + pk + msg), "big") % SN
    R = s_add(s_mul(s, SG), s_mul(SN - e, P))
    if R is None or R[1] % 2 != 0:
        return False
    return R[0] == r


# ---------------------------------------------------------------- selftest
def selftest():
    errs = []
    sk = bytes.fromhex("9d61b19deffd5a60ba844af492ec2cc44449c5697b326919703bac031cae7f60")
    pk = "d75a980182b10ab7d54bfed3c964073a0ee172f3daa62325af021a68f707511a"
    sg = ("e5564300c360ac729086e2cc806e828a84877f1eb8e5d974d873e06522490155"
          "5fb8821590a33bacc61e39701cf9b46bd25bf5f0595bbe24655141438e7a100b")
    if ed25519_public(sk).hex() != pk:
        errs.append("ed25519 public (RFC8032 test 1)")
    if ed25519_sign(sk, b"").hex() != sg:
        errs.append("ed25519 sign (RFC8032 test 1)")
    if not ed25519_verify(bytes.fromhex(pk), b"", bytes.fromhex(sg)):
        errs.append("ed25519 verify (RFC8032 test 1)")
    if ed25519_verify(bytes.fromhex(pk), b"x", bytes.fromhex(sg)):
        errs.append("ed25519 verify accepted wrong message")
    # RFC 8032 test 2
    sk2 = bytes.fromhex("4ccd089b28ff96da9db6c346ec114e0f5b8a319f35aba624da8cf6ed4fb8a6fb")
    sg2 = ("92a009a9f0d4cab8720e820b5f642540a2b27b5416503f8fb3762223ebdb69da"
           "085ac1e43e15996e458f3613d0f11d8c387b2eaeb4302aeeb00d291612bb0c00")
    if ed25519_public(sk2).hex() != "3d4017c3e843895a92b70aa74d1b7ebc9c982ccf2ec4968cc0cd55f12af4660c":
        errs.append("ed25519 public (RFC8032 test 2)")
    if ed25519_sign(sk2, b"\x72").hex() != sg2:
        errs.append("ed25519 sign (RFC8032 test 2)")
    # secp256k1 group sanity
    if (SGY * SGY - SGX ** 3 - 7) % SP != 0:
        errs.append("secp256k1 G not on curve")
    if s_mul(SN, SG) is not None:
        errs.append("secp256k1 n*G != O")
    for k in (1, 2, 3, 7, 2 ** 128 + 5, SN - 1, SN - 2):
        if s_mul(k, SG) != s_mul_affine(k, SG):
            errs.append("secp256k1 jacobian/affine mismatch k=%d" % k)
    if s_mul_affine(SN, SG) is not None:
        errs.append("secp256k1 n*G != O (affine)")
    if s_mul(2, SG)[0] != 0xC6047F9441ED7D6D3045406E95C07CD85C778E4B8CEF3CA7ABAC09B95C709EE5:
        errs.append("secp256k1 2G.x")
    for d in (1, 3, 0xB7E151628AED2A6ABF7158809CF4F3C762E7160F38B4DA56A784D9045190CFEF):
        h = hashlib.sha256(b"m%d" % (d % 1000)).digest()
        s = ecdsa_sign(d, h)
        P = s_decompress(ecdsa_public(d))
        if P is None or not ecdsa_verify_raw(P, h, int.from_bytes(s[:32], "big"), int.from_bytes(s[32:], "big")):
            errs.append("ecdsa sign/verify consistency d=%x" % d)
        if int.from_bytes(s[32:], "big") > SN // 2:
            errs.append("ecdsa low-s normalisation")
        for m in (b"", b"abc", bytes(32), bytes(100)):
            sg_ = schnorr_sign(d, m)
            pkb = schnorr_public(d)
            if not schnorr_verify(s_lift_x(int.from_bytes(pkb, "big")), pkb, m, sg_):
                errs.append("schnorr sign/verify consistency")
    # BIP-340 test vector 0 (sk = 3, aux = 0, msg = 0^32)
    v0 = schnorr_sign(3, bytes(32)).hex().upper()
    want = ("E907831F80848D1069A5371B402410364BDF1C5F8307B0084C55F1CE2DCA8215"
            "25F66A4A85EA8B71E482A74F382D2CE5EBEEE8FDB2172F477DF4900D310536C0")
    if v0 != want:
        errs.append("BIP-340 vector 0: got " + v0)
    return errs


if __name__ == "__main__":
    e = selftest()
    print("\n".join(e) if e else "sigs ok")
