"""Canonical CBOR encoding of Plutus Data (the encoding produced by serialiseData)."""
from values import Undefined


def _head(major, n):
    """CBOR initial byte(s) for major type `major` with argument n (0 <= n < 2^64)."""
    m = major << 5
    if n < 24:
        return bytes([m | n])
    if n < 1 << 8:
        return bytes([m | 24, n])
    if n < 1 << 16:
        return bytes([m | 25]) + n.to_bytes(2, "big")
    if n < 1 << 32:
        return bytes([m | 26]) + n.to_bytes(4, "big")
    return bytes([m | 27]) + n.to_bytes(8, "big")


def encode_bytes(b):
    """<= 64 bytes: definite; longer: indefinite string of 64-byte definite chunks."""
    if len(b) <= 64:
        return _head(2, len(b)) + b
    out = b"\x5f"
    for off in range(0, len(b), 64):
        chunk = b[off:off + 64]
        out += _head(2, len(chunk)) + chunk
    return out + b"\xff"


def encode_integer(n):
    if 0 <= n < 1 << 64:
        return _head(0, n)
    if -(1 << 64) <= n < 0:
        return _head(1, -1 - n)
    if n > 0:
        mag, tag = n, b"\xc2"
    else:
        mag, tag = -1 - n, b"\xc3"
    return tag + encode_bytes(mag.to_bytes((mag.bit_length() + 7) // 8, "big"))


def encode_list(items):
    if not items:
        return b"\x80"
    return b"\x9f" + b"".join(encode_data(x) for x in items) + b"\xff"


def encode_data(d):
    k = d[0]
    if k == "constr":
        tag, fields = d[1], d[2]
        if 0 <= tag < 7:
            return _head(6, 121 + tag) + encode_list(fields)
        if 7 <= tag < 128:
            return _head(6, 1280 + tag - 7) + encode_list(fields)
        if 0 <= tag < 1 << 64:
            return _head(6, 102) + b"\x82" + _head(0, tag) + encode_list(fields)
        # The general form stores the index as an unsigned 64-bit integer; a tag
        # outside that range has no encoding the decoder would accept.
        raise Undefined("constructor tag outside [0, 2^64)")
    if k == "map":
        return _head(5, len(d[1])) + b"".join(encode_data(a) + encode_data(b) for a, b in d[1])
    if k == "list":
        return encode_list(d[1])
    if k == "int":
        return encode_integer(d[1])
    return encode_bytes(d[1])


def selftest():
    errs = []

    def chk(d, want):
        got = encode_data(d).hex()
        if got != want:
            errs.append("cbor %r: got %s want %s" % (d, got, want))

    chk(("constr", 0, []), "d87980")
    chk(("constr", 6, []), "d87f80")
    chk(("constr", 7, []), "d9050080")
    chk(("constr", 127, []), "d9057880")
    chk(("constr", 128, []), "d8668218808" + "0")
    chk(("constr", 1, [("int", 1)]), "d87a9f01ff")
    chk(("int", 0), "00")
    chk(("int", 23), "17")
    chk(("int", 24), "1818")
    chk(("int", -1), "20")
    chk(("int", 256), "190100")
    chk(("int", (1 << 64) - 1), "1bffffffffffffffff")
    chk(("int", -(1 << 64)), "3bffffffffffffffff")
    chk(("int", 1 << 64), "c249010000000000000000")
    chk(("int", -(1 << 64) - 1), "c349010000000000000000")
    chk(("list", [("int", 1)]), "9f01ff")
    chk(("list", []), "80")
    chk(("map", []), "a0")
    chk(("map", [(("int", 1), ("bytes", b"\x02"))]), "a1014102")
    chk(("bytes", b""), "40")
    chk(("bytes", bytes(64)), "5840" + "00" * 64)
    chk(("bytes", bytes(65)), "5f5840" + "00" * 64 + "4100ff")
    chk(("int", 1 << 512), "c25f5840" + "01" + "00" * 63 + "4100ff")
    return errs


if __name__ == "__main__":
    e = selftest()
    print("\n".join(e) if e else "cbor ok")
