"""Type checking of saturated builtin applications and evaluation to a JSON result."""
from values import Fail, Undefined, type_of, value_json
from denot_core import REG
import denot_bits  # noqa: F401  (registers the remaining builtins)

VARIANTS = ["A", "B", "C", "D", "E"]


def _match(pat, ty, env):
    """Match a signature pattern against a constant's type, binding type variables."""
    if isinstance(pat, str):
        return pat == ty
    if pat[0] == "var":
        if pat[1] in env:
            return env[pat[1]] == ty
        env[pat[1]] = ty
        return True
    if isinstance(ty, str) or ty[0] != pat[0]:
        return False
    return all(_match(p, t, env) for p, t in zip(pat[1:], ty[1:]))


def well_typed(sig, args):
    env = {}
    # concrete/list-shaped patterns first so that e.g. mkCons binds `a` from either side
    for pat, arg in zip(sig, args):
        if pat == "*":
            continue
        ty = type_of(arg)
        if ty is None or not _match(pat, ty, env):
            return False
    return True


def evaluate(name, args, variant):
    """Returns {"ok": json} | "fail" | "undefined"."""
    sig, fn = REG[name]
    assert len(sig) == len(args), name
    if not well_typed(sig, args):
        return "fail"
    try:
        return {"ok": value_json(fn(variant, *args))}
    except Fail:
        return "fail"
    except Undefined:
        return "undefined"


def record(name, args):
    """One output record (dict) for an application, merging variants when they agree."""
    res = {}
    sig, fn = REG[name]
    if name in ("consByteString", "shiftByteString", "rotateByteString"):
        for v in VARIANTS:
            res[v] = evaluate(name, args, v)
    else:
        r = evaluate(name, args, "A")
        res = {v: r for v in VARIANTS}
    rec = {"f": name, "args": [value_json(a) for a in args]}
    first = res["A"]
    if all(res[v] == first for v in VARIANTS):
        rec["expect"] = first
    else:
        rec["expect_by_variant"] = res
    return rec
