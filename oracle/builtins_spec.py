#!/usr/bin/env python3
"""Independent reference oracle for the Untyped Plutus Core built-in functions.

    builtins_spec.py gen --tier quick|thorough --out <path.jsonl>
    builtins_spec.py selftest

Layout:  values.py (value repr / JSON), denot_core.py + denot_bits.py (one function per
builtin denotation), evalb.py (type rule + evaluation), cbor_data.py, hashes.py, sigs.py
(pure-Python helpers), alphabets.py + cases.py (exhaustive enumeration).
"""
import argparse
import json
import os
import sys
import time

sys.path.insert(0, os.path.dirname(os.path.abspath(__file__)))
if hasattr(sys, "set_int_max_str_digits"):
    sys.set_int_max_str_digits(0)

import evalb            # noqa: E402
import cases            # noqa: E402

BUILTINS = """addInteger subtractInteger multiplyInteger divideInteger quotientInteger remainderInteger
modInteger equalsInteger lessThanInteger lessThanEqualsInteger appendByteString consByteString
sliceByteString lengthOfByteString indexByteString equalsByteString lessThanByteString
lessThanEqualsByteString sha2_256 sha3_256 blake2b_256 blake2b_224 keccak_256 ripemd_160
verifyEd25519Signature verifyEcdsaSecp256k1Signature verifySchnorrSecp256k1Signature appendString
equalsString encodeUtf8 decodeUtf8 ifThenElse chooseUnit trace fstPair sndPair chooseList mkCons
headList tailList nullList chooseData constrData mapData listData iData bData unConstrData unMapData
unListData unIData unBData equalsData serialiseData mkPairData mkNilData mkNilPairData
integerToByteString byteStringToInteger andByteString orByteString xorByteString complementByteString
readBit writeBits replicateByte shiftByteString rotateByteString countSetBits findFirstSetBit
expModInteger dropList""".split()


def _classify(rec):
    """(n_undefined_slots, n_slots) for the undefined-fraction statistic."""
    if "expect" in rec:
        return (1 if rec["expect"] == "undefined" else 0), 1
    vals = list(rec["expect_by_variant"].values())
    return sum(1 for v in vals if v == "undefined") / len(vals), 1


def gen(tier, out_path, stats_to=sys.stderr):
    t0 = time.time()
    plan = cases.plan(tier)
    stats = {}
    with open(out_path, "w", encoding="utf-8") as out:
        for name in BUILTINS:
            seen = set()
            n = und = 0
            for args in cases.all_cases(name, tier, plan):
                key = repr(args)
                if key in seen:
                    continue
                seen.add(key)
                rec = evalb.record(name, args)
                u, _ = _classify(rec)
                und += u
                n += 1
                out.write(json.dumps(rec, separators=(",", ":")))
                out.write("\n")
            stats[name] = (n, und)
    total = sum(n for n, _ in stats.values())
    if stats_to is not None:
        for name in BUILTINS:
            n, und = stats[name]
            print("%-34s %8d lines  undefined %6.2f%%" % (name, n, 100.0 * und / max(n, 1)), file=stats_to)
        print("TOTAL %d lines, %.1f s" % (total, time.time() - t0), file=stats_to)
    return stats


def selftest():
    import hashes
    import sigs
    import cbor_data
    import values as V
    from values import I, B, S, UNIT, Bool, L, P, D, NC
    errs = []
    errs += hashes.selftest()
    errs += sigs.selftest()
    errs += cbor_data.selftest()

    if sorted(evalb.REG) != sorted(BUILTINS):
        errs.append("registry/builtin list mismatch: %s" %
                    (set(evalb.REG) ^ set(BUILTINS)))

    def ev(name, *args, variant="A"):
        return evalb.evaluate(name, list(args), variant)

    def ok(v):
        return {"ok": V.value_json(v)}

    def chk(label, got, want):
        if got != want:
            errs.append("%s: got %r want %r" % (label, got, want))

    # division family
    chk("-7 div 2", ev("divideInteger", I(-7), I(2)), ok(I(-4)))
    chk("-7 mod 2", ev("modInteger", I(-7), I(2)), ok(I(1)))
    chk("-7 quot 2", ev("quotientInteger", I(-7), I(2)), ok(I(-3)))
    chk("-7 rem 2", ev("remainderInteger", I(-7), I(2)), ok(I(-1)))
    chk("7 div -2", ev("divideInteger", I(7), I(-2)), ok(I(-4)))
    chk("7 mod -2", ev("modInteger", I(7), I(-2)), ok(I(-1)))
    chk("7 quot -2", ev("quotientInteger", I(7), I(-2)), ok(I(-3)))
    chk("7 rem -2", ev("remainderInteger", I(7), I(-2)), ok(I(1)))
    chk("div 0", ev("divideInteger", I(1), I(0)), "fail")
    for a in (-9, -8, -1, 0, 1, 8, 9, 2 ** 64, -2 ** 64 - 1):
        for b in (-3, -1, 1, 3, 2 ** 63):
            chk("floor %d %d" % (a, b), ev("divideInteger", I(a), I(b)), ok(I(a // b)))
            chk("mod %d %d" % (a, b), ev("modInteger", I(a), I(b)), ok(I(a % b)))
            q = ev("quotientInteger", I(a), I(b))["ok"]["int"]
            r = ev("remainderInteger", I(a), I(b))["ok"]["int"]
            if int(q) * b + int(r) != a or abs(int(r)) >= abs(b) or (int(r) != 0 and (int(r) < 0) != (a < 0)):
                errs.append("quot/rem law %d %d" % (a, b))
    # bytestrings
    chk("cons A", ev("consByteString", I(256), B(b"a")), ok(B(b"\x00a")))
    chk("cons A neg", ev("consByteString", I(-1), B(b"")), ok(B(b"\xff")))
    chk("cons C", ev("consByteString", I(256), B(b"a"), variant="C"), "fail")
    chk("cons E ok", ev("consByteString", I(255), B(b"a"), variant="E"), ok(B(b"\xffa")))
    chk("slice", ev("sliceByteString", I(1), I(2), B(b"abcde")), ok(B(b"bc")))
    chk("slice neg start", ev("sliceByteString", I(-1), I(2), B(b"abcde")), ok(B(b"ab")))
    chk("slice huge", ev("sliceByteString", I(-2 ** 64), I(2 ** 64), B(b"abcde")), ok(B(b"abcde")))
    chk("slice neg len", ev("sliceByteString", I(1), I(-1), B(b"abcde")), ok(B(b"")))
    chk("slice past", ev("sliceByteString", I(5), I(1), B(b"abcde")), ok(B(b"")))
    chk("index", ev("indexByteString", B(b"abc"), I(2)), ok(I(99)))
    chk("index oob", ev("indexByteString", B(b"abc"), I(3)), "fail")
    chk("lt", ev("lessThanByteString", B(b"\x01"), B(b"\x01\x00")), ok(Bool(True)))
    chk("lt2", ev("lessThanByteString", B(b"\x02"), B(b"\x01\xff")), ok(Bool(False)))
    chk("lte eq", ev("lessThanEqualsByteString", B(b""), B(b"")), ok(Bool(True)))
    chk("decode bad", ev("decodeUtf8", B(b"\xed\xa0\x80")), "fail")
    chk("decode ok", ev("decodeUtf8", B(b"\xf0\x9d\x84\x9e")), ok(S("\U0001D11E")))
    # typing
    chk("type nonconst", ev("addInteger", I(1), NC("lam")), "fail")
    chk("mkCons bad", ev("mkCons", I(1), L("bool", [])), "fail")
    chk("mkCons ok", ev("mkCons", Bool(True), L("bool", [])), ok(L("bool", [Bool(True)])))
    chk("listData bad", ev("listData", L("integer", [])), "fail")
    chk("mapData bad", ev("mapData", L("data", [])), "fail")
    chk("ite poly", ev("ifThenElse", Bool(False), I(1), NC("delay")), ok(NC("delay")))
    chk("chooseList", ev("chooseList", L("integer", []), NC("lam"), I(2)), ok(NC("lam")))
    chk("head []", ev("headList", L("data", [])), "fail")
    chk("tail", ev("tailList", L("integer", [I(1), I(2)])), ok(L("integer", [I(2)])))
    chk("drop", ev("dropList", I(1), L("integer", [I(1), I(2)])), ok(L("integer", [I(2)])))
    chk("drop neg", ev("dropList", I(-2 ** 70), L("bool", [Bool(True)])), ok(L("bool", [Bool(True)])))
    chk("drop big", ev("dropList", I(2 ** 62), L("bool", [Bool(True)])), ok(L("bool", [])))
    # data
    chk("unConstr", ev("unConstrData", D(("constr", 3, [("int", 1)]))),
        ok(P(I(3), L("data", [D(("int", 1))]))))
    chk("unI bad", ev("unIData", D(("bytes", b""))), "fail")
    chk("chooseData", ev("chooseData", D(("list", [])), I(0), I(1), I(2), I(3), I(4)), ok(I(2)))
    chk("serialise", ev("serialiseData", D(("constr", 0, []))), ok(B(bytes.fromhex("d87980"))))
    chk("equalsData", ev("equalsData", D(("map", [(("int", 1), ("int", 2))])), D(("map", [(("int", 1), ("int", 2))]))),
        ok(Bool(True)))
    chk("mkNilPairData", ev("mkNilPairData", UNIT), ok(L(V.T_PAIR_DD, [])))
    # CIP-121
    chk("i2bs be", ev("integerToByteString", Bool(True), I(2), I(258)), ok(B(b"\x01\x02")))
    chk("i2bs le", ev("integerToByteString", Bool(False), I(4), I(258)), ok(B(b"\x02\x01\x00\x00")))
    chk("i2bs min", ev("integerToByteString", Bool(True), I(0), I(0)), ok(B(b"")))
    chk("i2bs overflow", ev("integerToByteString", Bool(True), I(1), I(256)), "fail")
    chk("i2bs neg", ev("integerToByteString", Bool(True), I(1), I(-1)), "fail")
    chk("i2bs width", ev("integerToByteString", Bool(True), I(8193), I(0)), "fail")
    chk("i2bs 8192", ev("integerToByteString", Bool(True), I(0), I(2 ** 65536)), "fail")
    chk("bs2i be", ev("byteStringToInteger", Bool(True), B(b"\x01\x02")), ok(I(258)))
    chk("bs2i le", ev("byteStringToInteger", Bool(False), B(b"\x01\x02")), ok(I(513)))
    # CIP-122 (examples from the CIP)
    chk("and trunc", ev("andByteString", Bool(False), B(b"\x0f\xff"), B(b"\xf0")), ok(B(b"\x00")))
    chk("and pad", ev("andByteString", Bool(True), B(b"\x0f\xff"), B(b"\xf0")), ok(B(b"\x00\xff")))
    chk("or pad", ev("orByteString", Bool(True), B(b"\x0f\xff"), B(b"\xf0")), ok(B(b"\xff\xff")))
    chk("xor pad", ev("xorByteString", Bool(True), B(b"\xff"), B(b"\x0f\xf0")), ok(B(b"\xf0\xf0")))
    chk("readBit 0", ev("readBit", B(b"\x00\x01"), I(0)), ok(Bool(True)))
    chk("readBit 15", ev("readBit", B(b"\x80\x00"), I(15)), ok(Bool(True)))
    chk("readBit f4", ev("readBit", B(b"\xf4"), I(2)), ok(Bool(True)))
    chk("readBit oob", ev("readBit", B(b"\xf4"), I(8)), "fail")
    chk("readBit empty", ev("readBit", B(b""), I(0)), "fail")
    chk("writeBits", ev("writeBits", B(b"\xff"), L("integer", [I(0)]), Bool(False)), ok(B(b"\xfe")))
    chk("writeBits 2", ev("writeBits", B(b"\x00\x00"), L("integer", [I(15), I(0)]), Bool(True)), ok(B(b"\x80\x01")))
    chk("writeBits oob", ev("writeBits", B(b"\x00"), L("integer", [I(0), I(8)]), Bool(True)), "fail")
    chk("replicate", ev("replicateByte", I(3), I(7)), ok(B(b"\x07\x07\x07")))
    chk("replicate bad", ev("replicateByte", I(8193), I(7)), "fail")
    # CIP-123 (examples from the CIP)
    chk("shift 4", ev("shiftByteString", B(b"\xeb\xfc"), I(5)), ok(B(b"\x7f\x80")))
    chk("shift -5", ev("shiftByteString", B(b"\xeb\xfc"), I(-5)), ok(B(b"\x07\x5f")))
    chk("shift 16", ev("shiftByteString", B(b"\xeb\xfc"), I(16)), ok(B(b"\x00\x00")))
    chk("rot 5", ev("rotateByteString", B(b"\xeb\xfc"), I(5)), ok(B(b"\x7f\x9d")))
    chk("rot -5", ev("rotateByteString", B(b"\xeb\xfc"), I(-5)), ok(B(b"\xe7\x5f")))
    chk("rot 16", ev("rotateByteString", B(b"\xeb\xfc"), I(16)), ok(B(b"\xeb\xfc")))
    chk("rot empty", ev("rotateByteString", B(b""), I(3)), ok(B(b"")))
    chk("popcount", ev("countSetBits", B(b"\x01\x02\x03")), ok(I(4)))
    chk("ffs", ev("findFirstSetBit", B(b"\x00\x02")), ok(I(1)))
    chk("ffs2", ev("findFirstSetBit", B(b"\xff\xf2")), ok(I(1)))
    chk("ffs none", ev("findFirstSetBit", B(b"\x00\x00")), ok(I(-1)))
    chk("ffs hi", ev("findFirstSetBit", B(b"\x80\x00")), ok(I(15)))
    # expMod
    chk("expmod", ev("expModInteger", I(2), I(10), I(1000)), ok(I(24)))
    chk("expmod neg", ev("expModInteger", I(3), I(-1), I(7)), ok(I(5)))
    chk("expmod noinv", ev("expModInteger", I(2), I(-1), I(4)), "fail")
    chk("expmod m1", ev("expModInteger", I(2), I(-1), I(1)), ok(I(0)))
    chk("expmod m0", ev("expModInteger", I(2), I(1), I(0)), "fail")
    chk("expmod negbase", ev("expModInteger", I(-2), I(3), I(7)), ok(I(6)))
    for b in (-5, 0, 3, 10):
        for e in (-3, -1, 0, 1, 5):
            for m in (2, 7, 9):
                try:
                    want = ok(I(pow(b, e, m)))
                except ValueError:
                    want = "fail"
                chk("expmod %d %d %d" % (b, e, m), ev("expModInteger", I(b), I(e), I(m)), want)
    # every alphabet value is well formed; every record is valid JSON and round-trips
    plan = cases.plan("quick")
    for name, (good, few) in plan.items():
        for pos in good + few:
            for v in pos:
                if not V.well_formed(v):
                    errs.append("ill-formed alphabet value for %s: %r" % (name, v))
    rec = evalb.record("trace", [S("\u0000x\U0001D11E"), NC("lam")])
    if json.loads(json.dumps(rec)) != rec:
        errs.append("json round trip")
    if errs:
        for e in errs:
            print("SELFTEST FAIL:", e)
        return 1
    print("selftest ok")
    return 0


def main():
    ap = argparse.ArgumentParser()
    sub = ap.add_subparsers(dest="cmd", required=True)
    g = sub.add_parser("gen")
    g.add_argument("--tier", choices=["quick", "thorough"], required=True)
    g.add_argument("--out", required=True)
    sub.add_parser("selftest")
    a = ap.parse_args()
    if a.cmd == "gen":
        gen(a.tier, a.out)
        return 0
    return selftest()


if __name__ == "__main__":
    sys.exit(main())
