"""Boundary-value alphabets per argument type (deterministic; no randomness)."""
from values import I, B, S, UNIT, Bool, L, P, D, NC, T_PAIR_DD


def dedupe(xs):
    seen, out = set(), []
    for x in xs:
        k = repr(x)
        if k not in seen:
            seen.add(k)
            out.append(x)
    return out


# ------------------------------------------------------------------ integers
BASE_INTS = [0, 1, -1, 2, -2, 7, -7, 8, 255, 256, -256, 2 ** 31, 2 ** 63 - 1, 2 ** 63, -2 ** 63,
             -2 ** 63 - 1, 2 ** 64 - 1, 2 ** 64, 2 ** 64 + 1, 2 ** 127, 2 ** 128, -(2 ** 128)]
THOROUGH_INTS = [65535, 65536, 8191 * 8, 8192 * 8, 2 ** 8191 - 1, 2 ** 32 - 1, 2 ** 32, 2 ** 62,
                 2 ** 65, 2 ** 100, 2 ** 255, 2 ** 256, 10 ** 30, 3, 5, 10, 100, 1000]


EXT_EXTRA = [3, 5, 10, 100, 65535, 65536, 2 ** 32 - 1, 2 ** 32, 2 ** 62, 2 ** 65, 10 ** 30]


def int_set(tier, ext=True):
    """Raw python ints.  ext: add neighbours (+-1) and negations of every boundary."""
    base = list(BASE_INTS)
    if tier == "thorough":
        base += THOROUGH_INTS
    out = list(base)
    if ext:
        base += EXT_EXTRA
        out = list(base)
        for x in base:
            out += [x + 1, x - 1]
        out += [-x for x in list(out)]
        if tier == "thorough":
            out += [x * 3 for x in base] + [x // 3 for x in base if abs(x) > 8]
    return dedupe(out)


def ints(raw):
    return [I(x) for x in raw]


# ------------------------------------------------------------------ bytestrings
def _pat(kind, n):
    if kind == "00":
        return bytes(n)
    if kind == "ff":
        return b"\xff" * n
    if kind == "inc":
        return bytes((i + 1) & 0xFF for i in range(n))
    if kind == "80":
        return (b"\x80" + bytes(n))[:n]
    if kind == "01":                       # 00 .. 00 01  (lowest bit only)
        return (bytes(n) + b"\x01")[-n:] if n else b""
    raise ValueError(kind)


def bs_lengths(tier):
    return [0, 1, 2, 8, 9, 32, 33, 64, 65] + ([255, 256] if tier == "thorough" else [])


def bs_full(tier):
    """All lengths x all patterns, plus a few ordering / bit-pattern specials."""
    out = []
    for n in bs_lengths(tier):
        for kind in ("00", "ff", "inc", "80", "01"):
            out.append(_pat(kind, n))
    out += [bytes.fromhex(h) for h in ("0103", "ff00", "00ff", "7f", "0100", "a5", "5aa5", "f00f0ff0")]
    return dedupe(out)


def bs_small(tier):
    """~8 (quick) / ~16 (thorough) distinct byte strings for large products."""
    out = [b"", b"\x00", b"\xff", bytes.fromhex("0102"), _pat("inc", 8), _pat("80", 9),
           _pat("ff", 32), _pat("inc", 33), _pat("inc", 65)]
    if tier == "thorough":
        out += [_pat("00", 64), _pat("ff", 65), _pat("01", 2), _pat("80", 2), _pat("inc", 255),
                _pat("80", 256), bytes.fromhex("a55a"), _pat("01", 9)]
    return dedupe(out)


def bs_hash_extra(tier):
    """Lengths around hash block/padding boundaries."""
    lens = [55, 56, 63, 111, 112, 119, 120, 127, 128, 129, 135, 136, 137, 143, 144, 200, 1000]
    if tier == "thorough":
        lens += [71, 72, 73, 103, 104, 105, 183, 184, 191, 192, 193, 271, 272, 273, 4096, 10000]
    return [_pat("inc", n) for n in lens] + [_pat("00", n) for n in lens[:8]]


UTF8_BYTES = [bytes.fromhex(h) for h in (
    "", "00", "61", "7f", "80", "bf", "c080", "c1bf", "c280", "c3a9", "c3", "c328", "dfbf",
    "e08080", "e09f80", "e0a080", "e282ac", "e282", "e228a1", "ed9fbf", "eda080", "edbfbf",
    "ee8080", "efbfbd", "efbbbf61", "efbfbe", "efbfbf", "f0808080", "f08f8080", "f0908080",
    "f09d849e", "f09d84", "f09d", "f0", "f48fbfbf", "f4908080", "f5808080", "f888808080",
    "fe", "ff", "6162", "0078", "61c3a9f09d849e", "61c3", "c3a961ff", "f09d849e80", "c2c2",
    "e182c0", "41e282ac42")]

# ------------------------------------------------------------------ strings
STRINGS = ["", "a", "é", "\u0000x", "\U0001D11E", "ab"]
THOROUGH_STRINGS = ["\u007f", "\u0080", "߿", "ࠀ", "￿", "\U00010000", "\U0010ffff",
                    "é", "\n", "a" * 100]


def strings(tier):
    return [S(s) for s in STRINGS + (THOROUGH_STRINGS if tier == "thorough" else [])]


# ------------------------------------------------------------------ data
def _leaf_data(tier):
    iv = [0, 1, -1, 23, 24, -24, -25, 255, 256, 65535, 65536, 2 ** 32 - 1, 2 ** 32, 2 ** 63 - 1,
          2 ** 63, -2 ** 63, -2 ** 63 - 1, 2 ** 64 - 1, 2 ** 64, -2 ** 64, -2 ** 64 - 1, 2 ** 128,
          -(2 ** 128), 2 ** 512 - 1, 2 ** 512, -(2 ** 512), -(2 ** 512) - 1, 2 ** 1024 + 5]
    bl = [0, 1, 2, 23, 24, 32, 63, 64, 65, 128, 129]
    if tier == "thorough":
        iv += [2 ** 8 - 2, 2 ** 16 + 1, 2 ** 504, 2 ** 520, 2 ** 2048, -(2 ** 2048)]
        bl += [127, 192, 193, 255, 256, 257, 1000]
    out = [("int", x) for x in iv]
    out += [("bytes", _pat("inc", n)) for n in bl]
    return out


CONSTR_TAGS = [0, 1, 6, 7, 8, 127, 128, 129, 255, 256, 65535, 65536, 2 ** 32, 2 ** 63, 2 ** 64 - 1]
EXOTIC_TAGS = [-1, 2 ** 64, -(2 ** 64), 2 ** 128]   # outside the unsigned 64-bit range


def data_set(tier, exotic=False):
    """Raw Data terms: all five constructors, nesting, boundary tags/ints/bytes."""
    leaves = _leaf_data(tier)
    i1, i2, b0, b1 = ("int", 1), ("int", 2), ("bytes", b""), ("bytes", b"\x01")
    out = list(leaves)
    out += [("constr", t, []) for t in CONSTR_TAGS]
    out += [("constr", t, [i1]) for t in (0, 6, 7, 127, 128)]
    out += [("constr", 0, [i1, b1]), ("constr", 1, [("constr", 0, [])]),
            ("constr", 2, [("list", []), ("map", [])]),
            ("constr", 128, [("list", [i1]), ("map", [(i1, b0)])])]
    out += [("list", []), ("list", [i1]), ("list", [i1, i2]), ("list", [i2, i1]), ("list", [b0]),
            ("list", [("list", [])]), ("list", [("list", [i1]), ("map", []), ("constr", 0, [])]),
            ("list", [("int", 2 ** 64), ("bytes", _pat("inc", 65))]),
            ("list", [i1] * 23), ("list", [i1] * 24), ("list", [i1] * 25)]
    out += [("map", []), ("map", [(i1, i2)]), ("map", [(i2, i1)]), ("map", [(i1, i2), (i2, i1)]),
            ("map", [(i2, i1), (i1, i2)]), ("map", [(i1, i2), (i1, i2)]), ("map", [(i1, i1), (i1, i2)]),
            ("map", [(b0, ("list", []))]), ("map", [(("map", []), ("map", []))]),
            ("map", [(("constr", 7, [i1]), ("bytes", _pat("ff", 65)))]),
            ("map", [(("int", k), ("int", -k)) for k in range(24)])]
    out += [("list", [leaf]) for leaf in leaves[::3]]
    out += [("constr", 3, [leaf]) for leaf in leaves[1::3]]
    out += [("map", [(leaf, leaf)]) for leaf in leaves[2::3]]
    if exotic:
        out += [("constr", t, []) for t in EXOTIC_TAGS] + [("constr", -1, [i1]),
                                                          ("list", [("constr", 2 ** 64, [])])]
    return dedupe(out)


def datas(raw):
    return [D(d) for d in raw]


# ------------------------------------------------------------------ lists / pairs
def list_set():
    """Lists of assorted element types ([] and 1-3 elements)."""
    d1, d2 = D(("int", 1)), D(("constr", 0, []))
    pdd = P(d1, D(("bytes", b"")))
    return [
        L("integer", []), L("integer", [I(1)]), L("integer", [I(1), I(2)]),
        L("integer", [I(2 ** 64), I(-1), I(0)]), L("integer", [I(k) for k in range(10)]),
        L("data", []), L("data", [d1]), L("data", [d2, D(("bytes", b"\x01")), D(("list", []))]),
        L("bool", []), L("bool", [Bool(True)]), L("bool", [Bool(True), Bool(False)]),
        L(T_PAIR_DD, []), L(T_PAIR_DD, [pdd]), L(T_PAIR_DD, [pdd, P(d2, d2)]),
        L("bytestring", []), L("bytestring", [B(b""), B(b"\x01\x02")]),
        L("string", [S("a")]), L("unit", [UNIT, UNIT]),
        L(("list", "integer"), []), L(("list", "integer"), [L("integer", [I(1)]), L("integer", [])]),
        L(("pair", "integer", "bool"), [P(I(1), Bool(True))]),
    ]


def pair_set():
    d1 = D(("int", 1))
    return [P(I(1), Bool(True)), P(d1, D(("bytes", b""))), P(I(-2 ** 64), I(0)),
            P(B(b"\x01"), S("a")), P(UNIT, L("integer", [I(1)])), P(L("data", []), d1),
            P(P(I(1), I(2)), Bool(False)), P(D(("constr", 0, [])), D(("map", [])))]


# ------------------------------------------------------------------ wrong-type representatives
def reps():
    """One representative of every type (plus non-constants); used at every argument
    position -- those that happen to be well typed there simply yield non-failing cases."""
    d1 = D(("int", 1))
    return [I(1), B(b"\x01"), S("a"), UNIT, Bool(True), Bool(False), d1,
            D(("constr", 0, [])), D(("map", [])), D(("list", [])), D(("bytes", b"")),
            L("integer", [I(1)]), L("integer", []), L("data", [d1]), L("data", []), L("bool", [Bool(True)]),
            L(T_PAIR_DD, [P(d1, d1)]), L(T_PAIR_DD, []), L("bytestring", [B(b"")]),
            L(("pair", "integer", "data"), [P(I(1), d1)]), L(("pair", "data", "integer"), []),
            L(("list", "data"), [L("data", [])]),
            P(I(1), Bool(True)), P(d1, d1), P(I(0), L("data", [])),
            NC("lam"), NC("delay"), NC("constr"), NC("builtin")]


def anything():
    """Values for fully polymorphic positions."""
    return [I(0), B(b"\xff"), S("é"), UNIT, Bool(False), D(("list", [("int", 1)])),
            L("integer", [I(1)]), P(I(1), Bool(True)),
            NC("lam"), NC("delay"), NC("constr"), NC("builtin")]
